#!/bin/bash
# usage: queue_runner.sh <queue-file> ; runs the lines of the queue file one after the other (each line a
# shell command), also lines appended while it runs; ends when a line "END" is reached.
Q=$1; N=0
while true; do
  L=$(sed -n "$((N+1))p" $Q)
  if [ -z "$L" ]; then sleep 10; continue; fi
  N=$((N+1))
  [ "$L" = "END" ] && break
  echo "[$(date +%H:%M:%S)] start: $L" >> $Q.log
  bash -c "$L" >> $Q.log 2>&1
  echo "[$(date +%H:%M:%S)] done rc=$?: $L" >> $Q.log
done
