#!/bin/bash
# usage: mutant_shell.sh <name> <patch.diff> : like try_mutant.sh but only sets up /tmp/vt_<name>
# (repo worktree with the patch + committed /verif with the harness pointed at it + built harness)
# and leaves it there for manual experiments. Remove with: mutant_shell.sh <name> --rm
NAME=$1; PATCH=$2
T=/tmp/vt_$NAME
if [ "$PATCH" = "--rm" ]; then git -C /repo worktree remove --force $T/repo; rm -rf $T; git -C /repo worktree prune; exit 0; fi
rm -rf $T; mkdir -p $T
git -C /repo worktree prune
git -C /repo worktree add -q --detach $T/repo HEAD || exit 2
git -C $T/repo apply $PATCH || { echo "PATCH DOES NOT APPLY"; exit 2; }
mkdir -p $T/verif && git -C /verif archive HEAD | tar -x -C $T/verif
sed -i "s#path = \"/repo\"#path = \"$T/repo\"#" $T/verif/harness/Cargo.toml
mkdir -p $T/verif/out
(cd $T/verif/harness && cargo build --release --offline 2>&1 | tail -1)
echo "export VERIF_ROOT=$T/verif; BIN=$T/verif/harness/target/release/rainverif"
