#!/usr/bin/env python3
"""Does the binding bind?  (DESIGN.md section 4.6 (1))

Fresh executions of the REAL code are recorded and validated (no record expected); then one field
of one recorded event is falsified, or one event is dropped or moved, and the trace specification
must notice: a violation record, a MODEL / BIND self-check record, or a rejected line.  A trace
specification that accepts a falsified trace would accept a buggy implementation, too.

usage: trace_selftest.py            (prints one line per mutation; exit 0 iff every one is noticed)
Not a registered check: it says nothing about raindb, only about the machinery.
"""
import copy
import glob
import json
import os
import shutil
import sys

sys.path.insert(0, os.path.dirname(os.path.abspath(__file__)))
import check as C  # noqa: E402


def load(path):
    return [json.loads(l) for l in open(path)]


def save(path, lines):
    with open(path, "w") as fh:
        for e in lines:
            fh.write(json.dumps(e) + "\n")


def validate(path, spec):
    vruns, rejects, _ = C.validate_traces([path], spec[0], spec[1], 1, "selftest")
    recs = [v for vr in vruns for v in vr["viol"] if "INFO" not in v["props"]
            and v["check"] not in ("DeferredReclaim",)]
    return recs, rejects


def first(lines, pred, start=0):
    for i in range(start, len(lines)):
        if pred(lines[i]):
            return i
    return None


# ---- mutations: each returns a mutated copy of the event list, or None if the trace has no
# suitable event

def m_flip_get(ls):
    i = first(ls, lambda e: e["e"] == "Obs" and any(g > 0 for g in e.get("gets", [])))
    if i is None:
        return None
    k = next(j for j, g in enumerate(ls[i]["gets"]) if g > 0)
    ls[i]["gets"][k] = 0
    return ls


def m_scan_drop(ls):
    i = first(ls, lambda e: e["e"] == "Obs" and len(e.get("fwd", [])) >= 2)
    if i is None:
        return None
    del ls[i]["fwd"][0]
    return ls


def m_drop_commit(ls):
    i = first(ls, lambda e: e["e"] == "Commit")
    if i is None:
        return None
    del ls[i]
    return ls


def m_commit_value(ls):
    i = first(ls, lambda e: e["e"] == "Commit" and any(o["op"] == 1 for o in e["ops"]))
    if i is None:
        return None
    o = next(o for o in ls[i]["ops"] if o["op"] == 1)
    o["val"] = o["val"] + 500
    return ls


def m_swap_bounds(ls):
    i = first(ls, lambda e: e["e"] == "Edit" and any(a["lo"] != a["hi"] for a in e.get("add", [])))
    if i is None:
        return None
    a = next(a for a in ls[i]["add"] if a["lo"] != a["hi"])
    a["lo"], a["hi"] = a["hi"], a["lo"]
    return ls


def m_edit_level(ls):
    i = first(ls, lambda e: e["e"] == "Edit" and e.get("add"))
    if i is None:
        return None
    a = ls[i]["add"][0]
    a["level"] = (a["level"] + 1) % 3
    return ls


def m_drop_remove(ls):
    i = first(ls, lambda e: e["e"] == "Fs" and e.get("op") == "remove" and e.get("kind") == "table")
    if i is None:
        return None
    del ls[i]
    return ls


def m_early_remove(ls):
    """a table removal moved in front of the version edit that made the table obsolete"""
    i = first(ls, lambda e: e["e"] == "Fs" and e.get("op") == "remove" and e.get("kind") == "table")
    if i is None:
        return None
    n = ls[i]["n"]
    j = None
    for x in range(i - 1, -1, -1):
        if ls[x]["e"] == "Edit" and n in ls[x].get("del", []) or \
           ls[x]["e"] == "Edit" and any(isinstance(d, dict) and d.get("f") == n for d in ls[x].get("del", [])):
            j = x
            break
    if j is None:
        return None
    ev = ls.pop(i)
    ls.insert(j, ev)
    return ls


def m_drop_rotate(ls):
    # (FlushBuilt only feeds the classification flush / compaction output; the Edit that follows
    # carries the table - dropping it is not observable and not a binding failure)
    i = first(ls, lambda e: e["e"] == "Rotate" and e.get("n", 0) > 0)
    if i is None:
        return None
    del ls[i]
    return ls


def m_dump_seq(ls):
    i = first(ls, lambda e: e["e"] == "Dump" and e.get("seq", 0) > 0)
    if i is None:
        return None
    ls[i]["seq"] += 1
    return ls


def m_dump_descr(ls):
    i = first(ls, lambda e: e["e"] == "Dump" and any(ls_ for ls_ in e.get("nfl", []) if ls_ > 0))
    if i is None:
        return None
    k = next(j for j, v in enumerate(ls[i]["nfl"]) if v > 0)
    ls[i]["nfl"][k] -= 1
    return ls


def m_snapshot_seq(ls):
    i = first(ls, lambda e: e["e"] == "Snapshot" and e.get("seq", 0) > 1)
    if i is None:
        return None
    ls[i]["seq"] -= 1
    return ls


CORE_MUTS = [("a get result falsified", m_flip_get), ("an entry dropped from a scan", m_scan_drop),
             ("a Commit event dropped", m_drop_commit), ("a committed value falsified", m_commit_value),
             ("bounds of an added file swapped in an Edit", m_swap_bounds),
             ("level of an added file changed in an Edit", m_edit_level),
             ("a table removal dropped", m_drop_remove),
             ("a table removal moved before the Edit that justifies it", m_early_remove),
             ("a Rotate event dropped", m_drop_rotate),
             ("the sequence number of a Dump falsified", m_dump_seq),
             ("NumFilesAtLevel output falsified in a Dump", m_dump_descr),
             ("the sequence of a Snapshot event falsified", m_snapshot_seq)]


def c_flip_get(ls):
    i = first(ls, lambda e: e["e"] == "Ret" and e.get("res", 0) > 0)
    if i is None:
        return None
    ls[i]["res"] += 700
    return ls


def c_drop_commit(ls):
    i = first(ls, lambda e: e["e"] == "Commit")
    if i is None:
        return None
    del ls[i]
    return ls


def c_snapshot_mid(ls):
    i = first(ls, lambda e: e["e"] == "Snapshot" and e.get("seq", 0) > 2)
    if i is None:
        return None
    ls[i]["seq"] -= 1
    return ls


def c_ack_changed(ls):
    i = first(ls, lambda e: e["e"] == "Ret" and e.get("ok") is True and e.get("res", 0) == 0
              and not e.get("fwd"))
    if i is None:
        return None
    ls[i]["ok"] = False
    return ls


CONC_MUTS = [("a get result falsified", c_flip_get), ("a Commit event dropped", c_drop_commit),
             ("a snapshot sequence moved inside a group", c_snapshot_mid),
             ("an acknowledgement turned into an error", c_ack_changed)]


def l_len(ls):
    i = first(ls, lambda e: e["e"] == "Read" and e.get("recs"))
    if i is None:
        return None
    ls[i]["recs"][0]["len"] += 1
    return ls


def l_drop_rec(ls):
    i = first(ls, lambda e: e["e"] == "Read" and len(e.get("recs", [])) >= 2)
    if i is None:
        return None
    del ls[i]["recs"][0]
    return ls


def l_woff(ls):
    i = first(ls, lambda e: e["e"] == "Append" and e.get("ok"))
    if i is None:
        return None
    ls[i]["woff_after"] = (ls[i]["woff_after"] + 1) % 32768
    return ls


LOG_MUTS = [("length of a record read back falsified", l_len), ("a record dropped from a Read", l_drop_rec),
            ("writer block offset after an append falsified", l_woff)]


def t_iter(ls):
    i = first(ls, lambda e: e["e"] == "IterFwd" and len(e.get("res", [])) >= 2)
    if i is None:
        return None
    del ls[i]["res"][1]
    return ls


def t_get(ls):
    i = first(ls, lambda e: e["e"] == "Gets" and any(g["kind"] == "notinfile" for g in e["list"]))
    if i is None:
        return None
    g = next(g for g in ls[i]["list"] if g["kind"] == "notinfile")
    g["kind"] = "deleted"
    return ls


TABLE_MUTS = [("an entry dropped from a forward iteration", t_iter),
              ("'not in this file' turned into 'deleted'", t_get)]


def k_open(ls):
    # a failed intruder open turned into a success
    i = first(ls, lambda e: e["e"] == "Ret" and e.get("op") == "open" and e.get("ok") is False
              and e.get("lockerr"))
    if i is None:
        return None
    ls[i]["ok"] = True
    ls[i]["lockerr"] = False
    return ls


LOCK_MUTS = [("a refused open turned into a success", k_open)]

FAMILIES = [
    ("RainCore_Trace", "hist", ["--nops", "60", "--per-file", "1", "--compact-bias", "--max-snaps", "3",
                                 "--snap-bias", "1"], 4, CORE_MUTS),
    ("RainConc_Trace", "sched", ["--all", "--match", "queue_and_readers"], 1, CONC_MUTS),
    ("RainLog_Trace", "logfmt", ["--mode", "random", "--scen", "10"], 1, LOG_MUTS),
    ("RainTable_Trace", "tablefmt", ["--tables", "3"], 1, TABLE_MUTS),
    ("RainLock_Trace", "lockfmt", ["--rounds", "10", "--scripts", "2", "--gates", "1", "--per-file", "1"], 1,
     LOCK_MUTS),
]


def main():
    C.build_harness()
    out = f"{C.OUT}/selftest"
    shutil.rmtree(out, ignore_errors=True)
    os.makedirs(out)
    bad = 0
    report = []
    for spec_name, driver, args, runs, muts in FAMILIES:
        spec = C.TRACE_SPEC_OF[driver]
        C.run_driver_parallel(driver, f"{out}/{driver}", 777, runs, 1, args)
        files = sorted(glob.glob(f"{out}/{driver}/p*/part*/trace_*.ndjson"))
        base_ok = False
        for name, mut in muts:
            done = False
            for f in files:
                lines = load(f)
                m = mut(copy.deepcopy(lines))
                if m is None:
                    continue
                if not base_ok:
                    recs, rej = validate(f, spec)
                    if recs or rej:
                        print(f"!! the unmodified trace {f} is not clean: {recs[:2]} {rej[:1]}")
                        return 2
                    base_ok = True
                mf = f"{out}/{driver}_mut.ndjson"
                save(mf, m)
                recs, rej = validate(mf, spec)
                what = ("rejected line" if rej else "") + " ".join(sorted({r["check"] for r in recs}))[:90]
                ok = bool(recs or rej)
                report.append({"spec": spec_name, "mutation": name, "noticed": ok, "how": what})
                print(f"{'noticed ' if ok else 'MISSED  '} {spec_name:16} {name:60} {what}")
                if not ok:
                    bad += 1
                done = True
                break
            if not done:
                print(f"skipped   {spec_name:16} {name:60} (no suitable event in the recorded traces)")
    json.dump(report, open(f"{out}/report.json", "w"), indent=1)
    print(f"{len(report)} mutations, {bad} missed")
    return 1 if bad else 0


if __name__ == "__main__":
    sys.exit(main())
