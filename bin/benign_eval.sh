#!/bin/bash
# usage: benign_eval.sh <name> <patch.diff> <prop> [<prop> ...] : quick checks (seed 0) against a
# property-PRESERVING change; any exit code other than 0 is an alarm to look into.
NAME=$1; PATCH=$2; shift 2
/verif/bin/try_mutant.sh $NAME $PATCH 0 "$@" > /verif/out/benign_$NAME.txt 2>&1
