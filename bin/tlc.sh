#!/bin/bash
# usage: tlc.sh <timeout_s> <metadir-name> <tlc args...>
# Runs TLC with a private metadir and tmpdir under /verif/out (nothing under /tmp).
T=$1; shift
NAME=$1; shift
ROOT=${VERIF_ROOT:-/verif}/out/tlc
mkdir -p $ROOT/$NAME $ROOT/tmp-$NAME
JAR=/opt/veriftools/tla/tla2tools.jar
CM=/opt/veriftools/tla/CommunityModules-deps.jar
exec timeout $T java -XX:+UseParallelGC ${TLC_JAVA_OPTS:--Xmx4g} -Xss1g -Djava.io.tmpdir=$ROOT/tmp-$NAME \
  ${TLC_QUEUE:+-Dtlc2.tool.queue.IStateQueue=StateDeque} \
  -cp $JAR:$CM tlc2.TLC -metadir $ROOT/$NAME -cleanup -noGenerateSpecTE "$@"
