#!/usr/bin/env python3
"""Prompt for a wave-7 seeded-change sub-agent: property text + every earlier idea for that property
(to stay away from). usage: mut_prompt7.py <property> <suffix>   e.g. C01 h -> worktree /tmp/mut_C01h"""
import json, re, sys
p, suf = sys.argv[1], sys.argv[2]
wid = p + suf
props = {json.loads(l)["id"]: json.loads(l) for l in open("/verif/properties.jsonl")}
pr = props[p]
src = open("/verif/bin/collect_seeded.py").read()
i = src.index("NEEDS = {"); j = src.index("\n}\n", i)
ns = {}
exec(src[i:j + 3], ns)
earlier = [t for k, (pp, t) in ns["NEEDS"].items() if pp == p]
base = open("/verif/bin/mut_prompt.py").read()
# reuse the body of the first-wave prompt
body = base[base.index('print(f"""') + len('print(f"""'):base.rindex('""")')]
body = body.replace("{{", "{").replace("}}", "}").replace("{p}", wid)
proptext = open(f"/tmp/prop_{p}.txt").read()  # written by bin/prop_text.py
body = body.replace("{prop}", proptext)
avoid = "\n".join(f" - {t}" for t in earlier)
body += f"""

STAY AWAY from these ideas, which have been used already for this property (do something in a DIFFERENT function / mechanism; a variation of one of them is not acceptable):
{avoid}
Look for places nobody has looked at yet: option combinations (create_if_missing / error_if_exists / reuse_log_files / sizes changed between reopens), rarely taken branches (empty batches, empty keys/values, deletes of absent keys, compact_range with None bounds, snapshots released out of order, iterators that outlive several versions), boundaries between modules (what one function assumes about another's result), error/cleanup paths, counters and limits that only matter after many operations."""
print(body)
