#!/usr/bin/env python3
"""Runner of the raindb model-based verification machinery.

usage: check.py <PROPERTY> <quick|thorough>
       check.py replay <replay.json>

Per property: (1) rebuild the harness against /repo's working tree with --cfg raindb_verif,
(2) model-check the TLA+ design specification for small constants with TLC, (3) drive the real
code and record traces, (4) validate the traces against the trace specification with TLC,
(5) classify what the trace specification reported, (6) write evidence.

exit 0: property held on everything explored (known findings are listed, not failures)
exit 1: VIOLATION property=<id> replay=<path>
exit 2: tool error (build, TLC, design model, binding self-check, timeout)
"""
import concurrent.futures as cf
import glob
import json
import os
import re
import shutil
import subprocess
import sys
import time

ROOT = os.environ.get("VERIF_ROOT", "/verif")
SPEC = ROOT + "/spec"
OUT = ROOT + "/out"
HARNESS = ROOT + "/harness"
BIN = HARNESS + "/target/release/rainverif"
NCPU = os.cpu_count() or 8


class ToolError(Exception):
    pass


def log(*a):
    print(*a, flush=True)


def sh(cmd, cwd=None, timeout=None, env=None):
    e = dict(os.environ)
    e.update({"CARGO_NET_OFFLINE": "true"})
    if env:
        e.update(env)
    return subprocess.run(cmd, cwd=cwd, timeout=timeout, env=e, stdout=subprocess.PIPE,
                          stderr=subprocess.STDOUT, text=True, shell=isinstance(cmd, str))


def build_harness():
    t0 = time.time()
    r = sh(["cargo", "build", "--release", "--offline"], cwd=HARNESS, timeout=1800)
    if r.returncode != 0:
        log(r.stdout[-4000:])
        raise ToolError("harness build failed (raindb with --cfg raindb_verif does not compile?)")
    return time.time() - t0


# ----------------------------------------------------------------------------------------------
# TLC
# ----------------------------------------------------------------------------------------------

def tlc(name, module, cfg, workers=8, timeout=600, env=None, extra=None, heap="6g", queue=False):
    e = {"TLC_JAVA_OPTS": "-Xmx" + heap}
    if queue:
        e["TLC_QUEUE"] = "1"
    if env:
        e.update(env)
    cmd = [ROOT + "/bin/tlc.sh", str(timeout), name, "-workers", str(workers), "-config", cfg]
    if extra:
        cmd += extra
    cmd.append(module)
    t0 = time.time()
    r = sh(cmd, cwd=SPEC, env=e, timeout=timeout + 60)
    shutil.rmtree(f"{OUT}/tlc/{name}", ignore_errors=True)
    shutil.rmtree(f"{OUT}/tlc/tmp-{name}", ignore_errors=True)
    return r.returncode, r.stdout, time.time() - t0


def parse_tlc_stats(out):
    m = re.search(r"(\d[\d,]*) states generated, (\d[\d,]*) distinct states found", out)
    if not m:
        return 0, 0
    return int(m.group(1).replace(",", "")), int(m.group(2).replace(",", ""))


def design_check(name, module, cfg, workers=8, timeout=900, heap="8g", coverage=False):
    """Exhaustive TLC run of a design configuration. Any error is a tool error."""
    extra = ["-coverage", "1"] if coverage else None
    rc, out, wall = tlc(name, module, cfg, workers=workers, timeout=timeout, heap=heap, extra=extra)
    gen, dist = parse_tlc_stats(out)
    ok = "Model checking completed. No error has been found." in out
    if not ok:
        tail = "\n".join(out.splitlines()[-40:])
        log(tail)
        if rc == 124:
            raise ToolError(f"design model {cfg} timed out after {timeout}s")
        raise ToolError(f"design model {cfg} did not pass (this is a defect of the specification, "
                        f"not a property violation of raindb)")
    depth = re.search(r"depth of the complete state graph search is (\d+)", out)
    return {"cfg": cfg, "module": module, "generated": gen, "distinct": dist,
            "depth": int(depth.group(1)) if depth else 0, "wall_s": round(wall, 1)}


def apalache_inductive(spec, timeout=3000):
    """Unbounded safety of a small model: Apalache checks that IndInv is inductive
    (Init => IndInv; IndInit /\ Next => IndInv', IndInit = an arbitrary IndInv state) and that
    IndInv implies Safety. Any failure is a defect of the specification (tool error)."""
    out_dir = f"{OUT}/apalache-{spec}"
    res = []
    for label, args in (("initiation", ["--init=Init", "--inv=IndInv", "--length=0"]),
                        ("consecution", ["--init=IndInit", "--inv=IndInv", "--length=1"]),
                        ("implies-safety", ["--init=IndInit", "--inv=Safety", "--length=0"])):
        t0 = time.time()
        tmpd = f"{OUT}/tmp-apalache-{spec}"
        os.makedirs(tmpd, exist_ok=True)
        r = sh(["apalache-mc", "check", "--cinit=ConstInit", f"--out-dir={out_dir}"] + args + [spec],
               cwd=f"{SPEC}/apalache", timeout=timeout,
               env={"JAVA_TOOL_OPTIONS": f"-Djava.io.tmpdir={tmpd}"})
        shutil.rmtree(tmpd, ignore_errors=True)
        ok = "The outcome is: NoError" in r.stdout
        if not ok:
            log("\n".join(r.stdout.splitlines()[-25:]))
            raise ToolError(f"Apalache: {label} of IndInv failed for {spec} (defect of the specification)")
        res.append({"step": label, "wall_s": round(time.time() - t0, 1)})
    shutil.rmtree(out_dir, ignore_errors=True)
    return {"spec": spec, "steps": res}


def bug_switch_check(name, module, cfg, switch, expect, timeout=300):
    """Anti-vacuity: with a named deviation switched on TLC must find a counterexample."""
    path = f"{SPEC}/{cfg}"
    txt = open(path).read()
    old, new = "FALSE", "TRUE"
    if switch.endswith("=FALSE"):
        switch = switch[:-6]
        old, new = "TRUE", "FALSE"
    assert f"{switch} = {old}" in txt, switch
    tmp = f"{OUT}/tlc/{name}.cfg"
    os.makedirs(os.path.dirname(tmp), exist_ok=True)
    open(tmp, "w").write(txt.replace(f"{switch} = {old}", f"{switch} = {new}"))
    rc, out, wall = tlc(name, module, tmp, workers=8, timeout=timeout)
    m = re.search(r"(Invariant (\w+) is violated|Action property (\w+) is violated|"
                  r"Action property line \d+, col \d+ to line \d+, col \d+ of module \w+ is violated|"
                  r"Temporal propert(?:y|ies)[^\n]*(?:was|were) violated|"
                  r"Deadlock reached)", out)
    found = m.group(0) if m else None
    gen, dist = parse_tlc_stats(out)
    if not found and rc == 124:
        # the machine is too busy for this anti-vacuity run: recorded as undecided, not an error
        # (the design model itself was checked in full above)
        log(f"note: bug switch {switch} in {cfg}: TLC did not finish within {timeout}s (undecided)")
        return {"switch": switch, "found": f"undecided: no counterexample within {timeout}s",
                "generated": gen, "wall_s": round(wall, 1)}
    if not found:
        raise ToolError(f"bug switch {switch} produced no counterexample in {cfg}: the invariants "
                        f"are too weak or the switch is dead")
    if expect and expect not in found:
        log(f"note: {switch} violated '{found}', expected {expect}")
    return {"switch": switch, "found": found, "generated": gen, "wall_s": round(wall, 1)}


# ----------------------------------------------------------------------------------------------
# driving the real code
# ----------------------------------------------------------------------------------------------

def run_driver_parallel(driver, outdir, seed0, runs, nproc, args, deadline=600):
    """Run `runs` seeds split over nproc harness processes. Returns list of run records."""
    shutil.rmtree(outdir, ignore_errors=True)
    os.makedirs(outdir, exist_ok=True)
    per = (runs + nproc - 1) // nproc
    jobs = []
    s = seed0
    i = 0
    while s < seed0 + runs:
        n = min(per, seed0 + runs - s)
        jobs.append((i, s, n))
        s += n
        i += 1

    def one(job):
        i, s, n = job
        d = f"{outdir}/p{i}"
        records = []
        cur, left = s, n
        guard = 0
        while left > 0 and guard < 5:
            guard += 1
            sub = f"{d}/part{guard}"
            cmd = [BIN, driver, "--seed", str(cur), "--runs", str(left), "--out", sub] + args
            r = sh(cmd, timeout=deadline)
            res_path = sub + "/results.json"
            if not os.path.exists(res_path):
                raise ToolError(f"driver produced no results: {' '.join(cmd)}\n{r.stdout[-2000:]}")
            res = json.load(open(res_path))
            records += res["runs"]
            if res.get("aborted") and driver in ("sched", "live", "fault"):
                left = 0
            elif res.get("aborted"):
                # a hang: the process dumped what it had and exited; continue after that seed
                done = len(res["runs"])
                cur += done
                left -= done
            else:
                left = 0
            if r.returncode not in (0, 3):
                raise ToolError(f"driver crashed rc={r.returncode}: {' '.join(cmd)}\n{r.stdout[-2000:]}")
        return records

    records = []
    with cf.ThreadPoolExecutor(max_workers=nproc) as ex:
        for rs in ex.map(one, jobs):
            records += rs
    return records


def run_tlc_replay(outdir, seed0, nbeh, nproc, deadline=1800, genspec="RainConc_Gen"):
    """spec -> impl: TLC (simulation mode) generates complete behaviours of RainConc
    (spec/RainConc_Gen.tla); the `sched` driver replays each against the real code."""
    shutil.rmtree(outdir, ignore_errors=True)
    os.makedirs(outdir, exist_ok=True)
    rc, out, wall = tlc(f"gen-{seed0}", genspec + ".tla", genspec + ".cfg", workers=1, timeout=600,
                        extra=["-simulate", f"num={nbeh}", "-depth", "400", "-seed", str(seed0)], heap="2g")
    scheds = []
    for line in out.splitlines():
        m = re.match(r'<<"@@SCHED", "(.*)">>$', line)
        if m:
            js = m.group(1).encode().decode("unicode_escape")
            if js not in scheds:
                scheds.append(js)
    if not scheds:
        raise ToolError(f"TLC generated no behaviours of {genspec}:\n" + "\n".join(out.splitlines()[-20:]))
    nproc = max(1, min(nproc, len(scheds)))
    jobs = []
    for i in range(nproc):
        part = scheds[i::nproc]
        f = f"{outdir}/schedules_{i}.ndjson"
        open(f, "w").write("\n".join(part) + "\n")
        jobs.append((i, f))

    def one(job):
        i, f = job
        sub = f"{outdir}/p{i}/part1"
        cmd = [BIN, "sched", "--seed", str(seed0 + i), "--schedules", f, "--out", sub]
        r = sh(cmd, timeout=deadline)
        res_path = sub + "/results.json"
        if not os.path.exists(res_path):
            raise ToolError(f"driver produced no results: {' '.join(cmd)}\n{r.stdout[-2000:]}")
        if r.returncode not in (0, 3):
            raise ToolError(f"driver crashed rc={r.returncode}: {' '.join(cmd)}\n{r.stdout[-2000:]}")
        return json.load(open(res_path))["runs"]

    records = []
    with cf.ThreadPoolExecutor(max_workers=nproc) as ex:
        for rs in ex.map(one, jobs):
            records += rs
    return records, len(scheds)


CLIENT_STEPS = ("w", "rot", "cp", "tm", "sn", "rs", "pn", "pd")
GEN_KEYS = [[[97], [98], [99]], [[], [0], [255, 255]], [[107, 49], [107, 49, 0], [107, 50]]]
GEN_OPTS = [dict(memtable=100000, file=2000, block=64), dict(memtable=300, file=300, block=16),
            dict(memtable=100000, file=300, block=4096)]


def core_history(trail, idx, seed):
    """A behaviour of RainCore (list of [a, x, y, z] records) as a replay file of the hist driver."""
    ops, vid, pins = [], 0, []
    for r in trail:
        a, x, y, z = r["a"], r["x"], r["y"], r["z"]
        if a == "w":
            if y == 1:
                vid += 1
                ops.append({"Put": {"k": x, "v": {"vid": vid, "len": 20 + (vid * 7) % 40, "comp": vid % 2 == 0}}})
            else:
                ops.append({"Del": {"k": x}})
        elif a == "rot":
            ops.append("Flush")
        elif a in ("cp", "tm"):
            ops.append({"Compact": {"lo": y, "hi": z}})
        elif a == "sn":
            ops.append("Snap")
        elif a == "rs":
            ops.append({"Release": {"idx": x - 1}})
        elif a == "pn":
            pins.append(x)
            ops.append({"IterNew": {"snap": None}})
        elif a == "pd":
            if x in pins:
                ops.append({"IterDrop": {"idx": pins.index(x)}})
                pins.remove(x)
    o = dict(GEN_OPTS[idx % len(GEN_OPTS)])
    o["reuse"] = idx % 2 == 0
    cfg = {"seed": seed, "nkeys": 3, "nops": len(ops), "opts": o, "profile": "mixed",
           "adversarial_keys": True, "big_values": False, "max_snaps": 2, "max_iters": 2}
    return {"driver": "hist", "cfg": cfg, "keys": GEN_KEYS[(idx // 3) % len(GEN_KEYS)], "ops": ops}


def run_core_replay(outdir, seed0, nbeh, nproc, simulate, deadline=1800):
    """spec -> impl for the core model: behaviours of RainCore generated by TLC
    (spec/RainCore_Gen.tla) - exhaustively, one per distinct state of the small model, sampled
    down to nbeh client-level histories, or random ones in simulation mode - replayed by the
    `hist` driver with a full observation after every call."""
    import random
    shutil.rmtree(outdir, ignore_errors=True)
    os.makedirs(outdir, exist_ok=True)
    if simulate:
        rc, out, wall = tlc(f"gencore-{seed0}", "RainCore_Gen.tla", "MC_RainCore_gensim.cfg", workers=1,
                            timeout=900, heap="3g",
                            extra=["-simulate", f"num={nbeh}", "-depth", "31", "-seed", str(seed0)])
    else:
        rc, out, wall = tlc(f"gencore-{seed0}", "RainCore_Gen.tla", "MC_RainCore_gen.cfg",
                            workers=min(8, NCPU), timeout=900, heap="6g")
    hists = set()
    for line in out.splitlines():
        m = re.match(r'<<"@@BEH", "(.*)">>$', line)
        if m:
            tr = json.loads(m.group(1).encode().decode("unicode_escape"))
            hists.add(tuple((r["a"], r["x"], r["y"], r["z"]) for r in tr if r["a"] in CLIENT_STEPS))
    hists.discard(())
    if not hists:
        raise ToolError("TLC generated no behaviours of RainCore_Gen:\n" + "\n".join(out.splitlines()[-20:]))
    total = len(hists)
    # a history that is a prefix of another one is covered by it (observation after every call)
    ordered = sorted(hists)
    maximal = [h for i, h in enumerate(ordered)
               if not (i + 1 < len(ordered) and ordered[i + 1][:len(h)] == h)]
    rnd = random.Random(seed0)
    if len(maximal) > nbeh:
        maximal = rnd.sample(maximal, nbeh)
    nproc = max(1, min(nproc, len(maximal)))
    jobs = []
    for i in range(nproc):
        f = f"{outdir}/histories_{i}.ndjson"
        with open(f, "w") as fh:
            for j, h in enumerate(maximal[i::nproc]):
                idx = i + j * nproc
                trail = [dict(a=a, x=x, y=y, z=z) for (a, x, y, z) in h]
                fh.write(json.dumps(core_history(trail, idx, seed0 * 1000 + idx)) + "\n")
        jobs.append((i, f))

    def one(job):
        i, f = job
        sub = f"{outdir}/p{i}/part1"
        cmd = [BIN, "hist", "--replay-list", f, "--per-file", "40", "--out", sub]
        r = sh(cmd, timeout=deadline)
        res_path = sub + "/results.json"
        if not os.path.exists(res_path):
            raise ToolError(f"driver produced no results: {' '.join(cmd)}\n{r.stdout[-2000:]}")
        if r.returncode not in (0, 3):
            raise ToolError(f"driver crashed rc={r.returncode}: {' '.join(cmd)}\n{r.stdout[-2000:]}")
        return json.load(open(res_path))["runs"]

    records = []
    with cf.ThreadPoolExecutor(max_workers=nproc) as ex:
        for rs in ex.map(one, jobs):
            records += rs
    return records, total, len(maximal)


def run_iter_replay(outdir, seed0, nproc, cfgs, deadline=1800):
    """spec -> impl for the iterator model: behaviours of RainIter (spec/RainIter_Gen.tla; layout,
    snapshot, cursor operations, expected position after each) generated by TLC - exhaustively, one
    per distinct state of the iterator stack, or by simulation over a larger universe - are stepped
    through the real MergingIterator / DatabaseIterator over real children by the `iterfmt` driver.
    cfgs: list of (cfg file, extra TLC args)."""
    shutil.rmtree(outdir, ignore_errors=True)
    os.makedirs(outdir, exist_ok=True)
    behs = []
    for gi, (cfg, extra) in enumerate(cfgs):
        rc, out, wall = tlc(f"geniter-{seed0}-{gi}", "RainIter_Gen.tla", cfg,
                            workers=1 if extra else min(8, NCPU), timeout=900, heap="4g", extra=extra)
        n0 = len(behs)
        for line in out.splitlines():
            m = re.match(r'<<"@@ITER", "(.*)">>$', line)
            if m:
                behs.append(m.group(1).encode().decode("unicode_escape"))
        if len(behs) == n0 or "Error:" in out:
            raise ToolError(f"TLC generated no behaviours of RainIter_Gen ({cfg}):\n" + "\n".join(out.splitlines()[-20:]))
    # keep the behaviours of one layout together (the driver builds each layout once)
    behs.sort(key=lambda b: b[:b.index('"trail"')])
    nproc = max(1, min(nproc, len(behs) // 200 + 1))
    per = (len(behs) + nproc - 1) // nproc
    jobs = []
    for i in range(nproc):
        part = behs[i * per:(i + 1) * per]
        if not part:
            continue
        fpath = f"{outdir}/behaviours_{i}.ndjson"
        open(fpath, "w").write("\n".join(part) + "\n")
        jobs.append((i, fpath))

    def one(job):
        i, fpath = job
        sub = f"{outdir}/p{i}/part1"
        cmd = [BIN, "iterfmt", "--behaviours", fpath, "--seed", str(seed0 + i), "--variants", "3", "--out", sub]
        r = sh(cmd, timeout=deadline)
        res_path = sub + "/results.json"
        if not os.path.exists(res_path):
            raise ToolError(f"driver produced no results: {' '.join(cmd)}\n{r.stdout[-2000:]}")
        if r.returncode != 0:
            raise ToolError(f"driver crashed rc={r.returncode}: {' '.join(cmd)}\n{r.stdout[-2000:]}")
        return json.load(open(res_path))["runs"]

    records = []
    with cf.ThreadPoolExecutor(max_workers=len(jobs)) as ex:
        for rs in ex.map(one, jobs):
            records += rs
    return records, len(behs)


def validate_traces(files, module, cfg, nproc, tag, timeout=900):
    """Validate trace files against a trace specification. Returns (runs, rejects)."""

    def one(args):
        idx, f = args
        name = f"tv-{tag}-{idx}"
        rc, out, wall = tlc(name, module, cfg, workers=1, timeout=timeout, env={"TRACE": f},
                            heap="3g", queue=True)
        runs = []
        for line in out.splitlines():
            if line.startswith('<<"@@RUN"'):
                m = re.match(r'<<"@@RUN", "(.*)">>$', line)
                js = m.group(1).encode().decode("unicode_escape")
                rec = json.loads(js)
                rec["trace"] = f
                runs.append(rec)
        ended = '<<"@@END"' in out
        reject = None
        if not ended:
            m = re.search(r'@@REJECT", "(.*)">>', out)
            detail = m.group(1).encode().decode("unicode_escape") if m else "\n".join(out.splitlines()[-25:])
            reject = {"trace": f, "detail": detail[:3000], "rc": rc}
        gen, dist = parse_tlc_stats(out)
        return runs, reject, dist, wall

    allruns, rejects, states = [], [], 0
    with cf.ThreadPoolExecutor(max_workers=nproc) as ex:
        for runs, rej, dist, wall in ex.map(one, list(enumerate(files))):
            allruns += runs
            states += dist
            if rej:
                rejects.append(rej)
    return allruns, rejects, states


# ----------------------------------------------------------------------------------------------
# verdicts
# ----------------------------------------------------------------------------------------------

def load_known():
    p = ROOT + "/known_findings.json"
    if not os.path.exists(p):
        return {"findings": [], "fixed": []}
    return json.load(open(p))


def match_known(prop, v, known):
    for k in known.get("findings", []):
        if k["property"] != prop:
            continue
        m = dict(k.get("match", {}))
        names = m.pop("check_in", None)
        if names is not None and v.get("check") not in names:
            continue
        if all(v.get(key) == val for key, val in m.items()):
            return k
    return None


def write_evidence(prop, tier, seed, level, coverage, wall, violations, assumptions):
    os.makedirs(ROOT + "/evidence", exist_ok=True)
    ev = {"property_id": prop, "tier": tier, "seed": seed, "level": level, "coverage": coverage,
          "assumptions": assumptions, "wall_s": round(wall, 1), "violations": violations}
    json.dump(ev, open(f"{ROOT}/evidence/{prop}.json", "w"), indent=1)


# ----------------------------------------------------------------------------------------------
# hist-based properties (C01 C03 C07 C10 C11 C04 part)
# ----------------------------------------------------------------------------------------------

CORE = "MC_RainCore.tla"
DUR = "MC_RainDur.tla"
CONC = "MC_RainConc.tla"
# RainConc with one failing WAL append (results, sticky error, arbitrary group prefixes); one reader
CONCF = ("MC_RainConcF.tla", ["MC_RainConc_fault.cfg"], ["MC_RainConc_fault.cfg"])
CONC_TRACE = ("RainConc_Trace.tla", "RainConc_Trace.cfg")
Q1 = "MC_RainCore_q1.cfg"
REO = "MC_RainCoreReopen.tla"
REOQ = "MC_RainCoreReopen_q.cfg"
REOPEN = (REO, [REOQ], ["MC_RainCoreReopen_small.cfg", "MC_RainCoreReopen.cfg"])

PROPS = {
    "C01": dict(
        design=[(CORE, [Q1], ["MC_RainCore_small.cfg", "MC_RainCore_pins.cfg"]), REOPEN],
        switches=[("Bug_RangeMin", CORE, "MC_RainCore_range.cfg", None),
                  ("Bug_FlushLevelUnsafe", CORE, Q1, "ReadCorrect"),
                  ("Bug_SeqFromManifestOnly", REO, REOQ, "RSeqSane"),
                  ("Bug_CloseInstallsPartial", REO, REOQ, "RReadCorrect")],
        work=[dict(driver="hist", args=["--nops", "60", "--per-file", "6"], quick=48, thorough=1200),
              # narrow, staircase-like overlapping level-0 files (key locality + frequent flushes)
              dict(driver="hist", args=["--nops", "80", "--per-file", "6", "--profile", "local",
                                        "--nkeys", "12", "--compact-bias", "1"],
                   quick=32, thorough=800),
              # block cache and table cache of 2..8 entries: every read evicts and re-opens /
              # re-reads (RainCache EvictTable / EvictBlock are taken by the real code)
              dict(driver="hist", args=["--nops", "70", "--per-file", "6", "--small-caches",
                                        "--compact-bias", "1"], quick=24, thorough=600),
              # spec -> impl: one behaviour per distinct state of the small core model (TLC,
              # exhaustive), sampled; every call followed by a full observation
              dict(driver="hist", gen="core", args=[], quick=400, thorough=20000),
              dict(driver="hist", args=["--nops", "45", "--per-file", "6", "--profile", "trivial",
                                        "--compact-bias", "1"], quick=12, thorough=300),
              # values of 2.2 .. 3.2 MiB (larger than the memtable, than a file, than any
              # internal size limit), frequent reopens: such a value is often still in the log
              dict(driver="hist", args=["--nops", "40", "--per-file", "4", "--giant-values",
                                        "--reopen-bias", "1"], quick=8, thorough=200),
              dict(driver="hist", args=["--nops", "40", "--per-file", "6", "--profile", "straddle",
                                        "--compact-bias", "1"], quick=6, thorough=150),
              # memtable limit 1: every write is rotated into a memtable, a log and a table of its own
              dict(driver="hist", args=["--nops", "25", "--per-file", "2", "--memtable", "1",
                                        "--reopen-bias", "1"], quick=4, thorough=60),
              # keys of 17 KB (longer than any block, than a log block, than small memtables)
              dict(driver="hist", args=["--nops", "30", "--per-file", "4", "--giant-keys",
                                        "--reopen-bias", "1"], quick=4, thorough=100)]),
    "C03": dict(
        design=[(CORE, [Q1], ["MC_RainCore_small.cfg", "MC_RainCore_pins.cfg"])],
        switches=[("Bug_DropAboveSnapshot", CORE, Q1, "ReadCorrect"),
                  ("Bug_DeletePinned", CORE, "MC_RainCore_pins.cfg", None)],
        work=[dict(driver="hist", args=["--nops", "60", "--per-file", "6", "--max-snaps", "4",
                                        "--max-iters", "3", "--snap-bias", "1"],
                   quick=48, thorough=1200),
              # a hot key with many versions kept by snapshots in ONE table (several blocks and
              # 2 KiB filter ranges): snapshot gets of versions that are not in the first block
              dict(driver="hist", args=["--nops", "90", "--per-file", "6", "--profile", "hot",
                                        "--nkeys", "4", "--memtable", "8000", "--block", "64",
                                        "--file", "40000", "--max-snaps", "6", "--snap-bias", "1"],
                   quick=24, thorough=600),
              # snapshots and iterators taken while a writer is suspended inside its commit
              dict(driver="sched", args=["--all"], quick=1, thorough=6, trace=CONC_TRACE,
                   final_rc3=True),
              # spec -> impl: random behaviours of the core model (3 keys, 2 snapshots, 8 writes)
              dict(driver="hist", gen="core", simulate=True, args=[], quick=200, thorough=4000)]),
    "C07": dict(
        design=[(CORE, [Q1, "MC_RainCore_gap.cfg"],
                 ["MC_RainCore_small.cfg", "MC_RainCore_pins.cfg", "MC_RainCore_gap.cfg",
                  "MC_RainCore_expandq.cfg"])],
        switches=[("Bug_NoBoundary", CORE, Q1, None), ("Bug_DropTombNoBase", CORE, Q1, None),
                  ("Bug_ExpandKeepsParents", CORE, "MC_RainCore_expand.cfg", None),
                  # (directed: 1 2 | 1 2 3 snapshot 3; several million states, thorough tier only)
                  ("Bug_ExpandNoBoundary", CORE, "MC_RainCore_expandb.cfg", None, "thorough"),
                  ("Bug_ImmDropEarly", CORE, Q1, None),
                  ("Bug_FlushDeepDuringCompaction", CORE, "MC_RainCore_gap.cfg", None)],
        work=[dict(driver="hist", args=["--nops", "70", "--per-file", "6", "--compact-bias", "1"],
                   quick=48, thorough=1200),
              dict(driver="hist", args=["--nops", "80", "--per-file", "6", "--profile", "local",
                                        "--nkeys", "12", "--compact-bias", "1", "--seek-bias", "1"],
                   quick=32, thorough=800),
              dict(driver="hist", gen="core", args=[], quick=400, thorough=20000),
              # a user key straddling two files of level 1 next to a file whose compaction is grown
              # by the input expansion (recipe in every run, then random operations)
              dict(driver="hist", args=["--nops", "40", "--per-file", "6", "--profile", "straddle",
                                        "--compact-bias", "1"], quick=8, thorough=200)]),
    "C10": dict(
        design=[(CORE, [Q1], ["MC_RainCore_small.cfg"]), REOPEN],
        switches=[("Bug_RangeMin", CORE, "MC_RainCore_range.cfg", None),
                  ("Bug_FlushDeepDuringCompaction", CORE, "MC_RainCore_gap.cfg", None),
                  ("Bug_SnapshotSwapsBounds", REO, REOQ, "RWellFormed"),
                  ("Bug_MoveRecordLosesDelete", REO, REOQ, "ManifestMatches")],
        work=[dict(driver="hist", args=["--nops", "60", "--per-file", "6", "--reopen-bias", "1"],
                   quick=48, thorough=1000),
              # (with second-generation probes: crash DURING the recovery of a crash image - also
              # right before every rename -, recovery with other sizes, and the shape reported
              # after the next reopen)
              dict(driver="crash", args=["--nops", "30", "--threads", "2", "--every", "3",
                                         "--gen2-every", "4", "--both-reuse"],
                   quick=4, thorough=60),
              # an automatic trivial move in every run (then reopens: the manifest replays it)
              dict(driver="hist", args=["--nops", "45", "--per-file", "6", "--profile", "trivial",
                                        "--reopen-bias", "1"], quick=16, thorough=400),
              # seek-triggered compactions (from gets and from iterator read sampling) and the
              # trivial moves they lead to
              dict(driver="hist", args=["--nops", "80", "--per-file", "6", "--profile", "local",
                                        "--nkeys", "12", "--compact-bias", "1", "--seek-bias", "1"],
                   quick=32, thorough=800)]),
    "C11": dict(
        design=[(CORE, [Q1], ["MC_RainCore_small.cfg", "MC_RainCore_pins.cfg"]), REOPEN,
                # the version list and who keeps a superseded version alive (readers, compactions);
                # _strict: the design in which a reader's release triggers a deletion pass
                # satisfies C11 as stated (the code does not: known finding KF-C11-deferred-reclaim)
                ("MC_RainVersions.tla", ["MC_RainVersions.cfg", "MC_RainVersions_strict.cfg"],
                 ["MC_RainVersions.cfg", "MC_RainVersions_strict.cfg", "MC_RainVersions_big.cfg"])],
        switches=[("Bug_LookBeforeLock", "MC_RainVersions.tla", "MC_RainVersions.cfg", "NoLeakedVersion"),
                  ("Bug_FailedReadNoRelease", "MC_RainVersions.tla", "MC_RainVersions.cfg", "RefsExact"),
                  ("Bug_CompactionNoRelease", "MC_RainVersions.tla", "MC_RainVersions.cfg", "RefsExact"),
                  ("Bug_PassIgnoresHolders", "MC_RainVersions.tla", "MC_RainVersions.cfg", "NothingHeldDeleted"),
                  ("Bug_OpenKeepsOldLogNumber", REO, REOQ, "NoDeadLogAfterPass"),
                  ("Bug_DeletePending", CORE, Q1, "NothingLiveDeleted"),
                  ("Bug_DeletePinned", CORE, "MC_RainCore_pins.cfg", "NothingLiveDeleted")],
        work=[dict(driver="hist", args=["--nops", "60", "--per-file", "6", "--max-iters", "3",
                                        "--compact-bias", "1"], quick=48, thorough=1000),
              dict(driver="crash", args=["--nops", "30", "--threads", "2", "--every", "2", "--torn"],
                   quick=4, thorough=60),
              # the worker sleeps now and then where it does not hold the mutex: memtable rotations
              # and deletion passes fall INTO running compactions
              dict(driver="hist", args=["--nops", "90", "--per-file", "6", "--profile", "fill",
                                        "--compact-bias", "1", "--jitter", "350", "--max-iters", "3"],
                   quick=32, thorough=800),
              # what crash recovery needs must also survive an I/O error (a failed switch of
              # CURRENT must not let the deletion pass remove the manifest CURRENT still names)
              dict(driver="fault", args=["--nops", "22", "--positions", "60"], quick=2, thorough=20),
              # read views given back on every path: gets suspended after their capture while
              # flushes and compactions install newer versions - one of them then FAILS (a
              # transient read fault); at the end exactly one version is linked and only its
              # tables are on disk (RainConc_Trace: VersionLeak / TablesNotExact)
              # ... and manual compactions interrupted by a memtable flush (early and LATE: after
              # an output was finished) whose deletion pass must spare the outputs under way
              dict(driver="sched", args=["--all", "--match", "flush_compact,manual@"], quick=1, thorough=6,
                   trace=CONC_TRACE, final_rc3=True)]),
    "C02": dict(
        design=[(DUR, ["MC_RainDur_small.cfg", "MC_RainDur_comp.cfg"],
                 ["MC_RainDur_small.cfg", "MC_RainDur_big.cfg", "MC_RainDur_comp.cfg"]), REOPEN,
                # file-number allocation: the counter is volatile, the manifest's copy lags behind
                # the files created since (rotated WAL, table under construction); no create()
                # may land on a file that is still needed, through every crash point of recovery
                ("MC_RainFileNum.tla", ["MC_RainFileNum_noreuse.cfg", "MC_RainFileNum_reuse.cfg"],
                 ["MC_RainFileNum_noreuse.cfg", "MC_RainFileNum_reuse.cfg",
                  "MC_RainFileNum_big.cfg", "MC_RainFileNum_bigreuse.cfg"])],
        switches=[("Bug_NoMarkWalUsed", "MC_RainFileNum.tla", "MC_RainFileNum_noreuse.cfg", "NoClobber"),
                  ("Bug_InstallPersistsStale", "MC_RainFileNum.tla", "MC_RainFileNum_noreuse.cfg", "PersistedCovers"),
                  ("Bug_GiveBackAlways", "MC_RainFileNum.tla", "MC_RainFileNum_reuse.cfg", "CounterCovers"),
                  ("Bug_InputsDeletedBeforeManifest", DUR, "MC_RainDur_comp.cfg", "Durable"),
                  ("Bug_ReplaySkipsOlderLogs", REO, REOQ, None),
                  ("Bug_CounterNotRestored", REO, REOQ, "NumbersFresh"),
                  ("Bug_AckBeforeWal", DUR, "MC_RainDur_small.cfg", "Durable"),
                  ("Bug_WalDeletedEarly", DUR, "MC_RainDur_small.cfg", None),
                  ("Bug_ManifestBeforeTable", DUR, "MC_RainDur_small.cfg", None),
                  ("Bug_CurrentInPlace", DUR, "MC_RainDur_small.cfg", None),
                  ("Bug_RecoverSkipsOlderWal", DUR, "MC_RainDur_small.cfg", "Durable"),
                  ("Bug_FileCounterNotRestored", DUR, "MC_RainDur_small.cfg", None)],
        work=[dict(driver="crash", args=["--nops", "40", "--threads", "2", "--both-reuse"],
                   quick=6, thorough=150),
              dict(driver="crash", args=["--nops", "25", "--threads", "2", "--early-reopen"],
                   quick=6, thorough=100),
              # (17 KB keys: crashes between the fragments of multi-block MANIFEST records)
              dict(driver="crash", args=["--nops", "12", "--threads", "2", "--giant-keys", "--both-reuse"],
                   quick=2, thorough=40),
              dict(driver="crash", args=["--nops", "25", "--threads", "2", "--large",
                                         "--gen2-every", "9"], quick=4, thorough=60),
              # group commits with a slow leader: followers' acknowledgements vs the leader's append
              dict(driver="crash", args=["--nops", "40", "--threads", "3", "--jitter", "400"],
                   quick=4, thorough=80),
              # the worker is slow exactly while it appends to the manifest (its mutex released):
              # rotations and writes fall into the installation of flushes and compactions
              # (no manual compactions: they block the only client; long fill workloads give
              # automatic compactions that overlap the client's writes)
              dict(driver="crash", args=["--nops", "140", "--threads", "3", "--profile", "fill",
                                         "--jitter", "900", "--jitter-point",
                                         "manifest_before_append", "--jitter-us", "3000"],
                   quick=4, thorough=80)]),
    "C08": dict(
        # (the big configuration, about an hour, is part of C02's thorough tier only)
        design=[(DUR, ["MC_RainDur_small.cfg"], ["MC_RainDur_small.cfg", "MC_RainDur_comp.cfg"]), CONCF],
        switches=[("Bug_WriteErrorSwallowed", DUR, "MC_RainDur_small.cfg", "Durable"),
                  ("Bug_ManifestErrorSwallowed", DUR, "MC_RainDur_small.cfg", None),
                  ("Bug_FollowersToldOk", CONCF[0], "MC_RainConc_fault.cfg", "OwnResult")],
        work=[dict(driver="fault", args=["--nops", "22", "--positions", "60"], quick=6, thorough=60,
                   one_per_proc=True),
              dict(driver="fault", args=["--nops", "14", "--positions", "40", "--large"], quick=2,
                   thorough=20, one_per_proc=True),
              # reopen followed at once by a write that spans log blocks
              dict(driver="fault", args=["--nops", "12", "--positions", "30", "--large",
                                         "--reopen-heavy"], quick=3, thorough=30, one_per_proc=True),
              # a failing WAL append of a GROUP commit (forced schedule: leader suspended with a
              # follower in its group, one-shot fault): everybody gets his own result
              dict(driver="sched", args=["--all"], quick=1, thorough=4, trace=CONC_TRACE,
                   final_rc3=True),
              # two-entry caches: every compaction input and every read has to open its table
              dict(driver="fault", args=["--nops", "24", "--positions", "60", "--small-caches"],
                   quick=3, thorough=30, one_per_proc=True),
              # read calls as faultable operations too (beyond the list in the quantifier)
              dict(driver="fault", args=["--nops", "18", "--positions", "60", "--read-faults"],
                   quick=3, thorough=30, one_per_proc=True)]),
    "C05": dict(
        design=[(CONC, ["MC_RainConc_small.cfg"], ["MC_RainConc_small.cfg", "MC_RainConc_big.cfg"]), CONCF,
                ("MC_RainCache.tla", ["MC_RainCache_small.cfg"], ["MC_RainCache_big.cfg"])],
        # thorough tier: unbounded number of opens / evictions / reads by an inductive invariant
        apalache=["APA_RainCache.tla"],
        switches=[("Bug_GetLoadsMemAfterUnlock", CONC, "MC_RainConc_small.cfg", "Linearizable"),
                  ("Bug_PublishEarly", CONC, "MC_RainConc_small.cfg", "Linearizable"),
                  ("Bug_FollowersToldOk", CONCF[0], "MC_RainConc_fault.cfg", "OwnResult"),
                  ("Bug_RejectedFollowerDone", CONCF[0], "MC_RainConc_fault.cfg", "OwnResult"),
                  ("Bug_NewIdNotAtomic", "MC_RainCache.tla", "MC_RainCache_small.cfg", "UniqueIds"),
                  ("Bug_KeyWithoutId", "MC_RainCache.tla", "MC_RainCache_small.cfg", "ReadsRightBlock")],
        trace=CONC_TRACE,
        work=[dict(driver="sched", args=["--all"], quick=2, thorough=12, final_rc3=True),
              # spec -> impl: behaviours of RainConc generated by TLC, replayed thread step by step
              dict(driver="sched", gen="tlc", args=[], quick=150, thorough=4000, final_rc3=True),
              # free-running: six writers, each reading back every key right after writing it
              # (read-your-write while other writers insert into the same memtable and the worker
              # flushes and compacts; 4 KiB memtable) - what exposed the skip-list race (defect 17)
              dict(driver="live", args=["--ops", "500", "--own-reads"], quick=6, thorough=96,
                   final_rc3=True)]),
    "C06": dict(
        design=[(CONC, ["MC_RainConc_small.cfg"], ["MC_RainConc_small.cfg"])],
        switches=[("Bug_PublishEarly", CONC, "MC_RainConc_small.cfg", None),
                  ("Bug_SnapshotUnlocked", CONC, "MC_RainConc_small.cfg", None)],
        trace=CONC_TRACE,
        work=[dict(driver="sched", args=["--all"], quick=2, thorough=12, final_rc3=True),
              dict(driver="sched", gen="tlc", args=[], quick=150, thorough=4000, final_rc3=True)]),
    "C09": dict(
        design=[(CONC, ["MC_RainConc_small.cfg"], ["MC_RainConc_small.cfg"]), CONCF,
                ("MC_RainManual.tla", ["MC_RainManual.cfg"], ["MC_RainManual.cfg", "MC_RainManual_big.cfg"]),
                ("MC_RainRoom.tla", ["MC_RainRoom.cfg"], ["MC_RainRoom.cfg", "MC_RainRoom_big.cfg"])],
        switches=[("Bug_NoNotify", CONC, "MC_RainConc_small.cfg", "AllWritersReturn"),
                  ("Bug_FailedRoomStaysQueued", CONCF[0], "MC_RainConc_fault.cfg", "AllWritersReturn"),
                  ("Bug_HoldRequestAcrossMerge", "MC_RainManual.tla", "MC_RainManual.cfg", "Deadlock"),
                  ("Bug_NotifyOne", "MC_RainManual.tla", "MC_RainManual.cfg", "NoLostWaiter"),
                  ("Bug_NoRescheduleAtEnd", "MC_RainManual.tla", "MC_RainManual.cfg", "NoLostWaiter"),
                  ("Bug_NoRescheduleForLevel0", "MC_RainRoom.tla", "MC_RainRoom.cfg", "WorkIsScheduled"),
                  ("Bug_FlushDoesNotWake", "MC_RainRoom.tla", "MC_RainRoom.cfg", "NoLostWaiter"),
                  ("Bug_RotateDoesNotSchedule", "MC_RainRoom.tla", "MC_RainRoom.cfg", "WorkIsScheduled"),
                  ("Bug_StopBelowTrigger", "MC_RainRoom.tla", "MC_RainRoom.cfg", "NoLostWaiter"),
                  ("Bug_EmptyMemtableFull", "MC_RainRoom.tla", "MC_RainRoom.cfg", None)],
        work=[dict(driver="live", args=["--ops", "150"], quick=16, thorough=400, trace=CONC_TRACE,
                   final_rc3=True),
              # slow worker: flushes pile level-0 files up during long compactions until writers
              # hit the slowdown and stop thresholds (RainRoom)
              dict(driver="live", args=["--ops", "300", "--jitter", "500"], quick=8, thorough=200,
                   trace=CONC_TRACE, final_rc3=True),
              dict(driver="sched", args=["--all"], quick=1, thorough=6, trace=CONC_TRACE,
                   final_rc3=True),
              # spec -> impl: behaviours of RainManual / RainConc generated by TLC and replayed
              dict(driver="sched", gen="tlc", genspec="RainManual_Gen", args=[], quick=100,
                   thorough=3000, trace=CONC_TRACE, final_rc3=True),
              dict(driver="sched", gen="tlc", genspec="RainConc_Gen", args=[], quick=60,
                   thorough=2000, trace=CONC_TRACE, final_rc3=True),
              dict(driver="hist", args=["--nops", "70", "--per-file", "6", "--descriptors",
                                        "--compact-bias", "1", "--profile", "fill", "--small-caches"],
                   quick=24, thorough=600),
              # values of 2.2 .. 3.2 MiB: above every internal byte counter's period (log blocks,
              # the iterator's read sampling, file and memtable budgets)
              dict(driver="hist", args=["--nops", "60", "--per-file", "6", "--giant-values",
                                        "--max-iters", "2"],
                   quick=12, thorough=300),
              # the smallest memtable limit there is (below the footprint of an empty memtable:
              # every write gets a memtable, a log and a table of its own)
              dict(driver="hist", args=["--nops", "25", "--per-file", "2", "--memtable", "1",
                                        "--deadline", "60"], quick=4, thorough=60),
              # an I/O error is progress of the filesystem too: the worker must survive every
              # failed call (no assertion tripped on an error path) and every caller must return
              dict(driver="fault", args=["--nops", "24", "--positions", "60", "--small-caches"],
                   quick=2, thorough=20)]),
    "C04": dict(
        design=[("MC_RainIter.tla", ["MC_RainIter_small.cfg"], ["MC_RainIter_small.cfg", "MC_RainIter_big.cfg"])],
        switches=[("Bug_NoReseekOnDirectionChange", "MC_RainIter.tla", "MC_RainIter_small.cfg", "CursorOK"),
                  ("Bug_TombstoneNotRemembered", "MC_RainIter.tla", "MC_RainIter_small.cfg", "CursorOK"),
                  ("Bug_PrevIgnoresSnapshot", "MC_RainIter.tla", "MC_RainIter_small.cfg", "CursorOK"),
                  ("Bug_PrevStopsAtOldestVersion", "MC_RainIter.tla", "MC_RainIter_small.cfg", "CursorOK")],
        work=[dict(driver="hist", args=["--nops", "60", "--per-file", "6", "--walks", "--max-iters", "3",
                                        "--max-snaps", "3", "--snap-bias", "1"], quick=40, thorough=1000),
              dict(driver="hist", args=["--nops", "70", "--per-file", "6", "--walks", "--profile", "hot",
                                        "--compact-bias", "1"], quick=16, thorough=400),
              # cursors positioned inside blocks / tables that the tiny caches have evicted
              dict(driver="hist", args=["--nops", "60", "--per-file", "6", "--walks", "--small-caches",
                                        "--max-iters", "3"], quick=16, thorough=400),
              # spec -> impl: every distinct state of the iterator model (exhaustive) + random
              # behaviours over a larger universe, stepped through the real iterators
              dict(driver="iterfmt", gen="iter", args=[], quick=1, thorough=1,
                   cfgs_quick=[("MC_RainIter_gen.cfg", None),
                               ("MC_RainIter_gensim.cfg", ["-simulate", "num=800", "-depth", "40"])],
                   cfgs_thorough=[("MC_RainIter_gen.cfg", None), ("MC_RainIter_gen3.cfg", None),
                                  ("MC_RainIter_gensim.cfg", ["-simulate", "num=40000", "-depth", "40"])])]),
    "C12": dict(
        design=[("MC_RainLog.tla", ["MC_RainLog_small.cfg", "MC_RainLog_realq.cfg"],
                 ["MC_RainLog_small.cfg", "MC_RainLog_deep.cfg", "MC_RainLog_real.cfg"])],
        switches=[("Bug_TrailerThresholdOffByOne", "MC_RainLog.tla", "MC_RainLog_small.cfg", "WriterPosition"),
                  ("Bug_NoOffsetRestoreOnReopen", "MC_RainLog.tla", "MC_RainLog_small.cfg", "WriterPosition"),
                  ("Bug_ReaderSplicesFragments", "MC_RainLog.tla", "MC_RainLog_small.cfg", "PrefixSafe"),
                  ("Bug_ReaderStopsAfterPartial", "MC_RainLog.tla", "MC_RainLog_small.cfg", "PrefixSafe")],
        trace=("RainLog_Trace.tla", "RainLog_Trace.cfg"),
        # unbounded: the writer arithmetic over integers with the real constants, for EVERY record
        # length and every split across re-openings (inductive invariant, Apalache, ~20 s)
        apalache_quick=["APA_RainLogPos.tla"],
        work=[dict(driver="logfmt", args=["--mode", "boundary", "--parts", "9"], quick=18, thorough=162),
              dict(driver="logfmt", args=["--mode", "model", "--maxrecs", "2", "--parts", "8"], quick=18, thorough=144),
              dict(driver="logfmt", args=["--mode", "random", "--scen", "60"], quick=8, thorough=400),
              dict(driver="logfmt", args=["--mode", "enum", "--parts", "16"], quick=18, thorough=288)]),
    "C17": dict(
        design=[("MC_RainLock.tla", ["MC_RainLock_small.cfg"], ["MC_RainLock_small.cfg", "MC_RainLock_big.cfg"])],
        switches=[("Bug_LockAfterRecovery", "MC_RainLock.tla", "MC_RainLock_small.cfg", "OnlyOwnerWrites"),
                  ("Bug_ReleaseBeforeBgStops", "MC_RainLock.tla", "MC_RainLock_small.cfg", "OnlyOwnerWrites"),
                  ("Bug_DestroyIgnoresLock", "MC_RainLock.tla", "MC_RainLock_small.cfg", "OnlyOwnerWrites"),
                  ("Bug_OpenTruncatesOnFailure", "MC_RainLock.tla", "MC_RainLock_small.cfg", "OnlyOwnerWrites"),
                  ("Bug_UnlinkLockAfterRelease", "MC_RainLock.tla", "MC_RainLock_small.cfg", "OneOwner"),
                  ("Bug_DestroyWipesAfterRelease", "MC_RainLock.tla", "MC_RainLock_small.cfg", "OnlyOwnerWrites")],
        trace=("RainLock_Trace.tla", "RainLock_Trace.cfg"),
        work=[dict(driver="lockfmt", args=["--rounds", "40", "--scripts", "6", "--gates", "1",
                                           "--per-file", "2"], quick=8, thorough=0),
              dict(driver="lockfmt", args=["--rounds", "400", "--scripts", "40", "--gates", "3",
                                           "--per-file", "1"], quick=0, thorough=48)]),
    "C13": dict(
        design=[("MC_RainTable.tla", ["MC_RainTable_small.cfg"], ["MC_RainTable_big.cfg", "MC_RainTable_k3.cfg"])],
        switches=[("Bug_IndexMissMeansDeleted", "MC_RainTable.tla", "MC_RainTable_small.cfg", "GetCorrect"),
                  ("Bug_SeekNoBlockAdvance", "MC_RainTable.tla", "MC_RainTable_small.cfg", "SeekCorrect"),
                  ("Bug_PrevStopsAtBlockStart", "MC_RainTable.tla", "MC_RainTable_small.cfg", "IterationCorrect"),
                  ("Bug_GetSkipsKeyCheck", "MC_RainTable.tla", "MC_RainTable_small.cfg", "GetCorrect"),
                  ("Bug_SeparatorInsideKey", "MC_RainTable.tla", "MC_RainTable_small.cfg", "GetCorrect")],
        trace=("RainTable_Trace.tla", "RainTable_Trace.cfg"),
        work=[dict(driver="tablefmt", args=["--tables", "12", "--big", "1"], quick=8, thorough=272)]),
    "C14": dict(
        design=[("MC_RainFilter.tla", ["MC_RainFilter_small.cfg"], ["MC_RainFilter_small.cfg", "MC_RainFilter_big.cfg"])],
        switches=[("Bug_ReaderIndexOffByOne", "MC_RainFilter.tla", "MC_RainFilter_small.cfg", "NoFalseNegative"),
                  ("Bug_NoFlushAtFinish", "MC_RainFilter.tla", "MC_RainFilter_small.cfg", "NoFalseNegative"),
                  ("Bug_FilterAssignedToNextRange", "MC_RainFilter.tla", "MC_RainFilter_small.cfg", "NoFalseNegative")],
        trace=("RainTable_Trace.tla", "RainTable_Trace.cfg"),
        work=[dict(driver="filterfmt", args=["--random", "150", "--sets", "14", "--tables", "6", "--big", "1"],
                   quick=3, thorough=144)]),
    "C15": dict(
        design=[("MC_RainCorrupt.tla", ["MC_RainCorrupt.cfg"], ["MC_RainCorrupt.cfg"])],
        switches=[("Bug_NoBlockCrc", "MC_RainCorrupt.tla", "MC_RainCorrupt.cfg", "NoInvention"),
                  ("Bug_ManifestSkipsDamaged", "MC_RainCorrupt.tla", "MC_RainCorrupt.cfg", None),
                  ("Bug_SpliceFragments", "MC_RainCorrupt.tla", "MC_RainCorrupt.cfg", None),
                  ("Bug_OrphanNotNoticed", "MC_RainCorrupt.tla", "MC_RainCorrupt.cfg", "NoInvention"),
                  ("ExcludeTailHeader=FALSE", "MC_RainCorrupt.tla", "MC_RainCorrupt.cfg", None)],
        work=[dict(driver="corrupt", args=["--nops", "25", "--threads", "2", "--max-probes", "1500"],
                   quick=6, thorough=60)]),
    "C16": dict(
        design=[(DUR, ["MC_RainDur_small.cfg"], ["MC_RainDur_small.cfg", "MC_RainDur_comp.cfg"])],
        switches=[("Bug_ReuseAfterTornTail", DUR, "MC_RainDur_small.cfg", None)],
        work=[dict(driver="crash", args=["--nops", "30", "--threads", "2", "--torn", "--every", "4"],
                   quick=8, thorough=150),
              # keys of 17 KB: every manifest record (a version edit names a smallest and a largest
              # key) is larger than a 32 KiB log block and is written as several fragments - torn
              # continuation fragments of the MANIFEST
              dict(driver="crash", args=["--nops", "12", "--threads", "2", "--torn", "--giant-keys",
                                         "--every", "2"], quick=3, thorough=60),
              dict(driver="crash", args=["--nops", "20", "--threads", "2", "--torn", "--large",
                                         "--every", "4"], quick=4, thorough=40)]),
}

PROP_SEED_BASE = {"C01": 1000, "C03": 3000, "C07": 7000, "C10": 10000, "C11": 11000,
                  "C02": 2000, "C16": 16000, "C08": 8000, "C05": 5000, "C06": 6000, "C09": 9000, "C15": 15000, "C12": 12000, "C17": 17000, "C04": 4000, "C13": 13000, "C14": 14000}


def check_prop(prop, tier, seed):
    t0 = time.time()
    conf = PROPS[prop]
    build_s = build_harness()
    log(f"[{prop}] harness built in {build_s:.0f}s")

    # (M) design models
    design = []
    for module, qcfgs, tcfgs in conf["design"]:
        for cfg in (qcfgs if tier == "quick" else tcfgs):
            d = design_check(f"design-{prop}", module, cfg, workers=min(12, NCPU),
                             timeout=900 if tier == "quick" else 21600, heap="12g")
            design.append(d)
            log(f"[{prop}] design model {cfg}: {d['distinct']} distinct states, depth {d['depth']}, {d['wall_s']}s")
    switches = []
    for swt in conf["switches"]:
        sw, module, swcfg, expect = swt[:4]
        if len(swt) > 4 and swt[4] == "thorough" and tier != "thorough":
            continue
        r = bug_switch_check(f"bug-{prop}-{sw}", module, swcfg, sw, expect,
                             timeout=1800 if len(swt) > 4 else 600)
        switches.append(r)
        log(f"[{prop}] switch {sw}: {r['found']} ({r['wall_s']}s)")

    inductive = []
    if True:
        for spec in (conf.get("apalache", []) if tier == "thorough" else []) + conf.get("apalache_quick", []):
            r = apalache_inductive(spec)
            inductive.append(r)
            log(f"[{prop}] Apalache: IndInv of {spec} is inductive and implies Safety "
                f"({sum(x['wall_s'] for x in r['steps']):.0f}s)")

    # (B) drive the real code, validate traces
    nproc = min(12, NCPU)
    recs = []
    direct = []
    extra = {}
    if inductive:
        extra["apalache_inductive_invariants"] = inductive
    groups = {}
    for wi, w in enumerate(conf["work"]):
        runs = w[tier]
        if runs == 0:
            continue
        outdir = f"{OUT}/{prop}-{tier}-{wi}"
        seed0 = PROP_SEED_BASE[prop] + wi * 500 + seed * 100000
        if w.get("gen") == "core":
            r, ntotal, nrun = run_core_replay(outdir, seed0, runs, nproc, w.get("simulate", False),
                                              deadline=1800 if tier == "quick" else 14400)
            extra["core_behaviours_generated_by_tlc"] = extra.get("core_behaviours_generated_by_tlc", 0) + ntotal
            extra["core_behaviours_replayed"] = extra.get("core_behaviours_replayed", 0) + nrun
        elif w.get("gen") == "iter":
            r, nbeh = run_iter_replay(outdir, seed0, nproc, w["cfgs_" + tier])
            summ = [x for x in r if x.get("status") == "summary"]
            extra["iterator_behaviours_generated_by_tlc"] = nbeh
            extra["iterator_behaviours_replayed_on_real_iterators"] = sum(x["behaviours"] for x in summ)
            extra["iterator_steps_compared"] = sum(x["steps"] for x in summ)
            kinds = {}
            for x in summ:
                for kk, vv in x["child_kinds"].items():
                    kinds[kk] = kinds.get(kk, 0) + vv
            extra["iterator_child_kinds"] = kinds
            for x in r:
                if x.get("status") == "mismatch":
                    direct.append({"seed": x["seed"], "check": "IterReplayDiffers", "replay": x["replay"],
                                   "detail": {"diff": x["diff"], "variant": x["variant"], "keyset": x["keyset"],
                                              "block": x["block"]}})
            recs += [x for x in r if x.get("status") != "summary"]
            log(f"[{prop}] iterfmt: {nbeh} behaviours of RainIter generated by TLC, "
                f"{extra['iterator_behaviours_replayed_on_real_iterators']} replays, "
                f"{extra['iterator_steps_compared']} positions compared, {len(direct)} differences")
            continue
        elif w.get("gen") == "tlc":
            r, nsched = run_tlc_replay(outdir, seed0, runs, nproc,
                                       deadline=1800 if tier == "quick" else 14400,
                                       genspec=w.get("genspec", "RainConc_Gen"))
            extra["tlc_behaviours_replayed"] = extra.get("tlc_behaviours_replayed", 0) + nsched
        else:
            r = run_driver_parallel(w["driver"], outdir, seed0, runs, min(nproc, runs), w["args"],
                                    deadline=1800 if tier == "quick" else 14400)
        recs += r
        tr = w.get("trace") or conf.get("trace") or ("RainCore_Trace.tla", "RainCore_Trace.cfg")
        groups.setdefault(tr, [])
        groups[tr] += sorted(glob.glob(f"{outdir}/p*/part*/trace_*.ndjson"))
        log(f"[{prop}] {w['driver']}: {len(r)} runs executed")
        if w["driver"] == "fault":
            refs = [x for x in r if x.get("status") == "reference"]
            extra["fault_runs"] = extra.get("fault_runs", 0) + len(r) - len(refs)
            extra["fault_fired"] = extra.get("fault_fired", 0) + sum(1 for x in r if x.get("fired", 0) > 0)
            extra["faultable_calls_in_reference_runs"] = extra.get("faultable_calls_in_reference_runs", 0) + sum(x["total_ops"] for x in refs)
            extra["fault_classes"] = sorted(set(extra.get("fault_classes", [])) | {c for x in refs for c in x["classes"]})
        if w["driver"] == "crash":
            for k in ("journal_ops", "probes", "torn_probes", "gen2_probes"):
                extra["crash_" + k] = extra.get("crash_" + k, 0) + sum(x["crash"][k] for x in r)
        if w["driver"] == "corrupt":
            extra["corruption_probes"] = extra.get("corruption_probes", 0) + sum(x["corrupt"]["probes"] for x in r)
            extra["corrupted_file_bytes"] = extra.get("corrupted_file_bytes", 0) + sum(x["corrupt"]["file_bytes"] for x in r)
            for x in r:
                for kk, vv in x["corrupt"]["by_kind"].items():
                    extra["corruption_probes_" + kk] = extra.get("corruption_probes_" + kk, 0) + vv
        if w["driver"] == "live":
            for x in r:
                for kk, vv in (x.get("waits") or {}).items():
                    extra["condvar_waits_" + kk] = extra.get("condvar_waits_" + kk, 0) + vv
        if w["driver"] == "sched":
            extra["forced_schedules"] = extra.get("forced_schedules", 0) + len(r)
            extra["schedules_where_victim_parked"] = extra.get("schedules_where_victim_parked", 0) + sum(1 for x in r if x.get("parked"))
    vruns, rejects, tstates = [], [], 0
    for (tmod, tcfg), files in groups.items():
        v, rj, ts = validate_traces(files, tmod, tcfg, nproc, prop)
        vruns += v
        rejects += rj
        tstates += ts
    return finish(prop, tier, seed, t0, design, switches, recs, vruns, rejects, tstates, None,
                  extra_cov=extra, direct=direct)


def finish(prop, tier, seed, t0, design, switches, recs, vruns, rejects, tstates, outdir,
           extra_cov=None, direct=None):
    known = load_known()
    by_seed = {r["seed"]: r for r in recs}
    if rejects:
        for r in rejects:
            log(f"[{prop}] TRACE NOT ACCEPTED {r['trace']}: {r['detail'][:1500]}")
        raise ToolError("a trace was not accepted by the trace specification (machinery defect or "
                        "a hook/driver that lies)")
    validated = len(vruns)
    violations, knowns, tool = [], [], []
    events = 0
    for vr in vruns:
        events += 0
        # a disagreement between the reconstructed state and an observation is a machinery defect
        # only if the run is otherwise clean: once a property is violated (e.g. a compaction
        # changed the contents) reads that overlap the change legitimately disagree with the
        # state reconstructed after it
        real = [v for v in vr["viol"] if not ({"MODEL", "BIND", "C15P", "INFO"} & set(v["props"]))]
        for v in vr["viol"]:
            if "MODEL" in v["props"] or "BIND" in v["props"]:
                if not real:
                    tool.append((vr, v))
                continue
            if prop not in v["props"]:
                continue
            k = match_known(prop, v, known)
            if k:
                knowns.append((vr, v, k))
            else:
                violations.append((vr, v))
    if tool:
        for vr, v in tool[:5]:
            log(f"[{prop}] binding self-check failed: seed={vr['seed']} {json.dumps(v)} trace={vr['trace']}")
        raise ToolError("model/binding self-check failed: the specification's reconstruction of the "
                        "state disagrees with the real state although the observed results are right")
    # evidence
    shapes = set()
    samples = []
    for r in recs[:3]:
        samples.append({"seed": r["seed"], "cfg": r.get("cfg"), "status": r["status"],
                        "events": r.get("events"), "replay": r.get("replay")})
    if vruns:
        f = vruns[0]["trace"]
        with open(f) as fh:
            head = [next(fh).strip() for _ in range(6)]
        samples.append({"trace_head": head})
    for r in recs:
        shapes.add((r.get("max_level"), r.get("max_files"), r.get("reopens")))
    coverage = {
        "states": sum(d["distinct"] for d in design) + tstates,
        "transitions": sum(d["generated"] for d in design) + tstates,
        "design_models": design,
        "bug_switch_counterexamples": switches,
        "traces_validated_against_impl": validated,
        "trace_states_checked": tstates,
        "histories_executed": len(recs),
        "distinct_shapes(max_level,max_files,reopens)": len(shapes),
        "deepest_level_reached": max([r.get("max_level") or 0 for r in recs] + [0]),
        "known_findings_seen": len(knowns),
        "samples": samples,
        "exhaustive": False,
    }
    if extra_cov:
        coverage.update(extra_cov)
    seen = set()
    for vr, v, k in knowns:
        if k["id"] in seen:
            continue
        seen.add(k["id"])
        log(f"KNOWN-FINDING: property={prop} {k['what']} (e.g. seed {vr['seed']}, trace line {v['line']})")
    rc = 0
    vdir = f"{OUT}/violations"
    os.makedirs(vdir, exist_ok=True)
    reported = set()
    # behaviour replay (spec -> impl): the real code's observable outcome differs from the model's
    for d in (direct or [])[:3]:
        dst = f"{vdir}/{prop}_{d['check']}_{d['seed']}.json"
        try:
            shutil.copy(d["replay"], dst)
        except Exception:
            dst = d["replay"]
        reported.add((d["seed"], None, d["check"]))
        log(f"VIOLATION property={prop} replay={dst}")
        log(f"  check={d['check']} detail={json.dumps(d['detail'])[:600]}")
        rc = 1
    for vr, v in violations:
        seed_v = vr["seed"]
        if (seed_v, vr.get("tag"), v["check"]) in reported:
            continue
        reported.add((seed_v, vr.get("tag"), v["check"]))
        rec = by_seed.get(seed_v, {})
        rp = rec.get("replay", "")
        dst = f"{vdir}/{prop}_{v['check']}_{seed_v}.json"
        if vr.get("tag") and "@" in vr["tag"]:
            # forced schedule: the replay is (seed, scenario name)
            dst = f"{vdir}/{prop}_{v['check']}_{seed_v}_{abs(hash(vr['tag'])) % 100000}.json"
            json.dump({"driver": "sched", "seed": seed_v, "scenario": vr["tag"]}, open(dst, "w"))
        elif vr.get("tag") and re.match(r"^\d+:(true|false)$", vr["tag"]):
            # fault run: the replay is (workload seed, position, mode)
            idx, sticky = vr["tag"].split(":")
            wl = [r for r in recs if r.get("wseed") == seed_v]
            dst = f"{vdir}/{prop}_{v['check']}_{seed_v}_{idx}_{sticky}.json"
            json.dump({"driver": "fault", "seed": seed_v, "idx": int(idx), "sticky": sticky == "true",
                       "nops": wl[0].get("nops", 22) if wl else 22,
                       "large": wl[0].get("large", False) if wl else False,
                       "reopen_heavy": wl[0].get("reopen_heavy", False) if wl else False,
                       "read_faults": wl[0].get("read_faults", False) if wl else False,
                       "small_caches": wl[0].get("small_caches", False) if wl else False},
                      open(dst, "w"))
        else:
            try:
                shutil.copy(rp, dst)
            except Exception:
                dst = rp
        log(f"VIOLATION property={prop} replay={dst}")
        log(f"  check={v['check']} after={v['after']} line={v['line']} detail={json.dumps(v['detail'])} trace={vr['trace']}")
        rc = 1
    write_evidence(prop, tier, seed, "model_checking", coverage, time.time() - t0,
                   len(reported),
                   ["TLC explores the design specification for the stated small constants only",
                    "trace validation covers the executions driven in this run",
                    "SimFs (POSIX-like in-memory filesystem) stands for the disk",
                    "hooks report what the code did; Dump events cross-check the reconstruction"])
    log(f"[{prop}] {tier}: {validated} runs validated, {len(reported)} violations, "
        f"{len(seen)} known findings, {time.time() - t0:.0f}s")
    return rc


def main():
    if len(sys.argv) < 3:
        print(__doc__)
        return 2
    prop, tier = sys.argv[1], sys.argv[2]
    seed = int(os.environ.get("VERIF_SEED", "0") or 0)
    if os.environ.get("VERIF_TIER") in ("quick", "thorough"):
        tier = os.environ["VERIF_TIER"] if tier not in ("quick", "thorough") else tier
    try:
        if prop == "replay":
            return replay(sys.argv[2])
        if prop == "adhoc":
            return adhoc(sys.argv[2], int(sys.argv[3]), sys.argv[4:], seed)
        if prop in PROPS:
            return check_prop(prop, tier, seed)
        log(f"unknown property {prop}")
        return 2
    except ToolError as e:
        log(f"TOOL-ERROR: {e}")
        return 2
    except subprocess.TimeoutExpired as e:
        log(f"TOOL-ERROR: timeout {e}")
        return 2


TRACE_SPEC_OF = {"hist": ("RainCore_Trace.tla", "RainCore_Trace.cfg"),
                 "crash": ("RainCore_Trace.tla", "RainCore_Trace.cfg"),
                 "fault": ("RainCore_Trace.tla", "RainCore_Trace.cfg"),
                 "corrupt": ("RainCore_Trace.tla", "RainCore_Trace.cfg"),
                 "logfmt": ("RainLog_Trace.tla", "RainLog_Trace.cfg"),
                 "lockfmt": ("RainLock_Trace.tla", "RainLock_Trace.cfg"),
                 "tablefmt": ("RainTable_Trace.tla", "RainTable_Trace.cfg"),
                 "filterfmt": ("RainTable_Trace.tla", "RainTable_Trace.cfg"),
                 "sched": CONC_TRACE, "live": CONC_TRACE}


def adhoc(driver, runs, args, seed):
    """Experiments: check.py adhoc <driver> <runs> [driver args...]: drive, validate, list every
    record of every property (no evidence, no verdict)."""
    build_harness()
    outdir = f"{OUT}/adhoc"
    nproc = min(12, NCPU)
    if driver == "core":
        recs, ntotal, nrun = run_core_replay(outdir, 4242 + seed, runs, nproc, "--simulate" in args)
        log(f"TLC generated {ntotal} distinct client-level histories, {nrun} replayed")
        driver = "hist"
    else:
        recs = run_driver_parallel(driver, outdir, 424242 + seed * 1000, runs, min(nproc, runs), args)
    files = sorted(glob.glob(f"{outdir}/p*/part*/trace_*.ndjson"))
    tmod, tcfg = TRACE_SPEC_OF[driver]
    vruns, rejects, tstates = validate_traces(files, tmod, tcfg, nproc, "adhoc")
    for rj in rejects:
        log("REJECTED: " + rj["detail"][:1500])
    n = 0
    for vr in vruns:
        for v in vr["viol"]:
            n += 1
            log(f"seed={vr['seed']} tag={vr.get('tag')} {json.dumps(v)[:600]}")
    shapes = {}
    for r in recs:
        k = (r.get("max_level"), r.get("max_files"))
        shapes[k] = shapes.get(k, 0) + 1
    log(f"adhoc {driver}: {len(recs)} runs, {len(vruns)} validated, {tstates} trace states, {n} records, "
        f"{len(rejects)} rejects; statuses {sorted(set(r.get('status') for r in recs))}")
    return 0 if not n and not rejects else 1


def replay(path):
    build_harness()
    rp = json.load(open(path))
    outdir = f"{OUT}/replay"
    shutil.rmtree(outdir, ignore_errors=True)
    if rp["driver"] == "fault":
        cmd = [BIN, "fault", "--seed", str(rp["seed"]), "--runs", "1", "--nops", str(rp["nops"]),
               "--idx", str(rp["idx"]), "--out", outdir]
        if rp.get("sticky"):
            cmd.append("--sticky")
        if rp.get("large"):
            cmd.append("--large")
        if rp.get("reopen_heavy"):
            cmd.append("--reopen-heavy")
        if rp.get("read_faults"):
            cmd.append("--read-faults")
        if rp.get("small_caches"):
            cmd.append("--small-caches")
        r = sh(cmd, timeout=900)
    elif rp["driver"] == "sched" and rp.get("schedule"):
        os.makedirs(outdir, exist_ok=True)
        sf = f"{outdir}/schedule.ndjson"
        open(sf, "w").write(json.dumps(rp["schedule"]) + "\n")
        r = sh([BIN, "sched", "--seed", str(rp["seed"]), "--schedules", sf, "--out", outdir], timeout=900)
    elif rp["driver"] == "sched":
        r = sh([BIN, "sched", "--seed", str(rp["seed"]), "--runs", "1", "--all", "--scenario",
                rp["scenario"], "--out", outdir], timeout=900)
    elif rp["driver"] == "iterfmt":
        # one behaviour of the iterator model on one realisation of its layout
        os.makedirs(outdir, exist_ok=True)
        bf = f"{outdir}/behaviour.ndjson"
        open(bf, "w").write(json.dumps(rp["behaviour"]) + "\n")
        r = sh([BIN, "iterfmt", "--behaviours", bf, "--seed", str(rp["seed"]), "--variant", str(rp["variant"]),
                "--keyset", str(rp["keyset"]), "--out", outdir], timeout=900)
        res = json.load(open(f"{outdir}/results.json"))["runs"]
        bad = [x for x in res if x.get("status") == "mismatch"]
        for x in bad:
            log("DIFFERS: " + json.dumps({"diff": x["diff"], "behaviour": x["behaviour"]}))
        log(json.dumps(res[-1]))
        return 1 if bad else 0
    elif rp["driver"] == "live":
        r = sh([BIN, "live", "--seed", str(rp["seed"]), "--runs", "1", "--ops", str(rp.get("ops", 150)),
                "--jitter", str(rp.get("jitter", 0)), "--out", outdir]
               + (["--own-reads"] if rp.get("own") else []), timeout=1800)
    else:
        r = sh([BIN, rp["driver"], "--replay", path, "--out", outdir], timeout=900)
    log(r.stdout[-2000:])
    files = sorted(glob.glob(f"{outdir}/trace_*.ndjson"))
    spec = {"hist": ("RainCore_Trace.tla", "RainCore_Trace.cfg"),
            "crash": ("RainCore_Trace.tla", "RainCore_Trace.cfg"),
            "fault": ("RainCore_Trace.tla", "RainCore_Trace.cfg"),
            "corrupt": ("RainCore_Trace.tla", "RainCore_Trace.cfg"),
            "logfmt": ("RainLog_Trace.tla", "RainLog_Trace.cfg"),
            "lockfmt": ("RainLock_Trace.tla", "RainLock_Trace.cfg"),
            "tablefmt": ("RainTable_Trace.tla", "RainTable_Trace.cfg"),
            "filterfmt": ("RainTable_Trace.tla", "RainTable_Trace.cfg"),
            "sched": CONC_TRACE, "live": CONC_TRACE}[rp["driver"]]
    vruns, rejects, _ = validate_traces(files, spec[0], spec[1], 2, "replay")
    for vr in vruns:
        log(json.dumps(vr)[:4000])
    for rj in rejects:
        log("REJECTED: " + rj["detail"])
    return 0 if not any(vr["viol"] for vr in vruns) and not rejects else 1


if __name__ == "__main__":
    sys.exit(main())
