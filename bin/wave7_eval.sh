#!/bin/bash
# usage: wave7_eval.sh <id> <prop> [<prop> ...]
# Confirms a seeded change delivered in /tmp/mut_<id>/_out (existing suite passes with it, the
# demonstration fails with it and passes without it: bin/verify_mutant.sh), then runs the quick checks
# of the given properties against it (bin/try_mutant.sh, seed 0). Results: /verif/out/mut_batch7_<id>.txt
ID=$1; shift
W=/tmp/mut_$ID
O=/verif/out/mut_batch7_$ID.txt
mkdir -p /verif/out
{
echo "== verify $ID"
/verif/bin/verify_mutant.sh $W > $W/_out/verify.out 2>&1
cat $W/_out/verify.out
echo "== try $ID $@"
/verif/bin/try_mutant.sh $ID $W/_out/patch.diff 0 "$@"
echo "== end $ID"
} > $O 2>&1
