#!/usr/bin/env python3
"""Prompt for a sub-agent that writes PROPERTY-PRESERVING changes to raindb (the checks must stay quiet
on them). usage: benign_prompt.py <id> <area text>"""
import json, sys
wid, area = sys.argv[1], sys.argv[2]
props = [json.loads(l) for l in open("/verif/properties.jsonl")]
ptxt = "\n".join(f"{p['id']} {p['title']}: {p['statement']}" for p in props)
print(f"""You are given a scratch git worktree of the Rust project raindb (a LevelDB-style LSM key-value store) at /tmp/ben_{wid}. Work ONLY inside that directory; do not read or touch /repo, /verif or any other /tmp directory.

TASK: write THREE independent, realistic code changes to raindb of the kind a maintainer makes all the time and that are CORRECT: each changes what the code does internally (a tuning constant, a policy choice, a different but equally legal order of independent steps, a more conservative choice, a refactoring that restructures a function, an optimisation) but keeps EVERY ONE of the 17 user-visible properties listed below true. They are used to test that a verification suite does not raise false alarms on correct code, so they should change observable INTERNAL behaviour as much as possible (which files get compacted when, how outputs are cut, which level a flush goes to, which file numbers are handed out, how writers are grouped, when files are deleted, how often a manifest is rewritten, how caches behave, how much a compaction keeps, ...) while staying correct. Cosmetic changes (renames, comments, log text) are NOT wanted.

Your area: {area}

Each change must (1) compile, (2) pass the entire existing test suite `cargo nextest run --workspace --no-fail-fast --test-threads 8 --offline` (the os_file_system_tests in src/fs/fs_disk.rs are flaky already because they share a directory; ignore failures of those only), (3) keep all 17 properties true for every input, schedule, crash point and fault - argue this carefully in your notes; if you are not sure a change is correct, drop it and pick another. Keep the on-disk formats readable by the unchanged code and vice versa. Do not edit existing tests. Do not edit src/verif.rs; lines guarded by #[cfg(raindb_verif)] are instrumentation hooks (events at linearization points, scheduling points where the mutex is not held): keep each of them attached to the statement it follows/precedes when you move code, never delete or duplicate one, and do not make your change depend on that cfg.

THE 17 PROPERTIES THAT MUST STAY TRUE
{ptxt}

DELIVER in /tmp/ben_{wid}/_out/ : b1.diff, b2.diff, b3.diff (each the `git diff` of src/ for ONE change against the original HEAD, independently applicable), and notes.md with, per change: what it changes internally, why every property still holds (name the properties that come closest to being affected), and the suite result with the change applied. Leave the worktree clean (git checkout) at the end. Keep build output inside the worktree. Report the path of your deliverables and a short summary when done.""")
