#!/bin/bash
# usage: try_mutant.sh <name> <patch.diff> <seeds> <prop> [<prop> ...]
# Runs the quick checks of the given properties against a scratch copy of raindb with the patch
# applied, in an isolated copy of /verif (so /repo and /verif are not touched). Prints one line
# per (property, seed): exit code and the VIOLATION / KNOWN lines. Everything is removed afterwards.
NAME=$1; PATCH=$2; SEEDS=$3; shift 3
T=/tmp/vt_$NAME
rm -rf $T; mkdir -p $T
git -C /repo worktree add -q --detach $T/repo HEAD || exit 2
if ! git -C $T/repo apply $PATCH; then echo "PATCH DOES NOT APPLY"; git -C /repo worktree remove --force $T/repo; rm -rf $T; exit 2; fi
# the COMMITTED state of /verif (work in progress in the working tree must not leak into the run)
mkdir -p $T/verif && git -C /verif archive HEAD | tar -x -C $T/verif
sed -i "s#path = \"/repo\"#path = \"$T/repo\"#" $T/verif/harness/Cargo.toml
mkdir -p $T/verif/out
for P in "$@"; do
  for S in $SEEDS; do
    VERIF_ROOT=$T/verif VERIF_SEED=$S python3 $T/verif/bin/check.py $P quick > $T/log_${P}_$S.txt 2>&1
    RC=$?
    echo "RESULT mutant=$NAME prop=$P seed=$S rc=$RC $(grep -E '^VIOLATION|TOOL-ERROR' $T/log_${P}_$S.txt | head -3 | cut -c1-160 | tr '\n' '|')"
    grep -E "^  check=" $T/log_${P}_$S.txt | head -2 | cut -c1-220
  done
done
mkdir -p /verif/out/mutlogs/$NAME; cp $T/log_*.txt /verif/out/mutlogs/$NAME/ 2>/dev/null
git -C /repo worktree remove --force $T/repo
rm -rf $T
