#!/usr/bin/env python3
"""Copy the property-PRESERVING changes delivered in /tmp/ben_<B>/_out (b1..b3.diff, notes.md) to
/verif/seeded/benign/<B>/ and write seeded/benign/results.md from out/benign_*.txt (one line per
(change, property): exit code of the quick check, seed 0)."""
import glob, os, re, shutil
rows = {}
for f in sorted(glob.glob("/verif/out/benign_*.txt")):
    for line in open(f):
        m = re.match(r"RESULT mutant=(\S+) prop=(\S+) seed=(\S+) rc=(\d+) ?(.*)", line)
        if m:
            mut, prop, seed, rc, rest = m.groups()
            checks = sorted(set(re.findall(r"violations/C\d+_([A-Za-z_]+?)_\d", rest)))
            rows.setdefault(mut, {})[prop] = (int(rc), checks)
for d in sorted(glob.glob("/tmp/ben_B*/_out")):
    b = d.split("/")[2][4:]
    dst = f"/verif/seeded/benign/{b}"
    os.makedirs(dst, exist_ok=True)
    for name in ("b1.diff", "b2.diff", "b3.diff", "notes.md"):
        if os.path.exists(f"{d}/{name}"):
            shutil.copy(f"{d}/{name}", f"{dst}/{name}")
out = ["# Property-preserving changes: quick checks run against them (seed 0)", "",
       "`rc` 0 = quiet, 1 = VIOLATION reported (a false alarm unless the change is wrong), 2 = tool error.",
       "A name with suffix r = re-run after a correction of the machinery (DESIGN.md section 11).", "",
       "| change | property | rc | checks that fired |", "|---|---|---|---|"]
for mut in sorted(rows):
    for prop in sorted(rows[mut]):
        rc, checks = rows[mut][prop]
        out.append(f"| {mut} | {prop} | {rc} | {', '.join(checks)} |")
os.makedirs("/verif/seeded/benign", exist_ok=True)
open("/verif/seeded/benign/results.md", "w").write("\n".join(out) + "\n")
print(len(rows), "changes;", sum(1 for m in rows for p in rows[m] if rows[m][p][0] != 0), "non-zero exits")
