#!/usr/bin/env python3
"""Write /tmp/prop_<id>.txt for every property: the text (and nothing else) that a sub-agent gets
when it is asked to write a seeded breaking change (see bin/mut_prompt.py)."""
import json
for line in open('/verif/properties.jsonl'):
    p = json.loads(line)
    a = p['anchors']
    mech = "; ".join(f"{m['name']} ({m['where']})" for m in a.get('mechanism', []))
    txt = (f"PROPERTY {p['id']}: {p['title']}\n"
           f"Statement: {p['statement']}\n"
           f"Quantifier: {p['quantifier']['text']}\n"
           f"Why the existing tests cannot settle it: {p['why_tests_cant']}\n"
           f"Code anchors: files {', '.join(a.get('files', []))}\n"
           f"Mechanisms: {mech}\n")
    open(f"/tmp/prop_{p['id']}.txt", "w").write(txt)
print("ok")
