#!/usr/bin/env python3
"""Copy verified seeded changes from /tmp/mut_<id>/_out into /verif/seeded/<id>/ and write meta.json
with the outcome of the checks that were run against them (parsed from out/mut_batch*.txt)."""
import glob, json, os, re, shutil, sys

NEEDS = {
 "C01": ("C01", "tombstone compacted L->L+1 while the old value is the LAST user key of a file at L+2 or deeper (is_base_level_for_key `<=` -> `<`)"),
 "C02": ("C02", "fresh database reopened with WAL reuse before any flush, then a memtable rotation, then a crash before the flush's manifest record (mark_file_number_used off by one: the rotated WAL reuses the number of, and truncates, the live WAL)"),
 "C03": ("C03", "hot key overwritten with live snapshots, compaction output files cut inside the key's run of versions, then a snapshot get (find_file_with_upper_bound_range compares user keys only)"),
 "C04": ("C04", "table with >= 2 blocks and a shortened separator; seek target (user seek or re-seek on direction reversal) in the gap after a block's last key (TwoLevelIterator::seek skips to the next block only when no block was found)"),
 "C05": ("C05", ">= 2 writers queued behind a running leader and a follower whose batch exceeds the group-commit growth limit (build_group_commit_batch marks the rejected follower as last writer: acknowledged, never applied)"),
 "C06": ("C06", "reader captures its sequence while a multi-key writer is between publishing and finishing the memtable inserts (sequence published before the unlocked WAL append / memtable insert)"),
 "C07b": ("C07", "two live snapshots at different sequences, a key overwritten between them, a merging table compaction (smallest snapshot taken from snapshots.newest())"),
 "C08": ("C08", "one transient write failure while TableBuilder::finalize closes the LAST output of a table compaction (`Option::and` instead of `or` swallows the error; truncated table installed, inputs deleted)"),
 "C09": ("C09", "two threads parked on the background-work condition variable at once, e.g. two overlapping compact_range calls or a compact_range and a writer stalled on a full memtable (notify_one instead of notify_all)"),
 "C10": ("C10", "live snapshot keeps two versions of the last user key of a compaction output (largest key only updated when the user key changes: recorded range too narrow, persisted in the manifest)"),
 "C11": ("C11", "table compaction finishing while a rotated memtable waits for its flush, then a crash before the flush is recorded (obsolete-file pass compares WAL numbers with the WAL being written instead of the one in the version set)"),
 "C12": ("C12", "non-empty record appended when exactly 7 bytes are left in the block (zero-length First fragment; reader uses `!data_buffer.is_empty()` instead of the in-fragment flag and drops the record)"),
 "C13": ("C13", "snapshot read of a key whose newer version is the last entry of a data block with a shortened index key; older version in an older file (Table::get: block seek past the end = deleted instead of not-in-file)"),
 "C14": ("C14", "data block starting at an offset with off % 2048 < 5 that is neither first nor last in the table (filter builder told offset - 5: builder and reader disagree on the filter index)"),
 "C15": ("C15", "checksum-failing damage in the LAST manifest record (damage check moved to the top of the record loop, never evaluated after the final skipped record)"),
 "C16": ("C16", "last log write torn to <= 7 bytes, recovery with log reuse, a write acknowledged after recovery, reopen (partial header counted as consumed: torn tail looks like a clean end)"),
 "C17": ("C17", "close while a table compaction with a memtable flush inside its loop is running; another open during the close (Drop waits for background work with `if` instead of `while`)"),
 # ---- second wave (each agent was told which change of the first wave to stay away from)
 "C01b": ("C01", "two overlapping level-0 files, the OLDER one entirely past the end of the initial compaction range and reachable only through the newer one; sub-range compact_range or a narrow seed file (get_overlapping_compaction_inputs tests 'file after range' against the requested end instead of the widened one)"),
 "C02b": ("C02", "crash right after the create of the new WAL during a memtable rotation: recovery replays the full old WAL and the empty new one (last sequence taken from the WAL replayed last instead of the maximum)"),
 "C03b": ("C03", "get_snapshot / new_iterator while a writer is between releasing the mutex and finishing the memtable insert (prev_sequence_number published before the unlocked section)"),
 "C04b": ("C04", "backward movement, then seek landing directly on a live entry, then prev, with >= 2 children one of them wholly below the target (MergingIterator::seek does not set the direction)"),
 "C05b": ("C05", "two table-cache misses on different files at the same instant (LRUCache::new_id reads and writes the counter in two critical sections: two tables share a block-cache partition id)"),
 "C06b": ("C06", "plain get while a multi-key writer is between its first memtable insert and the publication (DB::get looks up with MAX_SEQUENCE_NUMBER)"),
 "C07c": ("C07", "tombstone for a key that is exactly the FIRST user key of a file two or more levels deeper, compacted without that file (is_base_level_for_key compares internal keys)"),
 "C08b": ("C08", "one transient failure of the size query made while the last WAL is reopened for appending, then > 32 KiB appended without a flush (LogWriter::new: len().unwrap_or_default())"),
 "C09b": ("C09", "manual table compaction in its merge phase while a writer rotates the memtable: the flush inside the loop wakes the compact_range caller (worker holds the request mutex across compact_tables: ABBA deadlock)"),
 "C10b": ("C10", "automatic trivial-move compaction (the delete record of the move names the parent level: the file is in two levels, also after reopen)"),
 "C11b": ("C11", "crash leftovers or deferred-deletion leftovers + a reopen on the pure reuse path (manifest and last WAL reused): remove_obsolete_files only runs when a new manifest snapshot is written"),
 "C12b": ("C12", "log closed with 1..6 bytes left in its last block, reopened for appending (block offset set to 0: no trailer padding, everything appended is off the block grid)"),
 "C13b": ("C13", "level-0 table iterator walked backwards past its first entry and then sent forward into the first block (stale data_block_handle: lands on the second block)"),
 "C14b": ("C14", "several versions of one user key kept by snapshots, an older version in a data block of a later 2 KiB filter range (filter only told about a user key when it changes)"),
 "C15b": ("C15", "a byte inside the filter block of a table file altered (filter block read without checksum verification: false negatives, older versions resurface)"),
 "C16b": ("C16", "torn WAL tail with reuse_log_files: manifest reused, WAL not reused, replay fills no memtable (the table written from the replay is never recorded and gets deleted)"),
 "C17b": ("C17", "open between destroy_database's unlock and its unlink of LOCK, then a third open (lock dropped before LOCK is unlinked)"),
 # ---- third wave (each agent was told about both earlier changes for its property)
 "C01c": ("C01", "two logs left at reopen (close between a rotation and the flush's installation), the same key in both, directory listing not in numeric order, e.g. log numbers 9 and 10 (recover_unrecorded_logs no longer sorts the logs)"),
 "C02c": ("C02", "memtable rotation landing while the worker appends a compaction's install record, crash before the rotated memtable's flush is recorded (obsolete-file pass keeps WALs from curr_wal_file_number instead of the version set's log number)"),
 "C03c": ("C03", "several large versions of one key spanning data blocks of one table, snapshot get of a version not in the first block (table builder tells the filter about a user key only when it changes) - same idea as C14b / C13c"),
 "C04c": ("C04", "a key with only newer-than-snapshot records just before a visible key, cursor in backward mode on that visible key, then next() (DatabaseIterator::next re-saves the skip key after the reversal step)"),
 "C05c": ("C05", "get / new_iterator capturing its view while a memtable flush is inside its manifest append (immutable memtable taken out before log_and_apply)"),
 "C06c": ("C06", "compact_range while a multi-key apply is mid-insert (force_memtable_compaction calls make_room_for_write directly instead of queueing as a writer: the memtable being filled is rotated and flushed half full)"),
 "C07d": ("C07", "seek-triggered level-0 compaction with an older overlapping level-0 file (the widening to all overlapping level-0 files only happens on the size-triggered path)"),
 "C08c": ("C08", "one transient rename failure while CURRENT is switched at open (set_current_file returns the result of the clean-up): CURRENT keeps naming a manifest that the next deletion pass removes"),
 "C09c": ("C09", "a write that fails in make_room_for_write (I/O fault creating the new WAL, or a sticky background error) returns early without leaving the writer queue: every later write hangs"),
 "C10c": ("C10", "an open that writes a manifest snapshot of a non-empty version, then another reopen (write_snapshot records smallest..smallest)"),
 "C11c": ("C11", "an iterator dropped by the client exactly while a flush is in its unlocked manifest append (iterator cleanup runs the obsolete-file pass; the flush output is not protected at that moment)"),
 "C12c": ("C12", "a record cut after its First fragment, file reopened for append, next record spans blocks (reader extends the assembly buffer on First instead of replacing it)"),
 "C13c": ("C13", "same idea as C14b / C03c (filter dedupe in the table builder), found independently"),
 "C14c": ("C14", "filter written with one bits-per-key setting and read with a larger one (key_may_match probes with the reader's count instead of the count stored in the filter)"),
 "C15c": ("C15", "damage on the lookup path of the younger of two files holding versions of a key (Version::get keeps searching older files after a table read error and answers from them)"),
 "C16c": ("C16", "crash tearing a manifest append, recovery with log reuse, further reopen (manifest reused although it did not end cleanly)"),
 "C17c": ("C17", "owner closed while a background flush or compaction runs, another open inside that window (background_compaction_scheduled cleared when the task is picked up, not when it ends)"),
 # ---- fourth wave (each agent was told about the three earlier changes for its property)
 "C01e": ("C01", "a multi-operation batch as the last write before close, reopen (recovery takes the batch's starting sequence number as the last sequence of the log)"),
 "C02e": ("C02", "two live WALs at recovery without log reuse, a key in both, the newer WAL's range free in levels 0 and 1 (the last WAL's table is placed with the current version as base while the earlier WAL's table is not in it yet)"),
 "C03e": ("C03", "two live snapshots, key overwritten between them, table compaction (smallest snapshot read from snapshots.newest()) - the idea of C07b again"),
 "C04e": ("C04", "iterator created between a memtable rotation and the installation of the flushed table (new_iterator merges the active memtable twice and the immutable memtable not at all)"),
 "C05e": ("C05", "= C07d: seek-triggered level-0 compaction takes one file only (found again for C05: successive reads of a key go backwards)"),
 "C06e": ("C06", "(lost with the scratch worktrees; not re-created)"),
 "C07e": ("C07", "= C03: upper-bound file search by user key only (found again for C07)"),
 "C08e": ("C08", "group commit whose WAL append fails: followers are told Ok (Writer::set_operation_completed fills in a default Ok result, set_operation_result keeps the first one)"),
 "C09e": ("C09", "any iterator step over an entry of 2 MiB or more (read-sampling countdown replaced instead of extended: the loop never ends)"),
 "C10e": ("C10", "table compaction with two more outputs to open + memtable rotation whose WAL creation fails + the interleaving allocate N / allocate N+1 / give N back / allocate N+1 again (new WAL created with the mutex released; reuse_file_number compares with >=)"),
 "C11e": ("C11", "a get that fails with a table read error after a new version was installed (early return before release_version: the version stays linked, its files are never reclaimed)"),
 "C12e": ("C12", "file cut 1..6 bytes into a fragment header (end-of-file test on the header changed to == 0: the torn header is zero-padded and parsed)"),
 "C13e": ("C13", "seek into the gap above a block's last key but at or below its shortened index key (TwoLevelIterator::seek no longer skips to the next block) - the idea of C04 again"),
 "C14e": ("C14", "bits_per_key of 45 or more (create_filter caps the probes at 30 but stores the uncapped count)"),
 "C15e": ("C15", "damaged block in a compaction input whose preceding entry closed an output table, all other inputs exhausted (compact_tables no longer asks the merging iterator for its error)"),
 "C16e": ("C16", "crash tearing the write of the manifest name into the CURRENT temp file, recovery, reopen (temp file opened for appending: CURRENT gets a garbled name)"),
 "C17e": ("C17", "destroy_database suspended between dropping the lock and removing the root directory, an open in that window (remove_dir_all instead of remove_dir: the new owner's files and LOCK are wiped)"),
 # ---- fifth wave (each agent was told about all earlier changes for its property); wave 4 was
 # re-created from its descriptions after a sandbox restore had removed the scratch worktrees
 "C01f": ("C01", "= C07d / C05e: seek-triggered level-0 compaction starts from one file only (found a third time)"),
 "C02f": ("C02", "= C16e: CURRENT's temp file opened for appending; a crash between the temp write and the rename leaves a complete temp file that the next switch appends to (found again for C02)"),
 "C03f": ("C03", "a snapshot or long-lived iterator, then a delete of a key that was live at that point, then a BACKWARD walk over the key (find_prev_client_entry records the operation type of records newer than the snapshot; some shapes panic on an unwrap instead)"),
 "C04f": ("C04", "level >= 1 with two files, seek to (k, s) below the largest key (k, s_new) of a non-last file - through an old snapshot or on a direction reversal (FilesEntryIterator::seek picks the file with MAX sequence and no longer skips empty files forward; two cooperating edits)"),
 "C05f": ("C05", "reader capturing its view while a writer is inside its unlocked section (sequence published BEFORE the WAL append / memtable insert) - the idea of C06 / C03b again"),
 "C06f": ("C06", "= C14b / C03c / C13c: table builder tells the filter about a user key only when it changes (fourth independent find)"),
 "C07f": ("C07", "= C08f: a level-0 compaction input whose table cannot be opened (one transient open failure, table not in the table cache) is skipped; the edit still deletes it"),
 "C08f": ("C08", "one transient open-for-read failure of a level-0 compaction input that is not in the table cache (reopen, tiny caches): make_merging_iterator skips the file, the version edit still removes it - acknowledged data vanishes without any error"),
 "C09f": ("C09", "manual compaction of a level >= 1 whose first table in the range is already max_file_size or larger (compact_range truncates the input list to zero files; the worker trips an assertion and dies)"),
 "C10f": ("C10", "~100 freshly positioned iterators on a key held in two files of different levels, nothing below the deeper one (record_read_sample charges the first file with the level of the second: trivial move from the wrong level, the file is in two levels)"),
 "C11f": ("C11", "crash image with two logs, the newest intact and small, reopen with log reuse (open no longer records the re-adopted log as the current one in the new manifest snapshot: the older, already saved log is kept and replayed again at every reopen)"),
 "C12f": ("C12", "multi-block record whose last fragment ends exactly on a block boundary (continuation fragment typed Middle when it fills the block: the record has no Last fragment and is never returned)"),
 "C13f": ("C13", "table iterator that has moved inside the FIRST data block, then seek_to_first (the block iterator is no longer re-positioned when the block handle is unchanged)"),
 "C14f": ("C14", "the empty user key alone in a first data block that ends at or beyond offset 2048 (filter block builder keeps pending keys in one flat byte vector; 'no keys pending' became 'pending keys have zero bytes')"),
 "C15f": ("C15", "an iterator positioned onto a damaged data block twice (the block handle is stored before the block is read: the second positioning takes the 'already loaded' shortcut and the scan silently goes on)"),
 "C16f": ("C16", "crash while two logs are live and the newest holds no complete record (last sequence taken from the log replayed last: sequence numbers go backwards)"),
 "C17f": ("C17", "an open that has opened LOCK before destroy unlinks it and locks it after destroy released it (lock_file's 'is the path still the locked inode' check accepts a missing path); statistical demonstration"),
 # ---- sixth wave: directed by FILE, not by property (each agent got the statements of all 17
 # properties and one source file / area to put its change in)
 "G01": ("C03", "memtable.rs: a seek whose target has the EMPTY user key answers with seek_to_first; a snapshot get of \"\" then returns a version newer than the snapshot while it is still in the memtable (the database iterator re-checks the sequence, get does not)"),
 "G02": ("C01", "batch.rs: width of a value's length prefix taken from the key length; a WAL record with >= 2 operations whose key and value length varints differ in width is misparsed at replay (reopen / crash before the flush): open fails, or an operation is lost and a foreign key deleted"),
 "G03": ("C10", "version_manifest.rs: encoder gathers deleted and added files in one map keyed by file number; the record of a TRIVIAL MOVE loses its delete: after a reopen the file is in two levels (or, once compacted away, the open fails with a missing file)"),
 "G04": ("C04", "block.rs: BlockIter::seek shortcut 'cursor already at the first entry >= target' with <= instead of <: seek(k) on an iterator that stands right after k lands on the successor"),
 "G05": ("C01", "key.rs: PartialOrd of InternalKey breaks ties on the operation tag while Ord does not; the file search (largest < target) skips a file whose largest key is a tombstone with exactly the lookup's sequence: the deleted key reappears from a deeper level"),
 "G06": ("C05", "= C05b: cache.rs new_id in two critical sections (found again through the file)"),
 "G07": ("C03", "= C07b / C03e: smallest snapshot taken from newest() (found again)"),
 "G08": ("C11", "file_names.rs: the CURRENT temp file is created under data/; a crash between writing it and the rename leaves a temp file that the deletion pass (which only looks for temp files in the root) never reclaims"),
 "G09": ("C11", "compaction/state.rs: opening the next compaction output removes the previous, finished one from tables_in_use; a memtable flush inside the merge loop then deletes finished outputs before they are installed"),
 "G10": ("C14", "= C14 (first wave): filter builder told an offset 5 bytes short (handle size without the block trailer)"),
 "G11": ("C01", "version.rs: Version::get breaks out of the level-0 candidate loop on 'not in this file' instead of continuing: >= 2 level-0 files cover the key, the newest lacks it"),
 "G12": ("C03", "= C03 (first wave): upper-bound file search by user key only"),
 "G13": ("C01", "worker.rs: after the merge loop 'finish the open output' is tested before 'shutting down': a close during a table compaction installs the half-written outputs and deletes all inputs"),
 "G14": ("C01", "utils/io.rs: length-prefixed slices above 1 MiB are rejected by the READER only: a value > 1 MiB is acknowledged, then the reopen that replays its WAL record fails"),
 # ---- seventh wave (session 5): one agent per property, told about EVERY earlier idea for it
 "C01h": ("C01", "= first-wave C12 idea found again for C01: LogReader decides 'inside a fragmented record' by !data_buffer.is_empty(); a record that starts with exactly 7 bytes left in a 32 KiB block (zero-length First fragment), still only in the log at a reopen, is dropped"),
 "C02h": ("C02", "recover_wal_records skips log records shorter than 12 bytes (`continue` added to the 'too short' warning): a batch holding only delete(\"\") serialises to 11 bytes; the acknowledged delete of the empty key is lost at a crash / reopen before the flush"),
 "C03h": ("C03", "compact_tables: tombstone-drop rule compares the tombstone's sequence with last_sequence_for_key instead of the smallest snapshot: base-level tombstones are dropped although an older snapshot keeps the old value: later readers see the deleted value again"),
 "C04h": ("C04", "TwoLevelIterator::skip_empty_data_blocks_backward returns early without resetting data_block_handle: a level-0 table child that ran off its front keeps the handle of its first block, the next positioning into that block takes it for loaded-and-empty and skips it"),
 "C05h": ("C05", "apply_changes: the result of the unlocked WAL-append / memtable-insert section is shadowed by a stray `let`: leader and followers are told Ok after a failed WAL append"),
 "C06h": ("C06", "Batch::try_append_batch pushes operations one by one and keeps the ones already pushed when the group budget is hit; build_group_commit_batch treats false as 'nothing added': a queued multi-operation batch that crosses the growth limit in its middle is published in two parts"),
 "C07h": ("C07", "finalize_compaction_inputs: the files added by the input expansion no longer bring their boundary files along: a user key straddling two files of level L (snapshot + output roll-over between the versions) is split, the newer version sinks below the older one"),
 "C08h": ("C08", "DB::recover tests create_if_missing before the error kind: ANY failure to open CURRENT (one transient read fault at a reopen) initialises a new database over the existing one; open returns Ok, every flushed table is deleted"),
 "C09h": ("C09", "finish_compaction_output_file: `finalize()?` leaves the table builder in the compaction state on error; cleanup calls abandon() on a closed file whose assertion panics the worker: scheduled flag never cleared, close hangs (one write error between the last data block and the footer of a compaction output)"),
 "C10h": ("C10", "new manifests are opened for APPENDING (shared helper): a crash after the new manifest was written and before CURRENT is switched leaves MANIFEST-N; the next open (other sizes: other tables under the same numbers) appends behind it; the reopen after that reports a level-0 file number twice, once with a stale range"),
 "C11h": ("C11", "= C08c: set_current_file returns the clean-up's result on a failed rename: open returns Ok, the deletion pass removes the manifest CURRENT still names"),
 "C12h": ("C12", "LogReader::read_physical_record skips a block's zero trailer right after the payload read instead of at the start of the next read: when the file ends 1..6 bytes before a block boundary (or is cut inside a trailer) the record just read is thrown away"),
 "C13h": ("C13", "= C14c: BloomFilterPolicy::key_may_match probes with the reader's probe count instead of the stored one"),
 "C14h": ("C14", "Table::get: `unwrap_or_default()` when the table has no usable filter block (read error on the filter block while the table was opened, or another policy name): every point lookup in that table = not found"),
 "C15h": ("C15", "LogReader: an orphan Middle / Last fragment only sets dropped_data, not saw_corruption: a manifest record whose TYPE byte became 2 or 3 is skipped silently and the later edits are applied (was hidden by the too coarse signature of the known finding KF-C15-log-header-damage)"),
 "C16h": ("C16", "LogReader: end of file inside a continuation fragment also sets dropped_before_end: VersionSet::recover refuses a manifest whose last record (crossing a 32 KiB block boundary) was torn in its Middle / Last fragment: the database does not open any more"),
 "C17h": ("C17", "the existence check and initialize_as_new_db are done BEFORE lock_file: two opens racing on a path without CURRENT: the loser rewrites MANIFEST-1 / CURRENT over the winner's and only then fails to lock"),
 # ---- eighth wave (session 5): by AREA, changes that bite through an interaction of two sites or a state built up over several operations
 "H1": ("C16", "version_set.rs: a shared helper opens manifest writers with reuse_log_files as the append flag: a FRESH manifest appends behind a leftover of the same number (crashed open that tore its manifest write; same number handed out again): the open succeeds, every later open fails"),
 "H2": ("C02", "= C01c: recover_unrecorded_logs no longer sorts the logs (list_dir is 'already sorted' - lexicographically: wal-10 before wal-8)"),
 "H3": ("C05", "= C05b: LRUCache::new_id as fetch_add + separate load: two concurrent first opens of tables share a block-cache partition id"),
 "H4": ("C02", "version_set.rs: the next manifest's number is allocated when the manifest is written, AFTER the file counter was captured for the edit: the persisted counter is one short, a later reopen that writes a new manifest without using a number first picks the live manifest's number and truncates it; a crash during that rewrite loses the database"),
 "H5": ("C05", "build_group_commit_batch: the 'synchronous writer behind a non-synchronous leader' exclusion merged with the force-compaction one: the excluded writer is recorded as last_writer, popped and told Ok, its batch never written"),
 "H6": ("C11", "new_iterator's cleanup reads Arc::strong_count BEFORE taking the mutex and skips release_version when it sees other holders: a version installed in the window is never unlinked, its files stay until the next open"),
 "H7": ("C09", "= C09h neighbourhood: finish_compaction_output_file returns the error before it takes the builder out of the state; cleanup calls abandon() on a closed file: assertion on the worker, close hangs (I/O fault in a compaction output's final part or an input read error)"),
 "H8": ("C02", "recover_unrecorded_logs: the running maximum of the replayed logs' last sequence became a plain assignment; an EMPTY newest log (crash right after a rotation / during an open that created its log) resets it to the manifest's older value: recovered entries invisible, sequence numbers reused"),
}

def results():
    res = {}
    def num(f):
        m = re.search(r"mut_batch(\d+)", f)
        return int(m.group(1)) if m else 0
    # later batches override earlier ones (numeric order), single re-runs (mut_C*.txt) come last
    for f in sorted(glob.glob("/verif/out/mut_batch*.txt"), key=num) + sorted(glob.glob("/verif/out/mut_C*.txt")):
        for line in open(f):
            m = re.match(r"RESULT mutant=(\S+) prop=(\S+) seed=(\S+) rc=(\d+) (.*)", line)
            if m:
                mut, prop, seed, rc, rest = m.groups()
                checks = sorted(set(re.findall(r"violations/C\d+_([A-Za-z_]+?)_\d", rest)))
                res.setdefault(mut, {})[prop] = {"seed": int(seed), "exit": int(rc), "checks": checks}
    return res

def main():
    res = results()
    for mid, (prop, needs) in NEEDS.items():
        src = f"/tmp/mut_{mid}/_out"
        if not os.path.exists(src + "/patch.diff"):
            continue
        dst = f"/verif/seeded/{mid}"
        os.makedirs(dst, exist_ok=True)
        shutil.copy(src + "/patch.diff", dst + "/patch.diff")
        if os.path.exists(src + "/verify.out"):
            shutil.copy(src + "/verify.out", dst + "/verify.out")
        for name in ("mut_demo.rs", "notes.md"):
            if os.path.exists(f"{src}/{name}"):
                shutil.copy(f"{src}/{name}", f"{dst}/{name}")
        ver = open(src + "/verify.out").read() if os.path.exists(src + "/verify.out") else ""
        r = res.get(mid, {})
        detected = {p: v for p, v in r.items() if v["exit"] == 1}
        missed = [p for p, v in r.items() if v["exit"] == 0]
        toolerr = [p for p, v in r.items() if v["exit"] == 2]
        meta = {
            "id": mid, "property": prop, "needs": needs,
            "confirmed": "bin/verify_mutant.sh in the sub-agent's scratch worktree: existing suite passes with the change (flaky os_file_system tests aside), demonstration fails with the change and passes without it",
            "verify_log": ver[-1500:],
            "ran": "bin/try_mutant.sh <id> patch.diff 0 <properties> (quick checks, isolated copy of /repo with the patch applied)",
            "detected_by": detected, "not_detected_by": missed, "tool_error": toolerr,
        }
        json.dump(meta, open(dst + "/meta.json", "w"), indent=1)
        print(mid, "detected:", list(detected), "missed:", missed, "tool:", toolerr)

main()
