#!/bin/bash
# usage: verify_mutant.sh <worktree> ; verifies: suite passes with the change (except the demo), demo fails with it, passes without it
W=$1
cd $W || exit 2
LOG=$W/_out/verify.log
: > $LOG
git diff --stat -- src >> $LOG
echo "== suite WITH change" >> $LOG
cargo nextest run --workspace --no-fail-fast --test-threads 8 --offline > $W/_out/suite.txt 2>&1
grep -E "^\s+(FAIL|PASS).*mut_demo|Summary|^\s+FAIL" $W/_out/suite.txt | sort | uniq -c | head -20 >> $LOG
echo "== demo WITHOUT change" >> $LOG
git apply -R _out/patch.diff || { echo "cannot revert" >> $LOG; exit 2; }
cargo nextest run --offline --no-fail-fast --test mut_demo > $W/_out/demo_without.txt 2>&1
grep -E "Summary|FAIL" $W/_out/demo_without.txt | head -5 >> $LOG
git apply _out/patch.diff
echo "== done" >> $LOG
cat $LOG
