#!/usr/bin/env python3
"""Prompt for a wave-8 seeded-change sub-agent: all 17 property statements, one AREA of the code to put
the change in, and the demand for a change that needs TWO cooperating sites or a multi-step history.
usage: mut_prompt8.py <id> <area text>"""
import json, sys
wid, area = sys.argv[1], sys.argv[2]
props = [json.loads(l) for l in open("/verif/properties.jsonl")]
ptxt = "\n".join(f"{p['id']} {p['title']}: {p['statement']}" for p in props)
base = open("/verif/bin/mut_prompt.py").read()
body = base[base.index('print(f"""') + len('print(f"""'):base.rindex('""")')]
body = body.replace("{{", "{").replace("}}", "}").replace("{p}", wid)
body = body.replace("{prop}", "THE PROPERTIES (break exactly ONE of them; say which in notes.md):\n" + ptxt)
body = body.replace("that makes the following property FALSE", "that makes ONE of the properties listed below FALSE")
body += f"""

WHERE: put the change in this area of the code: {area}
KIND OF CHANGE WANTED: one that only bites through an INTERACTION - two sites that each look fine alone (a producer and a consumer that disagree about an invariant, a value computed in one module and trusted in another, a flag set in one place and tested in another), or a state that takes several operations to build up (a counter, a cache, a list, a file left behind by an earlier step, an option changed between two opens). Single-site off-by-one slips in the hottest functions (compaction drop rule, key-range computation, log reader fragment handling, iterator direction changes, filter index arithmetic, lock file handling) have been tried many times already - stay away from those."""
print(body)
