#!/bin/bash
# Self-test of the machinery: for every named deviation of the design models for which
# /verif/selftest/<Switch>.diff holds the corresponding CODE change, run the quick check of the
# property the deviation belongs to against a copy of raindb with that change. Output: one
# RESULT line per (switch, property) as printed by try_mutant.sh.
MAP="Bug_FlushLevelUnsafe:C01 Bug_DropAboveSnapshot:C03 Bug_DeletePinned:C11 Bug_NoBoundary:C07 Bug_ImmDropEarly:C07 Bug_DeletePending:C11
Bug_AckBeforeWal:C02 Bug_ManifestBeforeTable:C02 Bug_CurrentInPlace:C02 Bug_SnapshotUnlocked:C06
Bug_NoReseekOnDirectionChange:C04 Bug_TombstoneNotRemembered:C04 Bug_PrevIgnoresSnapshot:C04 Bug_PrevStopsAtOldestVersion:C04
Bug_TrailerThresholdOffByOne:C12 Bug_NoOffsetRestoreOnReopen:C12 Bug_ReaderStopsAfterPartial:C12
Bug_PrevStopsAtBlockStart:C13 Bug_GetSkipsKeyCheck:C13 Bug_SeparatorInsideKey:C13
Bug_ReaderIndexOffByOne:C14 Bug_NoFlushAtFinish:C14 Bug_FilterAssignedToNextRange:C14
Bug_LockAfterRecovery:C17 Bug_DestroyIgnoresLock:C17 Bug_OpenTruncatesOnFailure:C17
Bug_NoBlockCrc:C15 Bug_KeyWithoutId:C05 Bug_NoRescheduleAtEnd:C09 Bug_SeqFromManifestOnly:C01"
ONLY="$1"
for item in $MAP; do
  sw=${item%%:*}; prop=${item##*:}
  [ -n "$ONLY" ] && [ "$ONLY" != "$sw" ] && continue
  [ -f /verif/selftest/$sw.diff ] || { echo "RESULT mutant=$sw prop=$prop MISSING-PATCH"; continue; }
  /verif/bin/try_mutant.sh ST_$sw /verif/selftest/$sw.diff "0" $prop
done
