//! `corrupt` driver: from the final disk image of a small history, alter one byte (bit flip, zero,
//! random byte) at every offset of every persistent file (table files, write-ahead logs, the
//! manifest, CURRENT), or truncate a table file, then open the image with the real code and read
//! everything. Each probe becomes a check-only `CorruptProbe` event appended to the validated
//! main trace; the trace specification compares what was served with what was written.

use rand::rngs::StdRng;
use rand::{Rng, SeedableRng};
use raindb::DB;
use serde_json::{json, Value};
use std::path::PathBuf;
use std::sync::mpsc;
use std::sync::Arc;
use std::time::Duration;

use crate::common::*;
use crate::hist::{self, HistCfg, ROOT};
use crate::simfs::{classify, Disk, SimFs};
use crate::trace::TraceSink;
use crate::universe::Universe;

/// Which field of the log format (32 KiB blocks, 7-byte fragment headers) an offset falls into.
pub fn classify_log_offset(file: &[u8], off: usize) -> &'static str {
    const BLOCK: usize = 32768;
    const HDR: usize = 7;
    let mut pos = 0usize;
    while pos < file.len() {
        let block_off = pos % BLOCK;
        if BLOCK - block_off < HDR {
            let end = pos + (BLOCK - block_off);
            if off < end {
                return "trailer";
            }
            pos = end;
            continue;
        }
        if pos + HDR > file.len() {
            return "partial";
        }
        let len = u16::from_le_bytes([file[pos + 4], file[pos + 5]]) as usize;
        if off < pos + 4 {
            return "crc";
        }
        if off < pos + 6 {
            return "len";
        }
        if off < pos + 7 {
            return "type";
        }
        if off < pos + HDR + len {
            return "payload";
        }
        pos += HDR + len;
    }
    "past"
}

/// Header damage that makes a log look like it ends in an UNFINISHED record (what a torn final
/// write leaves behind - raindb cannot tell the two apart because length and type are outside
/// the checksum) gets a field name of its own: a length that makes the record run past the end
/// of the file (`len_pasteof`), and the type of the LAST fragment of the file changed from Full
/// to First or from Last to Middle (`type_unfinished`). Every other header damage keeps the
/// plain field name.
pub fn refine_log_field(file: &[u8], off: usize, field: &'static str, new: u8) -> &'static str {
    const BLOCK: usize = 32768;
    const HDR: usize = 7;
    if field != "len" && field != "type" {
        return field;
    }
    // find the fragment whose header holds `off`
    let mut pos = 0usize;
    while pos < file.len() {
        let block_off = pos % BLOCK;
        if BLOCK - block_off < HDR {
            pos += BLOCK - block_off;
            continue;
        }
        if pos + HDR > file.len() {
            return field;
        }
        let len = u16::from_le_bytes([file[pos + 4], file[pos + 5]]) as usize;
        if off < pos + HDR {
            if field == "len" {
                let mut lb = [file[pos + 4], file[pos + 5]];
                lb[off - (pos + 4)] = new;
                let newlen = u16::from_le_bytes(lb) as usize;
                return if pos + HDR + newlen > file.len() { "len_pasteof" } else { "len" };
            }
            let end = pos + HDR + len;
            let rest_is_trailer = end >= file.len()
                || (BLOCK - end % BLOCK < HDR && end + (BLOCK - end % BLOCK) >= file.len());
            let old = file[pos + 6];
            return if rest_is_trailer && ((old == 0 && new == 1) || (old == 3 && new == 2)) {
                "type_unfinished"
            } else {
                "type"
            };
        }
        pos += HDR + len;
    }
    field
}

#[derive(Clone, Debug)]
pub struct Mutation {
    pub field: &'static str,
    pub path: PathBuf,
    pub kind: String,
    pub n: i64,
    pub off: usize,
    /// 0 = bit flip, 1 = zero, 2 = random byte, 3 = truncate at off
    pub mode: u8,
    pub byte: u8,
}

fn apply(disk: &Disk, m: &Mutation) -> Option<Disk> {
    let mut d = disk.clone();
    let f = d.file_mut(&m.path)?;
    if m.mode == 3 {
        if m.off >= f.len() {
            return None;
        }
        f.truncate(m.off);
        return Some(d);
    }
    if m.off >= f.len() {
        return None;
    }
    let old = f[m.off];
    let new = match m.mode {
        0 => old ^ (1 << (m.byte % 8)),
        1 => 0,
        _ => m.byte,
    };
    if new == old {
        return None;
    }
    f[m.off] = new;
    Some(d)
}

fn probe(image: Disk, opts: &OptSet, u: &Arc<Universe>, m: &Mutation) -> Value {
    let fs = SimFs::from_disk(ROOT, image);
    let u2 = Arc::clone(u);
    let o = opts.clone();
    let (tx, rx) = mpsc::channel();
    std::thread::Builder::new()
        .name("cprobe".into())
        .spawn(move || {
            let r = std::panic::catch_unwind(std::panic::AssertUnwindSafe(|| {
                let mut ev = serde_json::Map::new();
                let db = match DB::open(o.to_options(ROOT, &fs)) {
                    Ok(db) => db,
                    Err(e) => {
                        ev.insert("open_ok".into(), json!(false));
                        ev.insert("err".into(), json!(e.to_string()));
                        return Value::Object(ev);
                    }
                };
                ev.insert("open_ok".into(), json!(true));
                let (gets, _errs) = get_all(&db, &u2, None);
                let (f, b) = match db.new_iterator(raindb::ReadOptions::default()) {
                    Ok(mut it) => (
                        iter_forward(&mut it, &u2, 10_000),
                        iter_backward(&mut it, &u2, 10_000),
                    ),
                    Err(e) => (Err(e.to_string()), Err(e.to_string())),
                };
                ev.insert("gets".into(), json!(gets));
                ev.insert("fwdok".into(), json!(f.is_ok()));
                ev.insert("fwd".into(), scan_json(&f));
                ev.insert("bwdok".into(), json!(b.is_ok()));
                ev.insert("bwd".into(), scan_json(&b));
                // a second round of gets after the scans (caches warm, compactions may have run)
                let _ = wait_quiescent(&db, Duration::from_secs(10));
                let (gets2, _) = get_all(&db, &u2, None);
                ev.insert("gets2".into(), json!(gets2));
                // a third round after a manual compaction of everything: the damaged file is now
                // (also) read as a compaction INPUT; whatever the compaction installed or refused
                // to install, what is served must still be right
                db.compact_range(None..None);
                let _ = wait_quiescent(&db, Duration::from_secs(10));
                let (gets3, _) = get_all(&db, &u2, None);
                let f3 = match db.new_iterator(raindb::ReadOptions::default()) {
                    Ok(mut it) => iter_forward(&mut it, &u2, 10_000),
                    Err(e) => Err(e.to_string()),
                };
                ev.insert("gets3".into(), json!(gets3));
                ev.insert("fwd3ok".into(), json!(f3.is_ok()));
                ev.insert("fwd3".into(), scan_json(&f3));
                let bgp = peek_panics().iter().any(|p| p.thread == "bg");
                if bgp {
                    std::mem::forget(db);
                } else {
                    drop(db);
                }
                Value::Object(ev)
            }));
            let _ = tx.send(match r {
                Ok(v) => v,
                Err(_) => json!({"open_ok": false, "err": "panic", "panic": true}),
            });
        })
        .unwrap();
    let mut ev = match rx.recv_timeout(Duration::from_secs(240)) {
        Ok(v) => v,
        Err(_) => json!({"open_ok": false, "err": "hang", "hang": true}),
    };
    let nk = u.n();
    let defaults = json!({"open_ok": false, "err": "", "gets": vec![-1; nk], "gets2": vec![-1; nk],
        "gets3": vec![-1; nk], "fwd3ok": false, "fwd3": [],
        "fwdok": false, "fwd": [], "bwdok": false, "bwd": [], "hang": false, "panic": false});
    if let (Value::Object(e), Value::Object(d)) = (&mut ev, defaults) {
        for (k, v) in d {
            e.entry(k).or_insert(v);
        }
        e.insert("kind".into(), json!(m.kind));
        e.insert("field".into(), json!(m.field));
        e.insert("n".into(), json!(m.n));
        e.insert("off".into(), json!(m.off));
        e.insert("mode".into(), json!(m.mode));
        e.insert("e".into(), json!("CorruptProbe"));
        e.insert("i".into(), json!(0));
        e.insert("t".into(), json!("probe"));
    }
    ev
}

pub fn run_corrupt(
    cfg: &HistCfg,
    u: &Arc<Universe>,
    wd: &Arc<Watchdog>,
    run_no: u64,
    max_probes: usize,
    threads: usize,
) -> (Vec<Value>, hist::HistOutcome, Value) {
    let sink = TraceSink::new(Arc::clone(u));
    let outcome = hist::run_hist(cfg, None, &sink, u, wd, run_no);
    let mut lines = sink.take();
    let disk = outcome.fs.disk();
    let opts = outcome
        .opens
        .last()
        .map(|x| x.1.clone())
        .unwrap_or_else(|| cfg.opts.clone());
    let mut rng = StdRng::seed_from_u64(cfg.seed ^ 0xc0ffee);
    let root = PathBuf::from(ROOT);
    // candidate mutations
    let mut muts: Vec<Mutation> = vec![];
    let mut file_bytes = 0usize;
    for (path, inode) in disk.names.iter() {
        let (kind, n) = classify(&root, path);
        if !["table", "wal", "manifest", "current"].contains(&kind.as_str()) {
            continue;
        }
        let len = disk.inodes.get(inode).map_or(0, |f| f.len());
        file_bytes += len;
        let bytes = disk.inodes.get(inode).cloned().unwrap_or_default();
        for off in 0..len {
            for mode in 0..3u8 {
                let byte: u8 = rng.gen();
                let new = match mode {
                    0 => bytes[off] ^ (1 << (byte % 8)),
                    1 => 0,
                    _ => byte,
                };
                muts.push(Mutation {
                    field: if kind == "wal" || kind == "manifest" {
                        refine_log_field(&bytes, off, classify_log_offset(&bytes, off), new)
                    } else {
                        "any"
                    },
                    path: path.clone(),
                    kind: kind.clone(),
                    n,
                    off,
                    mode,
                    byte,
                });
            }
        }
        if kind == "table" {
            for off in 0..len {
                muts.push(Mutation {
                    field: "any",
                    path: path.clone(),
                    kind: kind.clone(),
                    n,
                    off,
                    mode: 3,
                    byte: 0,
                });
            }
        }
    }
    let total = muts.len();
    let exhaustive = total <= max_probes;
    if !exhaustive {
        // sample uniformly, but keep every mutation of the first/last 16 bytes of each file
        let keep_p = max_probes as f64 / total as f64;
        let lens: std::collections::HashMap<PathBuf, usize> = disk
            .names
            .iter()
            .map(|(p, i)| (p.clone(), disk.inodes.get(i).map_or(0, |f| f.len())))
            .collect();
        muts.retain(|m| {
            let len = lens[&m.path];
            (m.mode < 3 && (m.off < 16 || m.off + 16 >= len)) || rng.gen_bool(keep_p.min(1.0))
        });
    }
    let muts = Arc::new(muts);
    let next = Arc::new(std::sync::atomic::AtomicUsize::new(0));
    let results: Arc<parking_lot::Mutex<Vec<(usize, Value)>>> =
        Arc::new(parking_lot::Mutex::new(vec![]));
    let mut hs = vec![];
    for _ in 0..threads.max(1) {
        let muts = Arc::clone(&muts);
        let next = Arc::clone(&next);
        let results = Arc::clone(&results);
        let disk = disk.clone();
        let u = Arc::clone(u);
        let opts = opts.clone();
        hs.push(std::thread::spawn(move || loop {
            let i = next.fetch_add(1, std::sync::atomic::Ordering::SeqCst);
            if i >= muts.len() {
                break;
            }
            if let Some(img) = apply(&disk, &muts[i]) {
                let ev = probe(img, &opts, &u, &muts[i]);
                results.lock().push((i, ev));
            }
        }));
    }
    for h in hs {
        let _ = h.join();
    }
    take_panics();
    let mut results = std::mem::take(&mut *results.lock());
    results.sort_by_key(|(i, _)| *i);
    let nprobes = results.len();
    let mut by_kind: std::collections::BTreeMap<String, usize> = Default::default();
    for (i, ev) in results {
        *by_kind.entry(muts[i].kind.clone()).or_default() += 1;
        lines.push(ev);
    }
    let stats = json!({"probes": nprobes, "candidate_mutations": total, "exhaustive": exhaustive,
                       "file_bytes": file_bytes, "by_kind": by_kind});
    (lines, outcome, stats)
}
