//! `filterfmt` driver (C14, "filters never hide a key that is present").  Three parts per run:
//!
//! (a) builder / reader protocol: block sequences from the shape space of `spec/RainFilter.tla`
//!     (offsets crossing 0, 1, 2+ range boundaries, several blocks per 2 KiB range, empty ranges,
//!     keys pending at finish, an empty final block) are executed on the REAL
//!     `FilterBlockBuilder` / `FilterBlockReader` (through `VFilterBuilder` / `VFilterReader`),
//!     twice: with the real `BloomFilterPolicy::new(bits)` and with an EXACT policy implemented
//!     here through the public `raindb::FilterPolicy` trait (filter = the serialised key list,
//!     key_may_match = membership), so that a key assigned to the wrong range is visible instead
//!     of being masked by a lucky Bloom hit.  For the exact policy the real filter block is
//!     decoded and logged, so the specification judges the real layout as well.
//! (b) the policy axiom: for bits_per_key 1..=64 and generated key sets (size 0..3000,
//!     duplicates, the empty key, every length mod 4, arbitrary bytes) create_filter +
//!     key_may_match for every member; the count of misses is logged.
//! (c) whole tables built through `build_table` with Bloom and exact policies and several block
//!     sizes; `get` for every stored (key, sequence) - must never be "not in this file".
//!
//! Trace vocabulary (see also tablefmt.rs for Table / Gets):
//!
//!   Reset        {run, seed, tag:"", nk, driver:"filterfmt"}
//!   FilterBuilt  {range:2048, policy:"exact"|"bloom", bits, nf, ok, blocks:[{off, keys:[ids]}...],
//!                 hasf, filters:[[ids]...]}    hasf: `filters` = the decoded real filters
//!   FilterProbes {list:[[off, key, res(0/1)]...]}   answers of the real reader
//!   PolicyProbe  {bits, n, distinct, missing, errs, first, shape}
//!   Table / Gets as in tablefmt (part c)
//!   End          {}

use rand::rngs::StdRng;
use rand::seq::SliceRandom;
use rand::{Rng, SeedableRng};
use raindb::filter_policy::FilterPolicyError;
use raindb::verif::{VFilterBuilder, VFilterReader};
use raindb::{BloomFilterPolicy, FilterPolicy};
use serde_json::{json, Value};
use std::collections::HashMap;
use std::path::PathBuf;
use std::sync::Arc;

use crate::tablefmt::{table_event_fs, big_table, gen_run, obs_gets, table_event, table_key_catalogue, Ctx, Out, Values};
use crate::universe::Universe;

const RANGE: usize = 2048;

// ---------------------------------------------------------------------------------------------
// the exact policy
// ---------------------------------------------------------------------------------------------

/// filter = u32 count, then per key u32 length + bytes.  Never empty for a non-empty key list
/// (an EMPTY filter means "no keys in this range" to the filter block reader).
#[derive(Debug)]
pub struct ExactPolicy;

pub fn exact_decode(filter: &[u8]) -> Option<Vec<Vec<u8>>> {
    if filter.len() < 4 {
        return None;
    }
    let n = u32::from_le_bytes([filter[0], filter[1], filter[2], filter[3]]) as usize;
    let mut at = 4;
    let mut keys = vec![];
    for _ in 0..n {
        if at + 4 > filter.len() {
            return None;
        }
        let len = u32::from_le_bytes([filter[at], filter[at + 1], filter[at + 2], filter[at + 3]]) as usize;
        at += 4;
        if at + len > filter.len() {
            return None;
        }
        keys.push(filter[at..at + len].to_vec());
        at += len;
    }
    if at != filter.len() {
        return None;
    }
    Some(keys)
}

impl FilterPolicy for ExactPolicy {
    fn get_name(&self) -> String {
        "rainverif.Exact".to_string()
    }

    fn create_filter(&self, keys: &[Vec<u8>]) -> Vec<u8> {
        let mut out = (keys.len() as u32).to_le_bytes().to_vec();
        for k in keys {
            out.extend_from_slice(&(k.len() as u32).to_le_bytes());
            out.extend_from_slice(k);
        }
        out
    }

    fn key_may_match(&self, key: &[u8], serialized_filter: &[u8]) -> Result<bool, FilterPolicyError> {
        match exact_decode(serialized_filter) {
            Some(keys) => Ok(keys.iter().any(|k| k.as_slice() == key)),
            None => Err(FilterPolicyError::Parse("exact filter is damaged".to_string())),
        }
    }
}

/// Split a serialised filter block into its filters (layout of filter_block_builder.rs:
/// filters, u32 offsets, u32 offset of the offsets, 1 byte range exponent).
fn split_filter_block(data: &[u8]) -> Option<(Vec<Vec<u8>>, u8)> {
    if data.len() < 5 {
        return None;
    }
    let exp = data[data.len() - 1];
    let body = &data[..data.len() - 1];
    let oo = u32::from_le_bytes(body[body.len() - 4..].try_into().ok()?) as usize;
    if oo > body.len() - 4 || (body.len() - 4 - oo) % 4 != 0 {
        return None;
    }
    let offs: Vec<usize> = body[oo..body.len() - 4]
        .chunks(4)
        .map(|c| u32::from_le_bytes(c.try_into().unwrap()) as usize)
        .collect();
    let mut filters = vec![];
    for i in 0..offs.len() {
        let a = offs[i];
        let b = if i + 1 < offs.len() { offs[i + 1] } else { oo };
        if a > b || b > oo {
            return None;
        }
        filters.push(body[a..b].to_vec());
    }
    Some((filters, exp))
}

// ---------------------------------------------------------------------------------------------
// (a) protocol sequences
// ---------------------------------------------------------------------------------------------

#[derive(Clone, Debug)]
struct Block {
    off: usize,
    keys: Vec<i64>, // ids (1-based index into the run's key list); duplicates allowed
    /// the first block at offset 0 may be started without a start_block call (TableBuilder does)
    implicit: bool,
}

/// Distances between block starts, by what they do to the range index.
fn step_of(class: usize, rng: &mut StdRng, off: usize) -> usize {
    let to_boundary = RANGE - off % RANGE;
    match class {
        0 => rng.gen_range(1..200),                         // several blocks per range (mostly)
        1 => to_boundary.saturating_sub(1).max(1),          // last byte before the boundary
        2 => to_boundary,                                   // exactly onto the boundary
        3 => to_boundary + rng.gen_range(0..RANGE),         // crosses exactly one boundary
        4 => to_boundary + RANGE + rng.gen_range(0..RANGE), // crosses two: one empty range
        _ => to_boundary + RANGE * rng.gen_range(2..6) + rng.gen_range(0..RANGE), // several empty ranges
    }
}

fn gen_keys(rng: &mut StdRng, nk: usize, class: usize) -> Vec<i64> {
    let n = match class {
        0 => 0,
        1 => 1,
        2 => rng.gen_range(2..5),
        _ => rng.gen_range(5..40),
    };
    let mut keys: Vec<i64> = (0..n).map(|_| rng.gen_range(1..=nk as i64)).collect();
    if n > 1 && rng.gen_bool(0.3) {
        let d = keys[0];
        keys.push(d); // duplicate inside one block
    }
    keys
}

/// Every sequence of step classes of length <= 3 with one key per block (the shape space of the
/// small TLC model), then random ones.
fn protocol_sequences(rng: &mut StdRng, nk: usize, random: usize) -> Vec<Vec<Block>> {
    let mut out = vec![];
    let mut next_key = 0usize;
    let mut key = |rng: &mut StdRng| -> i64 {
        next_key += 1;
        if rng.gen_bool(0.2) {
            rng.gen_range(1..=nk as i64)
        } else {
            ((next_key - 1) % nk) as i64 + 1
        }
    };
    for len in 0..=3usize {
        let mut idx = vec![0usize; len];
        loop {
            for first in 0..3 {
                // first block: implicit at 0, explicit at 0, explicit somewhere inside range 0..2
                let mut blocks = vec![];
                let off0 = if first == 2 { rng.gen_range(1..3 * RANGE) } else { 0 };
                let first_empty = rng.gen_bool(0.25);
                blocks.push(Block {
                    off: off0,
                    keys: if first_empty { vec![] } else { vec![key(rng)] },
                    implicit: first == 0,
                });
                let mut off = off0;
                for (j, &c) in idx.iter().enumerate() {
                    off += step_of(c, rng, off);
                    // the last block is empty in a third of the sequences (empty final block)
                    let empty = j + 1 == len && rng.gen_bool(0.33);
                    blocks.push(Block { off, keys: if empty { vec![] } else { vec![key(rng)] }, implicit: false });
                }
                out.push(blocks);
            }
            // next index vector
            let mut j = 0;
            while j < len {
                idx[j] += 1;
                if idx[j] < 6 {
                    break;
                }
                idx[j] = 0;
                j += 1;
            }
            if j == len {
                break;
            }
        }
    }
    for _ in 0..random {
        let n = rng.gen_range(1..9);
        let mut blocks = vec![];
        let implicit = rng.gen_bool(0.5);
        let mut off = if implicit || rng.gen_bool(0.5) { 0 } else { rng.gen_range(1..4 * RANGE) };
        for j in 0..n {
            if j > 0 {
                let class = rng.gen_range(0..6);
                off += step_of(class, rng, off);
            }
            let class = rng.gen_range(0..4);
            blocks.push(Block { off, keys: gen_keys(rng, nk, class), implicit: implicit && j == 0 });
        }
        out.push(blocks);
    }
    out
}

fn run_protocol(
    keys: &[Vec<u8>],
    blocks: &[Block],
    policy: Arc<dyn FilterPolicy>,
    pname: &str,
    bits: usize,
    rng: &mut StdRng,
    lines: &mut Vec<Value>,
) {
    let r = std::panic::catch_unwind(std::panic::AssertUnwindSafe(|| {
        let mut b = VFilterBuilder::new(Arc::clone(&policy));
        for bl in blocks {
            if !bl.implicit {
                b.start_block(bl.off);
            }
            for &k in &bl.keys {
                b.add_key(keys[(k - 1) as usize].clone());
            }
        }
        b.finish()
    }));
    let blocks_json: Vec<Value> = blocks.iter().map(|b| json!({"off": b.off, "keys": b.keys})).collect();
    let data = match r {
        Ok(d) => d,
        Err(_) => {
            lines.push(json!({"e": "FilterBuilt", "range": RANGE, "policy": pname, "bits": bits, "nf": 0,
                "ok": false, "blocks": blocks_json, "hasf": false, "filters": [], "err": "builder panicked"}));
            return;
        }
    };
    let split = split_filter_block(&data);
    let (nf, exp) = split.as_ref().map_or((0, 0), |(f, e)| (f.len(), *e));
    let mut hasf = false;
    let mut filters_json: Vec<Value> = vec![];
    if pname == "exact" {
        if let Some((fs, _)) = &split {
            let ids: HashMap<&[u8], i64> = keys.iter().enumerate().map(|(i, k)| (k.as_slice(), i as i64 + 1)).collect();
            let mut all = true;
            for f in fs {
                if f.is_empty() {
                    filters_json.push(json!([]));
                } else if let Some(ks) = exact_decode(f) {
                    let v: Vec<i64> = ks.iter().map(|k| *ids.get(k.as_slice()).unwrap_or(&-1)).collect();
                    filters_json.push(json!(v));
                } else {
                    all = false;
                }
            }
            hasf = all;
            if !all {
                filters_json.clear();
            }
        }
    }
    let reader = std::panic::catch_unwind(std::panic::AssertUnwindSafe(|| {
        VFilterReader::new(Arc::clone(&policy), data.clone())
    }));
    let reader = match reader {
        Ok(Ok(r)) => Some(r),
        _ => None,
    };
    lines.push(json!({"e": "FilterBuilt", "range": 1usize << exp.min(30), "policy": pname, "bits": bits, "nf": nf,
        "ok": reader.is_some() && split.is_some(), "blocks": blocks_json, "hasf": hasf, "filters": filters_json,
        "err": ""}));
    let reader = match reader {
        Some(r) => r,
        None => return,
    };
    // probes: at every block's offset every key of that block, plus keys of other blocks and
    // unused keys (the specification only constrains the ones that must match)
    let mut list: Vec<[i64; 3]> = vec![];
    let used: Vec<i64> = blocks.iter().flat_map(|b| b.keys.iter().cloned()).collect();
    for bl in blocks {
        let mut probe: Vec<i64> = bl.keys.clone();
        for _ in 0..3 {
            if let Some(k) = used.choose(rng) {
                probe.push(*k);
            }
            probe.push(rng.gen_range(1..=keys.len() as i64));
        }
        probe.sort_unstable();
        probe.dedup();
        for k in probe {
            let res = std::panic::catch_unwind(std::panic::AssertUnwindSafe(|| {
                reader.key_may_match(bl.off as u64, &keys[(k - 1) as usize])
            }));
            // a panic while probing hides the key just as well as `false`
            list.push([bl.off as i64, k, if res.unwrap_or(false) { 1 } else { 0 }]);
        }
    }
    lines.push(json!({"e": "FilterProbes", "list": list}));
}

// ---------------------------------------------------------------------------------------------
// (b) the policy axiom
// ---------------------------------------------------------------------------------------------

fn gen_key_set(rng: &mut StdRng, shape: usize) -> (Vec<Vec<u8>>, &'static str) {
    let n = match rng.gen_range(0..10) {
        0 => 0,
        1 => 1,
        2 => rng.gen_range(2..5),
        3..=5 => rng.gen_range(5..60),
        6..=7 => rng.gen_range(60..500),
        8 => rng.gen_range(500..1500),
        _ => rng.gen_range(1500..=3000),
    };
    let mut keys: Vec<Vec<u8>> = Vec::with_capacity(n + 8);
    let name = match shape % 5 {
        0 => {
            // arbitrary bytes, every length mod 4
            for i in 0..n {
                let len = if rng.gen_bool(0.5) { i % 13 } else { rng.gen_range(0..40) };
                keys.push((0..len).map(|_| rng.gen::<u8>()).collect());
            }
            "random"
        }
        1 => {
            // sequential numbers as text and as integers
            let base: u32 = rng.gen();
            for i in 0..n {
                if i % 2 == 0 {
                    keys.push(format!("{}", base.wrapping_add(i as u32)).into_bytes());
                } else {
                    keys.push(base.wrapping_add(i as u32).to_le_bytes().to_vec());
                }
            }
            "sequential"
        }
        2 => {
            // long shared prefix, tails of length 0..7
            let p: Vec<u8> = vec![b'x'; rng.gen_range(1..70)];
            for i in 0..n {
                let mut k = p.clone();
                for j in 0..(i % 8) {
                    k.push(((i >> (j % 4)) & 0xff) as u8);
                }
                keys.push(k);
            }
            "prefix"
        }
        3 => {
            // runs of 0x00 / 0xff / high-bit bytes (sign handling of the tail bytes)
            for i in 0..n {
                let b = *[0x00u8, 0xff, 0x80, 0x7f].choose(rng).unwrap();
                let mut k = vec![b; i % 11];
                if rng.gen_bool(0.3) {
                    k.push(rng.gen());
                }
                keys.push(k);
            }
            "bytesruns"
        }
        _ => {
            // few distinct keys, many duplicates
            let d = rng.gen_range(1..6);
            let pool: Vec<Vec<u8>> = (0..d).map(|_| (0..rng.gen_range(0..9)).map(|_| rng.gen::<u8>()).collect()).collect();
            for _ in 0..n {
                keys.push(pool.choose(rng).unwrap().clone());
            }
            "duplicates"
        }
    };
    if n > 0 && rng.gen_bool(0.5) {
        keys.push(vec![]); // the empty key
    }
    if keys.len() > 1 && rng.gen_bool(0.5) {
        let d = keys[rng.gen_range(0..keys.len())].clone();
        keys.push(d);
    }
    for len in 0..4 {
        if n > 3 && rng.gen_bool(0.5) {
            keys.push(vec![0xA0 + len as u8; len]); // one key of every length mod 4
        }
    }
    (keys, name)
}

/// `rbits`: bits-per-key setting of the READING policy (the probe count is stored in the filter,
/// so a filter written under one setting must stay readable under any other)
fn policy_probe(bits: usize, rbits: usize, keys: &[Vec<u8>], shape: &str) -> Value {
    let r = std::panic::catch_unwind(|| {
        let p = BloomFilterPolicy::new(bits);
        let reader = BloomFilterPolicy::new(rbits);
        let f = p.create_filter(keys);
        let (mut missing, mut errs, mut first) = (0usize, 0usize, 0usize);
        for (i, k) in keys.iter().enumerate() {
            match reader.key_may_match(k, &f) {
                Ok(true) => {}
                Ok(false) => {
                    missing += 1;
                    if first == 0 {
                        first = i + 1;
                    }
                }
                Err(_) => errs += 1,
            }
        }
        (missing, errs, first, f.len())
    });
    let mut d: Vec<&Vec<u8>> = keys.iter().collect();
    d.sort();
    d.dedup();
    match r {
        Ok((missing, errs, first, flen)) => json!({"e": "PolicyProbe", "bits": bits, "n": keys.len(),
            "distinct": d.len(), "missing": missing, "errs": errs, "first": first, "shape": shape, "flen": flen}),
        // a panic in create_filter / key_may_match: every member counts as missed
        Err(_) => json!({"e": "PolicyProbe", "bits": bits, "n": keys.len(), "distinct": d.len(),
            "missing": keys.len().max(1), "errs": 0, "first": 1, "shape": "panic", "flen": 0}),
    }
}

// ---------------------------------------------------------------------------------------------
// one run
// ---------------------------------------------------------------------------------------------

#[derive(Clone, Debug, serde::Serialize, serde::Deserialize)]
pub struct FilterCfg {
    pub seed: u64,
    /// random protocol sequences in addition to the enumerated ones
    pub random: usize,
    /// key sets per bits_per_key value
    pub sets: usize,
    /// tables (each built for 4 block sizes x 2 policies)
    pub tables: usize,
    /// big (digest-checked) tables, each built for 2 block sizes x 2 policies
    #[serde(default)]
    pub big: usize,
}

pub fn run_filters(cfg: &FilterCfg, run_no: u64) -> (Vec<Value>, usize) {
    let mut rng = StdRng::seed_from_u64(cfg.seed.wrapping_mul(0x9E3779B97F4A7C15) ^ 0xf117e5);
    // key list of the protocol part: adversarial keys; ids = index + 1
    let mut keys = table_key_catalogue(&mut rng);
    keys.retain(|k| k.len() < 1000);
    keys.shuffle(&mut rng);
    keys.truncate(24);
    if !keys.contains(&vec![]) {
        keys.push(vec![]);
    }
    // the table part uses its own ordered universe; nk covers both id spaces
    let mut cat = table_key_catalogue(&mut rng);
    cat.shuffle(&mut rng);
    cat.truncate(rng.gen_range(6..=14));
    let u = Universe::from_keys(cat);
    let nk = keys.len().max(u.n());
    let mut lines = vec![json!({"e": "Reset", "run": run_no, "seed": cfg.seed, "tag": "", "nk": nk,
                                "driver": "filterfmt"})];
    // (a)
    let seqs = protocol_sequences(&mut rng, keys.len(), cfg.random);
    for blocks in &seqs {
        let bits = rng.gen_range(1..=64);
        run_protocol(&keys, blocks, Arc::new(ExactPolicy), "exact", 0, &mut rng, &mut lines);
        run_protocol(&keys, blocks, Arc::new(BloomFilterPolicy::new(bits)), "bloom", bits, &mut rng, &mut lines);
    }
    // (b)
    for bits in 1..=64usize {
        for j in 0..cfg.sets {
            let (ks, shape) = gen_key_set(&mut rng, j + bits);
            lines.push(policy_probe(bits, bits, &ks, shape));
            // the same filter read under other settings (fewer and more probes than it was
            // written with)
            for rbits in [1usize, 10, 64, 1 + (bits * 7 + j) % 64] {
                if rbits != bits {
                    lines.push(policy_probe(bits, rbits, &ks, shape));
                }
            }
        }
    }
    // (c)
    let mut tables = 0usize;
    let mut vals = Values::new();
    let mut number = 1u64;
    for _ in 0..cfg.tables {
        let run = gen_run(&mut rng, &u, &mut vals, 3);
        if run.is_empty() {
            continue;
        }
        let tg: Vec<(i64, u64)> = run.iter().map(|e| (e.k, e.s)).collect();
        let bits = rng.gen_range(1..=64usize);
        for &block in [16usize, 256, 4096, 1 << 22].iter() {
            for exact in [true, false] {
                let policy: Arc<dyn FilterPolicy> = if exact {
                    Arc::new(ExactPolicy)
                } else {
                    Arc::new(BloomFilterPolicy::new(bits))
                };
                number += 1;
                tables += 1;
                let extra = json!({"policy": if exact { "exact" } else { "bloom" }, "bits": if exact { 0 } else { bits }});
                if let Some((t, fs)) = table_event_fs(&u, &run, block, Some(policy), number, &mut lines, extra) {
                    let ctx = Ctx { u: &u, vals: &vals };
                    lines.push(obs_gets(&ctx, &t, &tg));
                    // the same table read with the OTHER policy (another name: the reader has no
                    // filter block to consult and must look into the data blocks for every key)
                    let other: Arc<dyn FilterPolicy> = if exact {
                        Arc::new(BloomFilterPolicy::new(bits))
                    } else {
                        Arc::new(ExactPolicy)
                    };
                    match crate::tablefmt::reopen_with_policy(&fs, block, other, number) {
                        Ok(t2) => lines.push(obs_gets(&ctx, &t2, &tg)),
                        Err(e) => lines.push(json!({"e": "Gets", "list": [], "err": e})),
                    }
                }
            }
        }
    }
    for _ in 0..cfg.big {
        let n = *[1000usize, 3000, 8000].choose(&mut rng).unwrap();
        let bits = rng.gen_range(1..=64usize);
        for &block in [64usize, 4096].iter() {
            for exact in [true, false] {
                let policy: Arc<dyn FilterPolicy> = if exact {
                    Arc::new(ExactPolicy)
                } else {
                    Arc::new(BloomFilterPolicy::new(bits))
                };
                number += 1;
                tables += 1;
                big_table(&mut rng, n, block, Some(policy), number, &mut lines);
            }
        }
    }
    (lines, tables)
}

pub fn cmd(m: &HashMap<String, String>) -> i32 {
    let out = PathBuf::from(m.get("out").cloned().unwrap_or_else(|| "/verif/out/c14/filterfmt".into()));
    let seed0: u64 = crate::arg_of(m, "seed", 1);
    let runs: u64 = crate::arg_of(m, "runs", 2);
    let mut cfgs: Vec<FilterCfg> = (seed0..seed0 + runs)
        .map(|seed| FilterCfg {
            seed,
            random: crate::arg_of(m, "random", 100),
            sets: crate::arg_of(m, "sets", 5),
            tables: crate::arg_of(m, "tables", 6),
            big: crate::arg_of(m, "big", 1),
        })
        .collect();
    if let Some(p) = m.get("replay") {
        let v: Value = serde_json::from_str(&std::fs::read_to_string(p).expect("replay file")).unwrap();
        cfgs = vec![serde_json::from_value(v["cfg"].clone()).expect("replay cfg")];
    }
    let mut o = Out::new(out);
    for (i, cfg) in cfgs.iter().enumerate() {
        let (lines, tables) = run_filters(cfg, i as u64 + 1);
        let panics = crate::common::take_panics();
        o.add_run(
            lines,
            json!({"seed": cfg.seed, "status": "ok", "tables": tables, "panics": panics.len()}),
            json!({"driver": "filterfmt", "seed": cfg.seed, "cfg": cfg}),
        );
    }
    o.finish();
    0
}
