//! `sched` driver: forced schedules of real threads. A victim operation is suspended at one of
//! the points where raindb does not hold its mutex (hook `sched_point`), or between creating and
//! using a snapshot/iterator; while it is suspended a script of complete operations runs
//! (overwrites, memtable rotation, flush, compaction with obsolete-file deletion, queued writers,
//! concurrent readers); then the victim resumes. Every call and return is logged with the global
//! event order; the write order comes from the `Commit` hook. RainConc_Trace.tla decides.

use parking_lot::{Condvar, Mutex};
use rand::rngs::StdRng;
use rand::{Rng, SeedableRng};
use raindb::{Batch, ReadOptions, WriteOptions, DB};
use serde_json::{json, Value};
use std::collections::{HashMap, HashSet};
use std::sync::mpsc;
use std::sync::Arc;
use std::time::{Duration, Instant};

use crate::common::*;
use crate::simfs::SimFs;
use crate::trace::{thread_label, Controller, SinkObserver, TraceSink};
use crate::universe::Universe;

pub const ROOT: &str = "/simdb";

#[derive(Default)]
struct CtlState {
    /// thread -> (point, nth occurrence) at which it must park
    pause: HashMap<String, (String, usize)>,
    hits: HashMap<(String, String), usize>,
    parked: HashMap<String, String>,
    release: HashSet<String>,
    waiting: HashMap<String, String>,
    /// threads that park at EVERY point (schedule replay)
    gate: HashSet<String>,
    /// how often each thread has parked so far
    parks: HashMap<String, u64>,
}

pub struct Ctl {
    st: Mutex<CtlState>,
    cv: Condvar,
}

impl Ctl {
    pub fn new() -> Arc<Ctl> {
        Arc::new(Ctl {
            st: Mutex::new(CtlState::default()),
            cv: Condvar::new(),
        })
    }

    pub fn arm(&self, thread: &str, point: &str, nth: usize) {
        let mut st = self.st.lock();
        st.pause
            .insert(thread.to_string(), (point.to_string(), nth));
        st.release.remove(thread);
    }

    /// how often the thread has passed the point so far
    pub fn hits(&self, thread: &str, point: &str) -> usize {
        self.st
            .lock()
            .hits
            .get(&(thread.to_string(), point.to_string()))
            .copied()
            .unwrap_or(0)
    }

    /// Like `arm`, for the next time the thread passes the point (whatever happened before).
    pub fn arm_next(&self, thread: &str, point: &str) {
        let mut st = self.st.lock();
        let seen = st
            .hits
            .get(&(thread.to_string(), point.to_string()))
            .copied()
            .unwrap_or(0);
        st.pause
            .insert(thread.to_string(), (point.to_string(), seen + 1));
        st.release.remove(thread);
    }

    /// From now on the named threads park at every point they pass.
    pub fn gate(&self, threads: &[&str]) {
        let mut st = self.st.lock();
        for t in threads {
            st.gate.insert(t.to_string());
        }
    }

    /// Stop gating and let every parked thread go.
    pub fn ungate_all(&self) {
        let mut st = self.st.lock();
        st.gate.clear();
        st.pause.clear();
        let parked: Vec<String> = st.parked.keys().cloned().collect();
        for t in parked {
            st.release.insert(t);
        }
        self.cv.notify_all();
    }

    pub fn is_parked(&self, thread: &str) -> bool {
        self.st.lock().parked.contains_key(thread)
    }

    /// Let a parked thread run; wait until it has parked again, announced a condition variable
    /// wait, `finished()` says so, or `timeout` passed. Returns false if it was not parked.
    pub fn step(&self, thread: &str, timeout: Duration, finished: &dyn Fn() -> bool) -> bool {
        let mut st = self.st.lock();
        if !st.parked.contains_key(thread) {
            return false;
        }
        let before = st.parks.get(thread).copied().unwrap_or(0);
        st.release.insert(thread.to_string());
        self.cv.notify_all();
        let t0 = Instant::now();
        loop {
            let now = st.parks.get(thread).copied().unwrap_or(0);
            if now > before || st.waiting.contains_key(thread) || finished() {
                return true;
            }
            if t0.elapsed() > timeout {
                return true;
            }
            self.cv.wait_for(&mut st, Duration::from_millis(2));
        }
    }

    /// Park the calling thread at a driver-level point (between two API calls of the victim).
    pub fn manual_point(&self, name: &'static str) {
        self.sched_point(name);
    }

    pub fn wait_parked(&self, thread: &str, timeout: Duration) -> bool {
        let t0 = Instant::now();
        let mut st = self.st.lock();
        while !st.parked.contains_key(thread) {
            if t0.elapsed() > timeout {
                return false;
            }
            self.cv.wait_for(&mut st, Duration::from_millis(20));
        }
        true
    }

    pub fn wait_waiting(&self, thread: &str, timeout: Duration) -> bool {
        let t0 = Instant::now();
        let mut st = self.st.lock();
        while !st.waiting.contains_key(thread) {
            if t0.elapsed() > timeout {
                return false;
            }
            self.cv.wait_for(&mut st, Duration::from_millis(20));
        }
        true
    }

    pub fn release(&self, thread: &str) {
        let mut st = self.st.lock();
        st.pause.remove(thread);
        st.release.insert(thread.to_string());
        self.cv.notify_all();
    }
}

impl Controller for Ctl {
    fn sched_point(&self, name: &'static str) {
        let t = thread_label();
        let mut st = self.st.lock();
        let c = st.hits.entry((t.clone(), name.to_string())).or_insert(0);
        *c += 1;
        let n = *c;
        let hit = st.gate.contains(&t)
            || matches!(st.pause.get(&t), Some((p, nth)) if p == name && *nth == n);
        if hit {
            *st.parks.entry(t.clone()).or_insert(0) += 1;
            st.parked.insert(t.clone(), name.to_string());
            self.cv.notify_all();
            while !st.release.contains(&t) {
                self.cv.wait(&mut st);
            }
            st.parked.remove(&t);
            st.release.remove(&t);
        }
    }

    fn about_to_wait(&self, which: &'static str) {
        let t = thread_label();
        let mut st = self.st.lock();
        st.waiting.insert(t, which.to_string());
        self.cv.notify_all();
    }

    fn on_event(&self, name: &'static str) {
        // the IterDrop hook fires in the iterator's cleanup before it takes the mutex: a pause
        // point like the others (whatever the cleanup looked at before, a version can be
        // installed before it releases its view)
        if name == "IterDrop" {
            self.sched_point("iter_drop");
        }
    }

    fn woke(&self, _which: &'static str) {
        let t = thread_label();
        let mut st = self.st.lock();
        st.waiting.remove(&t);
    }

    fn bg_idle(&self) {}
}

// ---------------------------------------------------------------------------------------------

#[derive(Clone, Debug)]
pub enum Victim {
    Get { k: i64 },
    SnapGet { k: i64 },
    Scan,
    SnapScan,
    Put { k: i64 },
    Batch { keys: Vec<i64>, big: bool },
}

#[derive(Clone, Debug)]
pub struct Scenario {
    pub name: String,
    pub victim: Victim,
    pub point: String,
    pub nth: usize,
    pub script: String,
    pub memtable: usize,
}

pub struct Env {
    pub db: Arc<DB>,
    pub sink: Arc<TraceSink>,
    pub u: Arc<Universe>,
    pub ctl: Arc<Ctl>,
    pub next_vid: Mutex<i64>,
}

impl Env {
    fn fresh_vid(&self) -> i64 {
        let mut v = self.next_vid.lock();
        *v += 1;
        if *v >= 900 && *v < 1000 {
            *v = 1000;
        }
        *v
    }

    fn call(&self, op: &str, k: i64, ops: Vec<[i64; 3]>) {
        self.sink
            .emit_json("Call", json!({"op": op, "k": k, "ops": ops}));
    }

    fn ret(&self, ok: bool, res: i64, fwd: Option<Vec<[i64; 2]>>) {
        let fwdok = fwd.is_some();
        self.sink.emit_json(
            "Ret",
            json!({"ok": ok, "res": res, "fwdok": fwdok, "fwd": fwd.unwrap_or_default()}),
        );
    }

    pub fn put(&self, k: i64, len: usize) -> bool {
        self.put_opt(k, len, false)
    }

    /// put of an incompressible value
    pub fn put_opt_raw(&self, k: i64, len: usize) -> bool {
        let vid = self.fresh_vid();
        self.call("put", k, vec![[k, 1, vid]]);
        let r = self.db.put(
            WriteOptions::default(),
            self.u.key(k).clone(),
            Universe::make_value(vid, len, false),
        );
        self.ret(r.is_ok(), 0, None);
        r.is_ok()
    }

    /// put with `WriteOptions::synchronous` (a synchronous writer is never taken into the group
    /// of a non-synchronous leader)
    pub fn put_opt(&self, k: i64, len: usize, synchronous: bool) -> bool {
        let vid = self.fresh_vid();
        self.call("put", k, vec![[k, 1, vid]]);
        let r = self.db.put(
            WriteOptions { synchronous },
            self.u.key(k).clone(),
            Universe::make_value(vid, len, true),
        );
        self.ret(r.is_ok(), 0, None);
        r.is_ok()
    }

    pub fn batch(&self, keys: &[i64], len: usize) -> bool {
        let mut b = Batch::new();
        let mut ops = vec![];
        for (i, k) in keys.iter().enumerate() {
            // every batch contains at least one put (the first operation) so that the commit it
            // belongs to can be identified by value id
            if i > 0 && i % 3 == 2 {
                b.add_delete(self.u.key(*k).clone());
                ops.push([*k, 0, 0]);
            } else {
                let vid = self.fresh_vid();
                b.add_put(self.u.key(*k).clone(), Universe::make_value(vid, len, true));
                ops.push([*k, 1, vid]);
            }
        }
        self.call("batch", 0, ops);
        let r = self.db.apply(WriteOptions::default(), b);
        self.ret(r.is_ok(), 0, None);
        r.is_ok()
    }

    pub fn get(&self, k: i64) -> i64 {
        self.call("get", k, vec![]);
        let (v, _) = get_id(&self.db, &self.u, k, None);
        self.ret(v != -1, v, None);
        v
    }

    /// snapshot, (optional park), get through the snapshot, release
    pub fn snap_get(&self, k: i64, park: bool) {
        let snap = self.db.get_snapshot();
        if park {
            self.ctl.manual_point("between_capture_and_use");
        }
        self.call("snapget", k, vec![]);
        let (v, _) = get_id(&self.db, &self.u, k, Some(&snap));
        self.ret(v != -1, v, None);
        self.db.release_snapshot(snap);
    }

    /// iterator (optionally on a fresh snapshot), (optional park), full forward scan
    pub fn scan(&self, with_snapshot: bool, park: bool) {
        let snap = if with_snapshot {
            Some(self.db.get_snapshot())
        } else {
            None
        };
        let ro = ReadOptions {
            fill_cache: true,
            snapshot: snap.clone(),
        };
        let it = self.db.new_iterator(ro);
        if park {
            self.ctl.manual_point("between_capture_and_use");
        }
        self.call(if with_snapshot { "snapscan" } else { "scan" }, 0, vec![]);
        let res = match it {
            Ok(mut it) => iter_forward(&mut it, &self.u, 10_000).ok(),
            Err(_) => None,
        };
        self.ret(res.is_some(), 0, res);
        if let Some(s) = snap {
            self.db.release_snapshot(s);
        }
    }
}

fn spawn_named<T: Send + 'static>(
    name: &str,
    f: impl FnOnce() -> T + Send + 'static,
) -> mpsc::Receiver<T> {
    let (tx, rx) = mpsc::channel();
    std::thread::Builder::new()
        .name(name.to_string())
        .spawn(move || {
            let r = f();
            let _ = tx.send(r);
        })
        .unwrap();
    rx
}

pub fn scenarios(rng: &mut StdRng, quick: bool) -> Vec<Scenario> {
    let mut out = vec![];
    let reader_points = ["get_before_mem", "get_before_imm", "get_before_version"];
    let scripts = ["overwrite_rotate", "overwrite_flush", "flush_compact", "delete_flush_compact"];
    for script in scripts {
        for p in reader_points {
            // the memtable holds key 2; the later points are only reached for a key that is not
            // in the memtable (key 4 lives in a table file only)
            let hot = if p == "get_before_mem" { 2 } else { 4 };
            out.push(Scenario {
                name: format!("get@{}/{}", p, script),
                victim: Victim::Get { k: hot },
                point: p.to_string(),
                nth: 1,
                script: script.to_string(),
                memtable: 4000,
            });
        }
        for v in [Victim::SnapGet { k: 2 }, Victim::Scan, Victim::SnapScan] {
            out.push(Scenario {
                name: format!("{:?}@capture/{}", v, script),
                victim: v,
                point: "between_capture_and_use".to_string(),
                nth: 1,
                script: script.to_string(),
                memtable: 4000,
            });
        }
    }
    // an iterator suspended at the very beginning of its clean-up (its view still held) while
    // flushes, a compaction and a deletion pass go by: the view must be given back all the same
    for script in ["flush_compact", "delete_flush_compact"] {
        out.push(Scenario {
            name: format!("Scan@iter_drop/{}", script),
            victim: Victim::Scan,
            point: "iter_drop".to_string(),
            nth: 1,
            script: script.to_string(),
            memtable: 4000,
        });
    }
    // a get that FAILS (one transient read fault) after a newer version was installed while it was
    // suspended: it holds the last reference to the superseded version and must give it back
    for p in ["get_before_imm", "get_before_version"] {
        out.push(Scenario {
            name: format!("get@{}/flush_compact_readfault", p),
            victim: Victim::Get { k: 4 },
            point: p.to_string(),
            nth: 1,
            script: "flush_compact_readfault".to_string(),
            memtable: 4000,
        });
    }
    let writer_points: Vec<(&str, usize)> = vec![
        ("write_before_wal", 1),
        ("write_after_wal", 1),
        ("write_between_inserts", 1),
        ("write_between_inserts", 2),
        ("write_after_mem", 1),
    ];
    for script in [
        "readers",
        "queue_and_readers",
        "queue_big_follower",
        "queue_sync_follower",
        "queue_split_follower",
        "compact_while_parked",
        "queue_wal_fault",
    ] {
        for (p, nth) in &writer_points {
            if script == "queue_wal_fault" && *p != "write_before_wal" {
                continue;
            }
            let victims = vec![
                Victim::Put { k: 2 },
                Victim::Batch {
                    keys: vec![1, 2, 3],
                    big: false,
                },
                Victim::Batch {
                    keys: vec![2, 3, 4, 5, 1, 2],
                    big: true,
                },
            ];
            for v in victims {
                if matches!(v, Victim::Put { .. }) && *p == "write_between_inserts" && *nth == 2 {
                    continue;
                }
                out.push(Scenario {
                    name: format!("{:?}@{}#{}/{}", v, p, nth, script),
                    victim: v,
                    point: p.to_string(),
                    nth: *nth,
                    script: script.to_string(),
                    memtable: 400,
                });
            }
        }
    }
    // reads that open table files for the first time, several at the same instant
    for n in [2usize, 3] {
        for reuse in [false, true] {
            out.push(Scenario {
                name: format!("coldopen@size#{}/{}", n, if reuse { "reuse" } else { "fresh" }),
                victim: Victim::Get { k: 1 },
                point: "size".to_string(),
                nth: n,
                script: "cold_open".to_string(),
                memtable: if reuse { 1 } else { 0 },
            });
        }
    }
    // a manual compaction over two files that are not neighbours; a memtable whose keys lie in
    // the gap between them is flushed from inside the merge loop (RainCore: CompactPickRange +
    // FlushInstall during a compaction)
    out.push(Scenario {
        name: "manual@compact_loop/flush_into_gap".to_string(),
        victim: Victim::Get { k: 1 },
        point: "compact_loop".to_string(),
        nth: 1,
        script: "manual_gap".to_string(),
        memtable: 4000,
    });
    // a manual compaction whose merge is interrupted by a memtable flush (RainManual: BMergeFlush)
    for second_caller in [false, true] {
        out.push(Scenario {
            name: format!(
                "manual@compact_loop/rotate{}",
                if second_caller { "+caller" } else { "" }
            ),
            victim: Victim::Get { k: 1 },
            point: "compact_loop".to_string(),
            nth: if second_caller { 2 } else { 1 },
            script: "manual_rotate".to_string(),
            memtable: 4000,
        });
    }
    // ... interrupted LATE: the worker is suspended in the merge loop after it has finished at
    // least one output table and opened the next; the flush from inside the loop runs a deletion
    // pass while finished, not yet installed outputs exist
    out.push(Scenario {
        name: "manual@compact_loop#late/rotate".to_string(),
        victim: Victim::Get { k: 1 },
        point: "compact_loop".to_string(),
        nth: 1,
        script: "manual_late".to_string(),
        memtable: 4000,
    });
    if quick {
        // keep all reader scenarios and a random half of the writer ones
        let n = out.len();
        let mut keep = vec![];
        for (i, s) in out.into_iter().enumerate() {
            if i < 24 || rng.gen_bool(0.6) || i + 9 > n {
                keep.push(s);
            }
        }
        return keep;
    }
    out
}

pub struct SchedOutcome {
    pub lines: Vec<Value>,
    pub parked: bool,
    pub status: String,
}

/// Several threads read keys that live in different table files right after the database was
/// reopened (nothing is cached): the threads are lined up at the size query inside Table::open
/// and let go together, so that the table-cache / block-cache bookkeeping of the opens races.
fn run_cold_open(sc: &Scenario, seed: u64, run_no: u64) -> SchedOutcome {
    const ROUNDS: usize = 30;
    let u = Arc::new(Universe::plain(16));
    let sink = TraceSink::new(Arc::clone(&u));
    watch_sink(&sink);
    let fs = SimFs::new(ROOT);
    let ctl = Ctl::new();
    let install = |sink: &Arc<TraceSink>, ctl: &Arc<Ctl>| {
        raindb::verif::install(
            ROOT,
            Arc::new(SinkObserver {
                sink: Arc::clone(sink),
                want_contents: false,
                ctl: Some(ctl.clone() as Arc<dyn Controller>),
                lazy_gets: Mutex::new(Default::default()),
                bg_active: std::sync::atomic::AtomicBool::new(true),
                mute: vec![
                    "GetDone",
                    "IterDrop",
                    "IterDropped",
                    "BgBegin",
                    "BgEnd",
                    "ObsoleteCollected",
                    "OutputOpened",
                    "FlushBuilt",
                ],
            }),
        );
    };
    install(&sink, &ctl);
    take_panics();
    sink.emit_json(
        "Reset",
        json!({"run": run_no, "seed": seed, "nk": u.n(), "driver": "sched", "tag": sc.name}),
    );
    let opts = OptSet {
        memtable: 4000,
        file: 600,
        block: 64,
        reuse: sc.memtable == 1,
    };
    let mut status = "ok".to_string();
    let fail = |sink: &Arc<TraceSink>, what: String| {
        sink.emit_json("Hang", json!({ "what": what }));
        SchedOutcome {
            lines: sink.take(),
            parked: false,
            status: "openfail".into(),
        }
    };
    let db = match DB::open(opts.to_options(ROOT, &fs)) {
        Ok(db) => Arc::new(db),
        Err(e) => return fail(&sink, format!("open failed {}", e)),
    };
    let next_vid = {
        let env = Env {
            db: Arc::clone(&db),
            sink: Arc::clone(&sink),
            u: Arc::clone(&u),
            ctl: ctl.clone(),
            next_vid: Mutex::new(0),
        };
        // one table file per key (values of 300 bytes against 600-byte files), then everything
        // merged into level 1 or deeper: the files do not overlap
        for k in 1..=16 {
            env.put(k, 300);
            let _ = db.verif_force_flush();
        }
        let _ = wait_quiescent(&db, Duration::from_secs(60));
        db.compact_range(None..None);
        let _ = wait_quiescent(&db, Duration::from_secs(60));
        let v = *env.next_vid.lock();
        v
    };
    // several rounds of: close, reopen (nothing cached), racing first reads, reads through
    // whatever the racing opens left in the caches
    let n = sc.nth;
    let mut next_vid = next_vid;
    let mut met = 0;
    let mut db = db;
    let mut env_last: Option<Arc<Env>> = None;
    for _round in 0..ROUNDS {
        drop(env_last.take());
        match Arc::try_unwrap(db) {
            Ok(d) => drop(d),
            Err(_) => return fail(&sink, "handle still shared".into()),
        }
        raindb::verif::clear(ROOT);
        install(&sink, &ctl);
        db = match DB::open(opts.to_options(ROOT, &fs)) {
            Ok(d) => Arc::new(d),
            Err(e) => return fail(&sink, format!("reopen failed {}", e)),
        };
        let _ = wait_quiescent(&db, Duration::from_secs(60));
        let env = Arc::new(Env {
            db: Arc::clone(&db),
            sink: Arc::clone(&sink),
            u: Arc::clone(&u),
            ctl: ctl.clone(),
            next_vid: Mutex::new(next_vid),
        });
        // groups of n keys that are far apart (different files), each key read for the first
        // time since the reopen
        let stride = 16 / n as i64;
        for g in 0..stride {
            fs.set_rendezvous("size", n, 100);
            let mut rxs = vec![];
            for i in 0..n {
                let e2 = Arc::clone(&env);
                let name = format!("r{}", i + 1);
                let k = 1 + g + (i as i64) * stride;
                rxs.push((
                    name.clone(),
                    spawn_named(&name, move || {
                        e2.get(k);
                    }),
                ));
            }
            for (name, rx) in rxs {
                if rx.recv_timeout(Duration::from_secs(60)).is_err() {
                    sink.emit_json("Hang", json!({"what": format!("cold reader {}", name)}));
                    status = "hang".into();
                }
            }
            met += fs.set_rendezvous("size", 0, 0);
            if status != "ok" {
                break;
            }
        }
        if status == "ok" {
            // whatever the racing opens left in the caches is used from now on
            for k in 1..=16 {
                env.get(k);
            }
            let _ = wait_quiescent(&db, Duration::from_secs(60));
        }
        next_vid = *env.next_vid.lock();
        env_last = Some(env);
        if status != "ok" {
            break;
        }
    }
    if status == "ok" {
        let env = env_last.as_ref().unwrap();
        env.scan(false, false);
        env.put(3, 40);
        env.get(3);
        let _ = wait_quiescent(&db, Duration::from_secs(60));
    }
    let env = env_last.take().unwrap();
    for p in peek_panics() {
        sink.emit_json(
            "Panic",
            json!({"thread": p.thread, "msg": p.message, "loc": p.location}),
        );
        status = "panic".into();
    }
    take_panics();
    drop(env);
    if status == "ok" {
        match Arc::try_unwrap(db) {
            Ok(db) => {
                let rx = spawn_named("closer", move || drop(db));
                if rx.recv_timeout(Duration::from_secs(60)).is_err() {
                    sink.emit_json("Hang", json!({"what": "close"}));
                    status = "hang".into();
                }
            }
            Err(db) => std::mem::forget(db),
        }
    } else {
        std::mem::forget(db);
    }
    raindb::verif::clear(ROOT);
    SchedOutcome {
        lines: sink.take(),
        parked: met > 0,
        status,
    }
}

/// compact_range while the worker is suspended inside the merge loop of the manual compaction;
/// meanwhile a writer rotates the memtable, so that the worker - once released - flushes it from
/// inside the loop and wakes everybody who waits for background work (the compact_range caller,
/// optionally a second one). Everybody must return.
fn run_manual_rotate(sc: &Scenario, seed: u64, run_no: u64) -> SchedOutcome {
    const BG: &str = "bg";
    let u = Arc::new(Universe::plain(6));
    let sink = TraceSink::new(Arc::clone(&u));
    watch_sink(&sink);
    let fs = SimFs::new(ROOT);
    let ctl = Ctl::new();
    raindb::verif::install(
        ROOT,
        Arc::new(SinkObserver {
            sink: Arc::clone(&sink),
            want_contents: false,
            ctl: Some(ctl.clone() as Arc<dyn Controller>),
            lazy_gets: Mutex::new(Default::default()),
            bg_active: std::sync::atomic::AtomicBool::new(true),
            mute: vec![
                "GetDone",
                "IterDrop",
                "IterDropped",
                "BgBegin",
                "BgEnd",
                "ObsoleteCollected",
                "OutputOpened",
                "FlushBuilt",
            ],
        }),
    );
    take_panics();
    sink.emit_json(
        "Reset",
        json!({"run": run_no, "seed": seed, "nk": u.n(), "driver": "sched", "tag": sc.name}),
    );
    let opts = OptSet {
        memtable: sc.memtable,
        file: 600,
        block: 64,
        reuse: false,
    };
    let db = match DB::open(opts.to_options(ROOT, &fs)) {
        Ok(db) => Arc::new(db),
        Err(e) => {
            sink.emit_json("Hang", json!({"what": format!("open failed {}", e)}));
            return SchedOutcome {
                lines: sink.take(),
                parked: false,
                status: "openfail".into(),
            };
        }
    };
    let env = Arc::new(Env {
        db: Arc::clone(&db),
        sink: Arc::clone(&sink),
        u: Arc::clone(&u),
        ctl: ctl.clone(),
        next_vid: Mutex::new(0),
    });
    let mut status = "ok".to_string();
    if sc.script == "manual_gap" {
        // level 2: [k1] and [k3]; level 1 (pushed no deeper because of level 2): [k1] and [k3]
        // again; key 2 nowhere. The manual compaction of level 1 takes both level-1 files and
        // both level-2 files; its output in level 2 covers k1..k3
        for _generation in 0..2 {
            for k in [1, 3] {
                env.put(k, 200);
                let _ = db.verif_force_flush();
                let _ = wait_quiescent(&db, Duration::from_secs(60));
            }
        }
    } else if sc.script == "manual_late" {
        // two generations of every key in different files, both KEPT (a snapshot in between),
        // 300 incompressible bytes each: every round of the manual compaction writes two or
        // three output tables of 600 bytes
        for round in 0..2 {
            for k in 1..=6 {
                env.put_opt_raw(k, 300);
                if k % 3 == 0 {
                    let _ = db.verif_force_flush();
                }
            }
            let _ = wait_quiescent(&db, Duration::from_secs(60));
            if round == 0 {
                // (never released: the scenario leaks the database handle's snapshot list with it)
                std::mem::forget(db.get_snapshot());
            }
        }
    } else {
        // two generations of every key in different files, so that the manual compaction is a
        // merge
        for round in 0..2 {
            for k in 1..=6 {
                env.put(k, 200);
                if k % 2 == 0 {
                    let _ = db.verif_force_flush();
                }
            }
            let _ = wait_quiescent(&db, Duration::from_secs(60));
            let _ = round;
        }
    }
    if sc.script == "manual_late" {
        // (six entries of about 300 bytes per round, 600-byte output files: at the fifth pass
        // through the loop the first output is finished and the second one at least opened)
        ctl.arm_next(BG, "compact_loop");
        let seen = ctl.hits(BG, "compact_loop");
        ctl.arm(BG, "compact_loop", seen + 5);
    } else {
        ctl.arm_next(BG, "compact_loop");
    }
    let mut callers: Vec<(String, mpsc::Receiver<()>)> = vec![];
    let d2 = Arc::clone(&db);
    callers.push((
        "mc1".into(),
        spawn_named("mc1", move || d2.compact_range(None..None)),
    ));
    let parked = ctl.wait_parked(BG, Duration::from_secs(5));
    if parked {
        if sc.nth == 2 {
            let d3 = Arc::clone(&db);
            callers.push((
                "mc2".into(),
                spawn_named("mc2", move || d3.compact_range(None..None)),
            ));
            ctl.wait_waiting("mc2", Duration::from_secs(3));
        }
        // rotate the memtable while the worker is suspended: the second caller's
        // force_memtable_compaction does it, otherwise a writer (one value larger than the
        // budget, then one more write); neither is waited for before the worker is released
        if sc.script == "manual_gap" {
            // key 2 lies in the gap between the inputs; the large value forces the rotation
            let e2 = Arc::clone(&env);
            callers.push((
                "wr".into(),
                spawn_named("wr", move || {
                    e2.put(2, 5000);
                    e2.put(2, 40);
                }),
            ));
        } else if sc.nth != 2 {
            let e2 = Arc::clone(&env);
            callers.push((
                "wr".into(),
                spawn_named("wr", move || {
                    e2.put(6, 5000);
                    e2.put(1, 40);
                }),
            ));
        }
        let t0 = Instant::now();
        while t0.elapsed() < Duration::from_secs(3) {
            match db.verif_try_state(Duration::from_secs(1)) {
                Some(d) if d.has_imm => break,
                _ => std::thread::sleep(Duration::from_millis(5)),
            }
        }
        ctl.release(BG);
    }
    for (name, rx) in callers {
        if rx.recv_timeout(Duration::from_secs(60)).is_err() {
            sink.emit_json("Hang", json!({"what": format!("caller {}", name)}));
            status = "hang".into();
        }
    }
    if status == "ok" {
        let e2 = Arc::clone(&env);
        let rx = spawn_named("w1", move || {
            for k in 1..=6 {
                e2.put(k, 40);
                e2.get(k);
            }
            e2.scan(false, false);
        });
        if rx.recv_timeout(Duration::from_secs(60)).is_err() {
            sink.emit_json("Hang", json!({"what": "writer after manual compaction"}));
            status = "hang".into();
        }
    }
    if status == "ok" && wait_quiescent(&db, Duration::from_secs(60)).is_none() {
        sink.emit_json("Hang", json!({"what": "background work does not settle"}));
        status = "hang".into();
    }
    if status == "ok" {
        emit_quiet(&env, &db, &fs, &sink);
    }
    for p in peek_panics() {
        sink.emit_json(
            "Panic",
            json!({"thread": p.thread, "msg": p.message, "loc": p.location}),
        );
        status = "panic".into();
    }
    take_panics();
    drop(env);
    if status == "ok" {
        match Arc::try_unwrap(db) {
            Ok(db) => {
                let rx = spawn_named("closer", move || drop(db));
                if rx.recv_timeout(Duration::from_secs(60)).is_err() {
                    sink.emit_json("Hang", json!({"what": "close"}));
                    status = "hang".into();
                }
            }
            Err(db) => std::mem::forget(db),
        }
    } else {
        std::mem::forget(db);
    }
    raindb::verif::clear(ROOT);
    SchedOutcome {
        lines: sink.take(),
        parked,
        status,
    }
}

/// One more flush (whose deletion pass also reclaims what an earlier pass had to leave to a
/// racing reader), then the `Quiet` event: number of linked versions, tables of the current
/// version, tables on disk.
fn emit_quiet(env: &Arc<Env>, db: &Arc<DB>, fs: &SimFs, sink: &Arc<TraceSink>) {
    env.put(1, 40);
    let _ = db.verif_force_flush();
    if let Some(d) = wait_quiescent(db, Duration::from_secs(60)) {
        let cur: Vec<u64> = d.levels.iter().flat_map(|l| l.iter().map(|f| f.number)).collect();
        let rootp = std::path::Path::new(ROOT);
        let tables: Vec<i64> = fs
            .disk()
            .listing()
            .iter()
            .filter_map(|p| {
                let (kind, n) = crate::simfs::classify(rootp, std::path::Path::new(p));
                if kind == "table" {
                    Some(n)
                } else {
                    None
                }
            })
            .collect();
        sink.emit_json(
            "Quiet",
            json!({"live": d.live_versions, "cur": cur, "tables": tables,
                   "bad": d.bad_state.is_some()}),
        );
    }
}

/// Replay of one behaviour of the RainConc model (spec/RainConc_Gen.tla): the threads of the
/// model (w1: batch of keys 1 and 2, w2: put 1, w3: put 2, r1: get 1, r2: snapshot + get 1, bg)
/// park at every point where they do not hold the database mutex; for every entry of the
/// schedule the named thread, if parked, runs to its next such point.
pub fn run_tlc_schedule(schedule: &[String], tag: &str, seed: u64, run_no: u64) -> SchedOutcome {
    let u = Arc::new(Universe::plain(6));
    let sink = TraceSink::new(Arc::clone(&u));
    watch_sink(&sink);
    let fs = SimFs::new(ROOT);
    let ctl = Ctl::new();
    raindb::verif::install(
        ROOT,
        Arc::new(SinkObserver {
            sink: Arc::clone(&sink),
            want_contents: false,
            ctl: Some(ctl.clone() as Arc<dyn Controller>),
            lazy_gets: Mutex::new(Default::default()),
            bg_active: std::sync::atomic::AtomicBool::new(true),
            mute: vec![
                "GetDone",
                "IterDrop",
                "IterDropped",
                "BgBegin",
                "BgEnd",
                "ObsoleteCollected",
                "OutputOpened",
                "FlushBuilt",
            ],
        }),
    );
    take_panics();
    sink.emit_json(
        "Reset",
        json!({"run": run_no, "seed": seed, "nk": u.n(), "driver": "sched", "tag": tag}),
    );
    let manual = schedule.iter().any(|s| s == "c1" || s == "c2" || s == "wr");
    let opts = OptSet {
        memtable: if manual { 4000 } else { 400 },
        file: 600,
        block: 64,
        reuse: false,
    };
    let db = match DB::open(opts.to_options(ROOT, &fs)) {
        Ok(db) => Arc::new(db),
        Err(e) => {
            sink.emit_json("Hang", json!({"what": format!("open failed {}", e)}));
            return SchedOutcome {
                lines: sink.take(),
                parked: false,
                status: "openfail".into(),
            };
        }
    };
    let env = Arc::new(Env {
        db: Arc::clone(&db),
        sink: Arc::clone(&sink),
        u: Arc::clone(&u),
        ctl: ctl.clone(),
        next_vid: Mutex::new(0),
    });
    let mut status = "ok".to_string();
    // cast "manual" (behaviours of RainManual_Gen): c1, c2 call compact_range, wr rotates the
    // memtable twice; cast "conc" (RainConc_Gen): three writers and two readers
    let names: Vec<&'static str> = if manual {
        // two generations of every key in different files: the manual compactions are merges
        for _round in 0..2 {
            for k in 1..=6 {
                env.put(k, 200);
                if k % 2 == 0 {
                    let _ = db.verif_force_flush();
                }
            }
            let _ = wait_quiescent(&db, Duration::from_secs(60));
        }
        vec!["c1", "c2", "wr"]
    } else {
        // every key has a value in a table file; keys 1 and 2 also in the active memtable,
        // which is nearly full (the model's MemCap = 1: the next writes rotate it)
        for k in 1..=6 {
            env.put(k, 40);
        }
        let _ = db.verif_force_flush();
        let _ = wait_quiescent(&db, Duration::from_secs(60));
        env.put(1, 120);
        env.put(2, 120);
        vec!["w1", "w2", "w3", "r1", "r2"]
    };
    ctl.gate(&names);
    ctl.gate(&["bg"]);
    let mut rxs: Vec<(String, mpsc::Receiver<()>)> = vec![];
    for name in names.clone() {
        let e2 = Arc::clone(&env);
        let c2 = ctl.clone();
        rxs.push((
            name.to_string(),
            spawn_named(name, move || {
                c2.manual_point("start");
                match name {
                    "c1" => e2.db.compact_range(None..None),
                    "c2" => {
                        let lo = e2.u.key(2).clone();
                        let hi = e2.u.key(5).clone();
                        e2.db.compact_range(Some(lo.as_slice())..Some(hi.as_slice()));
                    }
                    "wr" => {
                        e2.put(6, 5000);
                        e2.put(1, 40);
                        e2.put(5, 5000);
                        e2.put(2, 40);
                    }
                    "w1" => {
                        e2.batch(&[1, 2], 120);
                    }
                    "w2" => {
                        e2.put(1, 120);
                    }
                    "w3" => {
                        e2.put(2, 120);
                    }
                    "r1" => {
                        e2.get(1);
                    }
                    _ => e2.snap_get(1, false),
                }
            }),
        ));
    }
    for name in names.clone() {
        ctl.wait_parked(name, Duration::from_secs(5));
    }
    let done: HashMap<String, std::sync::Arc<std::sync::atomic::AtomicBool>> = names
        .iter()
        .map(|n| (n.to_string(), Arc::new(std::sync::atomic::AtomicBool::new(false))))
        .collect();
    let mut finished_rx: Vec<String> = vec![];
    let mut steps_taken = 0u64;
    for who in schedule {
        // collect completions
        for (name, rx) in &rxs {
            if !finished_rx.contains(name) && rx.try_recv().is_ok() {
                finished_rx.push(name.clone());
                done[name].store(true, std::sync::atomic::Ordering::SeqCst);
            }
        }
        let flag = done.get(who).cloned();
        let fin = move || {
            flag.as_ref()
                .map(|f| f.load(std::sync::atomic::Ordering::SeqCst))
                .unwrap_or(false)
        };
        if ctl.step(who, Duration::from_millis(60), &fin) {
            steps_taken += 1;
        }
    }
    ctl.ungate_all();
    for (name, rx) in rxs {
        if finished_rx.contains(&name) {
            continue;
        }
        if rx.recv_timeout(Duration::from_secs(60)).is_err() {
            sink.emit_json("Hang", json!({"what": format!("thread {} after the schedule", name)}));
            status = "hang".into();
        }
    }
    if status == "ok" {
        for k in 1..=2 {
            env.get(k);
        }
        env.scan(false, false);
        if wait_quiescent(&db, Duration::from_secs(60)).is_none() {
            sink.emit_json("Hang", json!({"what": "background work does not settle"}));
            status = "hang".into();
        }
    }
    for p in peek_panics() {
        sink.emit_json(
            "Panic",
            json!({"thread": p.thread, "msg": p.message, "loc": p.location}),
        );
        status = "panic".into();
    }
    take_panics();
    drop(env);
    if status == "ok" {
        match Arc::try_unwrap(db) {
            Ok(db) => {
                let rx = spawn_named("closer", move || drop(db));
                if rx.recv_timeout(Duration::from_secs(60)).is_err() {
                    sink.emit_json("Hang", json!({"what": "close"}));
                    status = "hang".into();
                }
            }
            Err(db) => std::mem::forget(db),
        }
    } else {
        std::mem::forget(db);
    }
    raindb::verif::clear(ROOT);
    SchedOutcome {
        lines: sink.take(),
        parked: steps_taken > 0,
        status,
    }
}

pub fn run_scenario(sc: &Scenario, seed: u64, run_no: u64) -> SchedOutcome {
    if sc.script == "cold_open" {
        return run_cold_open(sc, seed, run_no);
    }
    if sc.script == "manual_rotate" || sc.script == "manual_gap" || sc.script == "manual_late" {
        return run_manual_rotate(sc, seed, run_no);
    }
    let u = Arc::new(Universe::plain(6));
    let sink = TraceSink::new(Arc::clone(&u));
    watch_sink(&sink);
    let fs = SimFs::new(ROOT);
    let ctl = Ctl::new();
    raindb::verif::install(
        ROOT,
        Arc::new(SinkObserver {
            sink: Arc::clone(&sink),
            want_contents: false,
            ctl: Some(ctl.clone() as Arc<dyn Controller>),
            lazy_gets: Mutex::new(Default::default()),
            bg_active: std::sync::atomic::AtomicBool::new(true),
            mute: vec![
                "GetDone",
                "IterDrop",
                "IterDropped",
                "BgBegin",
                "BgEnd",
                "ObsoleteCollected",
                "OutputOpened",
                "FlushBuilt",
            ],
        }),
    );
    take_panics();
    sink.emit_json(
        "Reset",
        json!({"run": run_no, "seed": seed, "nk": u.n(), "driver": "sched", "tag": sc.name,
               "faults": sc.script == "queue_wal_fault" || sc.script == "flush_compact_readfault"}),
    );
    // (the read-fault scenario needs reads that really go to the files)
    crate::common::set_cache_cap(if sc.script == "flush_compact_readfault" { 2 } else { 0 });
    let opts = OptSet {
        memtable: sc.memtable,
        file: 600,
        block: 64,
        reuse: false,
    };
    let db = match DB::open(opts.to_options(ROOT, &fs)) {
        Ok(db) => Arc::new(db),
        Err(e) => {
            sink.emit_json("Hang", json!({"what": format!("open failed {}", e)}));
            return SchedOutcome {
                lines: sink.take(),
                parked: false,
                status: "openfail".into(),
            };
        }
    };
    let env = Arc::new(Env {
        db: Arc::clone(&db),
        sink: Arc::clone(&sink),
        u: Arc::clone(&u),
        ctl: ctl.clone(),
        next_vid: Mutex::new(0),
    });
    let mut status = "ok".to_string();
    let mut hang = |what: &str, sink: &Arc<TraceSink>| {
        sink.emit_json("Hang", json!({"what": what}));
    };
    // pre-populate: every key has a value; some of it flushed
    for k in 1..=6 {
        env.put(k, 40);
    }
    let _ = db.verif_force_flush();
    for k in 1..=3 {
        env.put(k, 40);
    }
    let _ = wait_quiescent(&db, Duration::from_secs(60));
    // the value the victim should see lives in the ACTIVE memtable when the victim starts
    env.put(2, 40);
    env.batch(&[5, 6], 30);

    // the victim
    ctl.arm("v", &sc.point, sc.nth);
    let e2 = Arc::clone(&env);
    let victim = sc.victim.clone();
    let manual = sc.point == "between_capture_and_use";
    let vrx = spawn_named("v", move || match victim {
        Victim::Get { k } => {
            e2.get(k);
        }
        Victim::SnapGet { k } => e2.snap_get(k, manual),
        Victim::Scan => e2.scan(false, manual),
        Victim::SnapScan => e2.scan(true, manual),
        Victim::Put { k } => {
            e2.put(k, 40);
        }
        Victim::Batch { keys, big } => {
            e2.batch(&keys, if big { 200 } else { 30 });
        }
    });
    let hot: i64 = match &sc.victim {
        Victim::Get { k } | Victim::SnapGet { k } | Victim::Put { k } => *k,
        _ => 2,
    };
    let parked = ctl.wait_parked("v", Duration::from_secs(5));
    let mut helpers: Vec<(String, mpsc::Receiver<()>)> = vec![];
    if parked {
        match sc.script.as_str() {
            "overwrite_rotate" | "overwrite_flush" | "flush_compact" | "delete_flush_compact"
            | "flush_compact_readfault" => {
                // overwrite the key the victim looks at, and enough other data to rotate
                env.put(hot, 40);
                if sc.script == "delete_flush_compact" {
                    env.batch(&[3, 1, hot], 30);
                }
                // a value larger than the memtable budget forces a rotation at the next write
                env.put(6, 5000);
                for i in 0..6 {
                    env.put(1 + (i % 6), 60);
                }
                env.put(hot, 40);
                if sc.script != "overwrite_rotate" {
                    let _ = db.verif_force_flush();
                    let _ = wait_quiescent(&db, Duration::from_secs(60));
                }
                if sc.script == "flush_compact"
                    || sc.script == "delete_flush_compact"
                    || sc.script == "flush_compact_readfault"
                {
                    db.compact_range(None..None);
                    let _ = wait_quiescent(&db, Duration::from_secs(60));
                    env.put(hot, 40);
                    env.put(5, 40);
                }
            }
            "queue_big_follower" => {
                // three writers queue behind the suspended leader; the second one's batch is
                // larger than the group-commit growth limit, so the group must stop before it
                for (i, name) in ["w1", "w2", "w3"].iter().enumerate() {
                    let e3 = Arc::clone(&env);
                    let rx = spawn_named(name, move || match i {
                        0 => {
                            e3.put(3, 40);
                        }
                        1 => {
                            e3.put(4, 200_000);
                        }
                        _ => {
                            e3.batch(&[5, 2], 30);
                        }
                    });
                    ctl.wait_waiting(name, Duration::from_secs(3));
                    helpers.push((name.to_string(), rx));
                }
            }
            "queue_split_follower" => {
                // three writers queue behind the suspended leader; the second one's batch (three
                // 60 KB values and a delete) crosses the group-commit growth limit (first writer's size + 128 KiB)
                // in its MIDDLE: the group must stop before the whole batch, never inside it
                for (i, name) in ["w1", "w2", "w3"].iter().enumerate() {
                    let e3 = Arc::clone(&env);
                    let rx = spawn_named(name, move || match i {
                        0 => {
                            e3.put(3, 40);
                        }
                        1 => {
                            e3.batch(&[4, 5, 6, 1], 60_000);
                        }
                        _ => {
                            e3.batch(&[5, 2], 30);
                        }
                    });
                    ctl.wait_waiting(name, Duration::from_secs(3));
                    helpers.push((name.to_string(), rx));
                }
            }
            "queue_sync_follower" => {
                // three writers queue behind the suspended (non-synchronous) leader; the second
                // one writes synchronously, so the leader's group must stop before it; it then
                // leads the next group itself (with the third writer in it)
                for (i, name) in ["w1", "w2", "w3"].iter().enumerate() {
                    let e3 = Arc::clone(&env);
                    let rx = spawn_named(name, move || match i {
                        0 => {
                            e3.put(3, 40);
                        }
                        1 => {
                            e3.put_opt(4, 40, true);
                        }
                        _ => {
                            e3.batch(&[5, 2], 30);
                        }
                    });
                    ctl.wait_waiting(name, Duration::from_secs(3));
                    helpers.push((name.to_string(), rx));
                }
            }
            "compact_while_parked" => {
                // compact_range (which first forces a memtable flush) requested while the writer
                // is inside its unlocked section: the forced rotation has to wait for its turn
                // behind the writer - the memtable the writer is filling must not be rotated and
                // flushed under its feet
                let d3 = Arc::clone(&db);
                let rx = spawn_named("m1", move || d3.compact_range(None..None));
                ctl.wait_waiting("m1", Duration::from_secs(3));
                let t0 = Instant::now();
                while t0.elapsed() < Duration::from_millis(400) {
                    match db.verif_try_state(Duration::from_secs(1)) {
                        Some(d) if !d.has_imm && !d.bg_scheduled => break,
                        _ => std::thread::sleep(Duration::from_millis(5)),
                    }
                }
                helpers.push(("m1".to_string(), rx));
                let e3 = Arc::clone(&env);
                let rx = spawn_named("r1", move || {
                    for k in 1..=6 {
                        e3.get(k);
                    }
                    e3.scan(true, false);
                });
                if rx.recv_timeout(Duration::from_secs(60)).is_err() {
                    hang("reader while writer suspended", &sink);
                    status = "hang".into();
                }
            }
            "queue_wal_fault" => {
                // two writers queue behind the suspended leader; the group's WAL append then
                // fails once: the leader AND the followers whose batches were in the group must
                // get the error (nobody may be told Ok for a write that was not made)
                // (w1 will lead the NEXT group, which contains w2: it is suspended before that
                // group's WAL append, too)
                ctl.arm("w1", "write_before_wal", 1);
                for (i, name) in ["w1", "w2"].iter().enumerate() {
                    let e3 = Arc::clone(&env);
                    let k = 3 + i as i64;
                    let rx = spawn_named(name, move || {
                        if k == 3 {
                            e3.put(k, 40);
                        } else {
                            e3.batch(&[k, 5], 30);
                        }
                    });
                    ctl.wait_waiting(name, Duration::from_secs(3));
                    helpers.push((name.to_string(), rx));
                }
                // the first leader finishes; w1 takes over with w2 in its group and parks
                ctl.release("v");
                if ctl.wait_parked("w1", Duration::from_secs(5)) {
                    let _ = wait_quiescent(&db, Duration::from_secs(5));
                    fs.set_fault(crate::simfs::FaultMode::At {
                        index: fs.op_counter(),
                        sticky: false,
                    });
                }
                ctl.release("w1");
            }
            "readers" | "queue_and_readers" => {
                if sc.script == "queue_and_readers" {
                    for (i, name) in ["w1", "w2"].iter().enumerate() {
                        let e3 = Arc::clone(&env);
                        let k = 2 + i as i64;
                        let rx = spawn_named(name, move || {
                            if k == 2 {
                                e3.put(k, 40);
                            } else {
                                e3.batch(&[k, 2], 30);
                            }
                        });
                        // wait until it is queued behind the suspended leader
                        ctl.wait_waiting(name, Duration::from_secs(3));
                        helpers.push((name.to_string(), rx));
                    }
                }
                // readers while the writer is suspended in its unlocked section
                let e3 = Arc::clone(&env);
                let rx = spawn_named("r1", move || {
                    for k in 1..=6 {
                        e3.get(k);
                    }
                    e3.scan(true, false);
                    e3.scan(false, false);
                    e3.snap_get(2, false);
                    for k in 1..=6 {
                        e3.get(k);
                    }
                });
                if rx.recv_timeout(Duration::from_secs(60)).is_err() {
                    hang("reader while writer suspended", &sink);
                    status = "hang".into();
                }
            }
            _ => {}
        }
    }
    let readfault = parked && sc.script == "flush_compact_readfault";
    if readfault {
        // the next call into the filesystem - the victim's table open / block read - fails once
        fs.set_read_faults(true);
        fs.set_fault(crate::simfs::FaultMode::At {
            index: fs.op_counter(),
            sticky: false,
        });
    }
    ctl.release("v");
    if vrx.recv_timeout(Duration::from_secs(60)).is_err() {
        hang("victim after release", &sink);
        status = "hang".into();
    }
    if readfault {
        fs.set_fault(crate::simfs::FaultMode::Off);
        fs.set_read_faults(false);
    }
    for (name, rx) in helpers {
        if rx.recv_timeout(Duration::from_secs(60)).is_err() {
            hang(&format!("queued writer {}", name), &sink);
            status = "hang".into();
        }
    }
    if status == "ok" {
        // final observation by the main thread
        for k in 1..=6 {
            env.get(k);
        }
        env.scan(false, false);
        let _ = wait_quiescent(&db, Duration::from_secs(60));
        // nobody reads any more: after one more flush (whose deletion pass also reclaims what an
        // earlier pass had to leave to a racing reader) exactly ONE version is linked and only
        // its tables are on disk
        if sc.script == "flush_compact_readfault" || sc.script == "flush_compact" || sc.point == "iter_drop" {
            emit_quiet(&env, &db, &fs, &sink);
        }
    }
    for p in peek_panics() {
        sink.emit_json(
            "Panic",
            json!({"thread": p.thread, "msg": p.message, "loc": p.location}),
        );
        status = "panic".into();
    }
    take_panics();
    drop(env);
    if status == "ok" {
        match Arc::try_unwrap(db) {
            Ok(db) => {
                let rx = spawn_named("closer", move || drop(db));
                if rx.recv_timeout(Duration::from_secs(60)).is_err() {
                    hang("close", &sink);
                    status = "hang".into();
                }
            }
            Err(db) => std::mem::forget(db),
        }
    } else {
        std::mem::forget(db);
    }
    raindb::verif::clear(ROOT);
    SchedOutcome {
        lines: sink.take(),
        parked,
        status,
    }
}

// ---------------------------------------------------------------------------------------------
// process watchdog: the scripts of the scenarios call the database from the driver's main thread
// (compact_range, forced flush, writes); if raindb never returns from such a call - e.g. because
// its background thread is dead - nothing else would notice.  When the event sink has not grown
// for STALL the process writes what it has (plus a Hang event) and leaves with code 3.
// ---------------------------------------------------------------------------------------------

pub struct WatchCtx {
    pub trace_path: std::path::PathBuf,
    pub results_path: std::path::PathBuf,
    pub lines: Vec<serde_json::Value>,
    pub results: Vec<serde_json::Value>,
    pub current: serde_json::Value,
}

static WATCH_SINK: Mutex<Option<Arc<TraceSink>>> = Mutex::new(None);
static WATCH_CTX: Mutex<Option<WatchCtx>> = Mutex::new(None);
const STALL: Duration = Duration::from_secs(150);

fn watch_sink(s: &Arc<TraceSink>) {
    *WATCH_SINK.lock() = Some(Arc::clone(s));
}

fn watch_update(f: impl FnOnce(&mut WatchCtx)) {
    if let Some(c) = WATCH_CTX.lock().as_mut() {
        f(c);
    }
}

fn start_process_watchdog(trace_path: std::path::PathBuf, results_path: std::path::PathBuf) {
    *WATCH_CTX.lock() = Some(WatchCtx {
        trace_path,
        results_path,
        lines: vec![],
        results: vec![],
        current: json!(null),
    });
    std::thread::Builder::new()
        .name("watchdog".into())
        .spawn(|| {
            let mut last_len = usize::MAX;
            let mut last_ptr = 0usize;
            let mut since = Instant::now();
            loop {
                std::thread::sleep(Duration::from_millis(500));
                let cur = WATCH_SINK.lock().clone();
                let (len, ptr) = match &cur {
                    Some(s) => (s.len(), Arc::as_ptr(s) as usize),
                    None => (0, 0),
                };
                if len != last_len || ptr != last_ptr {
                    last_len = len;
                    last_ptr = ptr;
                    since = Instant::now();
                    continue;
                }
                if since.elapsed() < STALL {
                    continue;
                }
                // stalled: dump and leave
                if let (Some(s), Some(c)) = (cur, WATCH_CTX.lock().as_mut()) {
                    s.emit_json("Hang", json!({"what": "the driver's own call into raindb does not return"}));
                    let mut lines = c.lines.clone();
                    lines.extend(s.snapshot());
                    lines.push(json!({"e": "End", "i": 0, "t": "main"}));
                    let _ = crate::trace::write_ndjson(&c.trace_path, &lines);
                    let mut res = c.results.clone();
                    if !c.current.is_null() {
                        let mut cur = c.current.clone();
                        cur["status"] = json!("hang");
                        res.push(cur);
                    }
                    let _ = std::fs::write(
                        &c.results_path,
                        serde_json::to_string_pretty(&json!({"runs": res, "aborted": true})).unwrap(),
                    );
                }
                std::process::exit(3);
            }
        })
        .unwrap();
}

pub fn cmd(m: &HashMap<String, String>) -> i32 {
    let out = std::path::PathBuf::from(m.get("out").cloned().unwrap_or_else(|| "out/sched".into()));
    std::fs::create_dir_all(&out).unwrap();
    let seed0: u64 = crate::arg_of(m, "seed", 1);
    let runs: u64 = crate::arg_of(m, "runs", 1);
    let quick = !m.contains_key("all");
    let only: Option<String> = m.get("scenario").cloned();
    let mut results = vec![];
    let mut chunk = 0;
    if let Some(file) = m.get("schedules") {
        // one JSON array of thread names per line (behaviours of spec/RainConc_Gen.tla)
        let text = std::fs::read_to_string(file).expect("schedules file");
        let only_idx: Option<usize> = m.get("index").and_then(|x| x.parse().ok());
        let mut lines = vec![];
        for (idx, line) in text.lines().enumerate() {
            if line.trim().is_empty() {
                continue;
            }
            if let Some(o) = only_idx {
                if o != idx {
                    continue;
                }
            }
            let schedule: Vec<String> = serde_json::from_str(line).expect("schedule line");
            let tag = format!("tlc#{}", idx);
            if WATCH_CTX.lock().is_none() {
                start_process_watchdog(out.join("trace_0000.ndjson"), out.join("results.json"));
            }
            {
                let (l2, r2) = (lines.clone(), results.clone());
                let cur = json!({"seed": seed0, "tag": tag, "status": "running", "parked": false,
                    "events": 0, "replay": "", "trace": out.join("trace_0000.ndjson").to_string_lossy(),
                    "panics": Vec::<String>::new()});
                watch_update(move |c| {
                    c.lines = l2;
                    c.results = r2;
                    c.current = cur;
                });
            }
            let o = run_tlc_schedule(&schedule, &tag, seed0, idx as u64 + 1);
            let rpath = out.join(format!("replay_{}_{}.json", seed0, idx));
            std::fs::write(
                &rpath,
                serde_json::to_string(
                    &json!({"driver": "sched", "seed": seed0, "schedule": schedule, "scenario": tag}),
                )
                .unwrap(),
            )
            .unwrap();
            results.push(json!({"seed": seed0, "tag": tag, "status": o.status, "parked": o.parked,
                "events": o.lines.len(), "replay": rpath.to_string_lossy(),
                "trace": out.join("trace_0000.ndjson").to_string_lossy(),
                "panics": Vec::<String>::new()}));
            let hang = o.status == "hang";
            lines.extend(o.lines);
            if hang {
                lines.push(json!({"e": "End", "i": 0, "t": "main"}));
                crate::trace::write_ndjson(&out.join("trace_0000.ndjson"), &lines).unwrap();
                std::fs::write(
                    out.join("results.json"),
                    serde_json::to_string_pretty(&json!({"runs": results, "aborted": true})).unwrap(),
                )
                .unwrap();
                return 3;
            }
        }
        lines.push(json!({"e": "End", "i": 0, "t": "main"}));
        crate::trace::write_ndjson(&out.join("trace_0000.ndjson"), &lines).unwrap();
        std::fs::write(
            out.join("results.json"),
            serde_json::to_string_pretty(&json!({"runs": results, "aborted": false})).unwrap(),
        )
        .unwrap();
        return 0;
    }
    for seed in seed0..seed0 + runs {
        let mut rng = StdRng::seed_from_u64(seed);
        let scs = scenarios(&mut rng, quick);
        let mut lines = vec![];
        let mut run_no = 0;
        for sc in scs {
            if let Some(o) = &only {
                if &sc.name != o {
                    continue;
                }
            }
            // --match <text>: only the scenarios whose name contains the text
            if let Some(t) = m.get("match") {
                // (comma-separated alternatives)
                if !t.split(',').any(|alt| sc.name.contains(alt)) {
                    continue;
                }
            }
            run_no += 1;
            let rpath = out.join(format!("replay_{}_{}.json", seed, run_no));
            std::fs::write(
                &rpath,
                serde_json::to_string(&json!({"driver": "sched", "seed": seed, "scenario": sc.name}))
                    .unwrap(),
            )
            .unwrap();
            if WATCH_CTX.lock().is_none() {
                start_process_watchdog(out.join("trace_0000.ndjson"), out.join("results.json"));
            }
            {
                let (l2, r2) = (lines.clone(), results.clone());
                let tp = out.join(format!("trace_{:04}.ndjson", chunk));
                let cur = json!({"seed": seed, "tag": sc.name, "status": "running", "parked": false,
                    "events": 0, "replay": rpath.to_string_lossy(), "trace": tp.to_string_lossy(),
                    "panics": Vec::<String>::new()});
                watch_update(move |c| {
                    c.trace_path = tp;
                    c.lines = l2;
                    c.results = r2;
                    c.current = cur;
                });
            }
            let o = run_scenario(&sc, seed, run_no);
            results.push(json!({"seed": seed, "tag": sc.name, "status": o.status, "parked": o.parked,
                "events": o.lines.len(), "replay": rpath.to_string_lossy(),
                "trace": out.join(format!("trace_{:04}.ndjson", chunk)).to_string_lossy(),
                "panics": Vec::<String>::new()}));
            lines.extend(o.lines);
            if o.status == "hang" || o.status == "panic" {
                // leaked threads may still hold the mutex: stop this process after dumping
                lines.push(json!({"e": "End", "i": 0, "t": "main"}));
                crate::trace::write_ndjson(&out.join(format!("trace_{:04}.ndjson", chunk)), &lines)
                    .unwrap();
                std::fs::write(
                    out.join("results.json"),
                    serde_json::to_string_pretty(&json!({"runs": results, "aborted": true})).unwrap(),
                )
                .unwrap();
                return 3;
            }
        }
        lines.push(json!({"e": "End", "i": 0, "t": "main"}));
        crate::trace::write_ndjson(&out.join(format!("trace_{:04}.ndjson", chunk)), &lines).unwrap();
        chunk += 1;
    }
    std::fs::write(
        out.join("results.json"),
        serde_json::to_string_pretty(&json!({"runs": results, "aborted": false})).unwrap(),
    )
    .unwrap();
    0
}


// ---------------------------------------------------------------------------------------------
// `live` driver: free-running threads (no forced schedule) on a tiny memtable so that writers
// keep hitting memtable-full / level-0 slowdown / stop; readers, snapshot scans, manual
// compactions and descriptor requests run concurrently. Every call runs under a deadline.
// ---------------------------------------------------------------------------------------------

pub fn run_live(seed: u64, run_no: u64, nwriters: usize, nreaders: usize, ops: usize) -> SchedOutcome {
    run_live_mode(seed, run_no, nwriters, nreaders, ops, false)
}

/// `own`: six writers, each with its own five keys out of 30, read every key back right after
/// writing it (read-your-write under group commit, rotation, flushes and automatic compactions);
/// 4 KiB memtable, 8 KiB files; no other threads.
pub fn run_live_mode(seed: u64, run_no: u64, nwriters: usize, nreaders: usize, ops: usize, own: bool) -> SchedOutcome {
    let (nwriters, nreaders) = if own { (6, 0) } else { (nwriters, nreaders) };
    let u = Arc::new(Universe::plain(if own { 30 } else { 8 }));
    let sink = TraceSink::new(Arc::clone(&u));
    watch_sink(&sink);
    let fs = SimFs::new(ROOT);
    raindb::verif::install(
        ROOT,
        Arc::new(SinkObserver {
            sink: Arc::clone(&sink),
            want_contents: false,
            ctl: if crate::common::JITTER_PERMILLE.load(std::sync::atomic::Ordering::Relaxed) > 0 {
                Some(Arc::new(crate::common::Jitter::new(seed)) as Arc<dyn Controller>)
            } else {
                None
            },
            lazy_gets: Mutex::new(Default::default()),
            bg_active: std::sync::atomic::AtomicBool::new(true),
            mute: vec![
                "GetDone",
                "IterDrop",
                "IterDropped",
                "BgBegin",
                "BgEnd",
                "ObsoleteCollected",
                "OutputOpened",
                "FlushBuilt",
                "Picked",
                "CompactionDone",
            ],
        }),
    );
    take_panics();
    let mut rng = StdRng::seed_from_u64(seed);
    let mut opts = OptSet {
        memtable: *[250usize, 400, 800].get(rng.gen_range(0..3)).unwrap(),
        file: *[300u64, 600, 1500].get(rng.gen_range(0..3)).unwrap(),
        block: 64,
        reuse: false,
    };
    if own {
        opts.memtable = 4096;
        opts.file = 8192;
        opts.block = 4096;
    }
    sink.emit_json(
        "Reset",
        json!({"run": run_no, "seed": seed, "nk": u.n(), "driver": "live",
               "tag": format!("w{}r{}", nwriters, nreaders)}),
    );
    let db = match DB::open(opts.to_options(ROOT, &fs)) {
        Ok(db) => Arc::new(db),
        Err(e) => {
            sink.emit_json("Hang", json!({"what": format!("open failed {}", e)}));
            return SchedOutcome {
                lines: sink.take(),
                parked: false,
                status: "openfail".into(),
            };
        }
    };
    let env = Arc::new(Env {
        db: Arc::clone(&db),
        sink: Arc::clone(&sink),
        u: Arc::clone(&u),
        ctl: Ctl::new(),
        next_vid: Mutex::new(0),
    });
    let mut rxs = vec![];
    for w in 0..nwriters {
        let e = Arc::clone(&env);
        let s = seed * 31 + w as u64;
        rxs.push((
            format!("w{}", w + 1),
            spawn_named(&format!("w{}", w + 1), move || {
                let mut rng = StdRng::seed_from_u64(s);
                if own {
                    for n in 0..ops {
                        let k = (w * 5 + n % 5) as i64 + 1;
                        e.put(k, 12 + (n * 3) % 290);
                        e.get(k);
                    }
                    return;
                }
                for _ in 0..ops {
                    if rng.gen_bool(0.75) {
                        e.put(rng.gen_range(1..=8), rng.gen_range(20..90));
                    } else {
                        let n = rng.gen_range(2..=4);
                        let keys: Vec<i64> = (0..n).map(|_| rng.gen_range(1..=8)).collect();
                        e.batch(&keys, 30);
                    }
                }
            }),
        ));
    }
    for r in 0..nreaders {
        let e = Arc::clone(&env);
        let s = seed * 57 + r as u64;
        rxs.push((
            format!("r{}", r + 1),
            spawn_named(&format!("r{}", r + 1), move || {
                let mut rng = StdRng::seed_from_u64(s);
                for _ in 0..ops {
                    match rng.gen_range(0..10) {
                        0..=5 => {
                            e.get(rng.gen_range(1..=8));
                        }
                        6 => e.snap_get(rng.gen_range(1..=8), false),
                        7 => e.scan(true, false),
                        8 => e.scan(false, false),
                        _ => {
                            for level in 0..7 {
                                let _ = e.db.get_descriptor(
                                    raindb::db::DatabaseDescriptor::NumFilesAtLevel(level),
                                );
                            }
                            let _ = e.db.get_descriptor(raindb::db::DatabaseDescriptor::Stats);
                            let _ = e.db.get_descriptor(raindb::db::DatabaseDescriptor::SSTables);
                        }
                    }
                }
            }),
        ));
    }
    {
        let e = Arc::clone(&env);
        rxs.push((
            "m1".to_string(),
            spawn_named("m1", move || {
                for i in 0..(if own { 0 } else { (ops / 25).max(1) }) {
                    std::thread::sleep(Duration::from_millis(3));
                    if i % 2 == 0 {
                        e.db.compact_range(None..None);
                    } else {
                        let lo = e.u.key(2).clone();
                        let hi = e.u.key(6).clone();
                        e.db.compact_range(Some(lo.as_slice())..Some(hi.as_slice()));
                    }
                }
            }),
        ));
    }
    let mut status = "ok".to_string();
    let deadline = Instant::now() + Duration::from_secs(90);
    for (name, rx) in rxs {
        let left = deadline.saturating_duration_since(Instant::now());
        if rx.recv_timeout(left.max(Duration::from_millis(10))).is_err() {
            sink.emit_json("Hang", json!({"what": format!("thread {} did not finish", name)}));
            status = "hang".into();
            break;
        }
    }
    if status == "ok" {
        let _ = wait_quiescent(&db, Duration::from_secs(30));
        for k in 1..=8 {
            env.get(k);
        }
        env.scan(false, false);
    }
    for p in peek_panics() {
        sink.emit_json(
            "Panic",
            json!({"thread": p.thread, "msg": p.message, "loc": p.location}),
        );
        status = "panic".into();
    }
    take_panics();
    drop(env);
    if status == "ok" {
        match Arc::try_unwrap(db) {
            Ok(db) => {
                let rx = spawn_named("closer", move || drop(db));
                if rx.recv_timeout(Duration::from_secs(30)).is_err() {
                    sink.emit_json("Hang", json!({"what": "close"}));
                    status = "hang".into();
                }
            }
            Err(db) => std::mem::forget(db),
        }
    } else {
        std::mem::forget(db);
    }
    raindb::verif::clear(ROOT);
    SchedOutcome {
        lines: sink.take(),
        parked: false,
        status,
    }
}

pub fn cmd_live(m: &HashMap<String, String>) -> i32 {
    let out = std::path::PathBuf::from(m.get("out").cloned().unwrap_or_else(|| "out/live".into()));
    std::fs::create_dir_all(&out).unwrap();
    let seed0: u64 = crate::arg_of(m, "seed", 1);
    let runs: u64 = crate::arg_of(m, "runs", 1);
    let ops: usize = crate::arg_of(m, "ops", 120);
    let jitter: u64 = crate::arg_of(m, "jitter", 0);
    crate::common::JITTER_PERMILLE.store(jitter, std::sync::atomic::Ordering::SeqCst);
    let mut results = vec![];
    for (i, seed) in (seed0..seed0 + runs).enumerate() {
        let nw = 1 + (seed % 3) as usize;
        let nr = 1 + ((seed / 3) % 2) as usize;
        let o = run_live_mode(seed, i as u64 + 1, nw, nr, ops, m.contains_key("own-reads"));
        let path = out.join(format!("trace_{:04}.ndjson", i));
        let mut lines = o.lines;
        lines.push(json!({"e": "End", "i": 0, "t": "main"}));
        crate::trace::write_ndjson(&path, &lines).unwrap();
        let rpath = out.join(format!("replay_{}.json", seed));
        std::fs::write(
            &rpath,
            serde_json::to_string(&json!({"driver": "live", "seed": seed, "ops": ops, "jitter": jitter,
                                          "own": m.contains_key("own-reads")}))
                .unwrap(),
        )
        .unwrap();
        let waits: serde_json::Map<String, serde_json::Value> = crate::common::take_waits()
            .into_iter()
            .map(|(k, v)| (k.to_string(), json!(v)))
            .collect();
        results.push(json!({"seed": seed, "status": o.status, "events": lines.len(),
            "trace": path.to_string_lossy(), "replay": rpath.to_string_lossy(),
            "waits": waits, "panics": Vec::<String>::new()}));
        if o.status == "hang" || o.status == "panic" {
            std::fs::write(
                out.join("results.json"),
                serde_json::to_string_pretty(&json!({"runs": results, "aborted": true})).unwrap(),
            )
            .unwrap();
            return 3;
        }
    }
    std::fs::write(
        out.join("results.json"),
        serde_json::to_string_pretty(&json!({"runs": results, "aborted": false})).unwrap(),
    )
    .unwrap();
    0
}
