//! spec -> impl replay of the iterator model (C04): behaviours of `spec/RainIter_Gen.tla` - a layout
//! (sorted runs of entries distributed over child cursors), a snapshot sequence and a sequence of
//! cursor operations, each with what the model says the user sees afterwards - are stepped through
//! the REAL iterator stack: `DB::verif_iterator_over` puts the real `MergingIterator` and
//! `DatabaseIterator` over real children (a memtable iterator, the iterator of one table file, the
//! concatenating iterator over a run cut into several table files). After every operation validity,
//! key and value are compared with the model's.
use crate::common::*;
use crate::simfs::SimFs;
use raindb::verif::{build_table, ChildSpec, RawEntry};
use raindb::{RainDbIterator, DB};
use serde_json::{json, Value};
use std::collections::{BTreeMap, HashMap};
use std::path::PathBuf;

const ROOT: &str = "/it";

/// user keys for model keys 1..=5 (5 = beyond every key of the largest model), ascending
fn key_sets() -> Vec<Vec<Vec<u8>>> {
    vec![
        vec![b"a".to_vec(), b"b".to_vec(), b"c".to_vec(), b"d".to_vec(), b"e".to_vec()],
        vec![vec![], vec![0], vec![0, 0], vec![0xff], vec![0xff, 0xff]],
        vec![
            b"k1".to_vec(),
            b"k1\0".to_vec(),
            b"k10".to_vec(),
            b"k2".to_vec(),
            b"k2\xff".to_vec(),
        ],
    ]
}

fn value_of(seq: u64) -> Vec<u8> {
    // the value of a put names its sequence number; lengths vary (some longer than a block)
    let mut v = format!("v{}:", seq).into_bytes();
    let pad = [0usize, 3, 40, 1, 300, 17][(seq % 6) as usize];
    v.extend(std::iter::repeat(b'x').take(pad));
    v
}

fn seq_of_value(v: &[u8]) -> i64 {
    let s = String::from_utf8_lossy(v);
    if !s.starts_with('v') {
        return -1;
    }
    match s[1..].split(':').next().and_then(|x| x.parse::<i64>().ok()) {
        Some(n) if value_of(n as u64) == v => n,
        _ => -1,
    }
}

struct Layout {
    children: Vec<Vec<(i64, u64, u8)>>,
    snap: u64,
}

struct Realiser<'a> {
    db: &'a DB,
    next_file: u64,
    /// (child entries, cut pattern) -> files (number, size, first, last)
    built: HashMap<(Vec<(i64, u64, u8)>, u8, usize), Vec<(u64, u64, usize, usize)>>,
}

impl<'a> Realiser<'a> {
    fn raw(&self, keys: &[Vec<u8>], e: &(i64, u64, u8)) -> RawEntry {
        let k = keys[(e.0 - 1) as usize].clone();
        let v = if e.2 == 1 { value_of(e.1) } else { vec![] };
        (k, e.1, e.2, v)
    }

    /// cut the run into table files: pattern 0 = one file, 1 = one file per entry, 2 = two halves
    fn files_for(
        &mut self,
        keys: &[Vec<u8>],
        keyset: usize,
        run: &[(i64, u64, u8)],
        pattern: u8,
    ) -> Result<Vec<(u64, u64, usize, usize)>, String> {
        let id = (run.to_vec(), pattern, keyset);
        if let Some(f) = self.built.get(&id) {
            return Ok(f.clone());
        }
        let mut cuts: Vec<(usize, usize)> = vec![];
        match pattern {
            0 => cuts.push((0, run.len())),
            1 => {
                for i in 0..run.len() {
                    cuts.push((i, i + 1));
                }
            }
            _ => {
                let h = (run.len() + 1) / 2;
                cuts.push((0, h));
                if h < run.len() {
                    cuts.push((h, run.len()));
                }
            }
        }
        let mut files = vec![];
        for (a, b) in cuts {
            self.next_file += 1;
            let n = self.next_file;
            let raws: Vec<RawEntry> = run[a..b].iter().map(|e| self.raw(keys, e)).collect();
            let size = build_table(self.db.verif_options(), n, &raws)?;
            files.push((n, size, a, b - 1));
        }
        self.built.insert(id, files.clone());
        Ok(files)
    }

    fn children(
        &mut self,
        keys: &[Vec<u8>],
        keyset: usize,
        lay: &Layout,
        variant: usize,
    ) -> Result<(Vec<ChildSpec>, Vec<String>), String> {
        let mut specs = vec![];
        let mut kinds = vec![];
        for (c, run) in lay.children.iter().enumerate() {
            let kind = (c + variant) % 3;
            if run.is_empty() {
                // an empty run: an empty memtable or a level without files
                if kind == 0 {
                    specs.push(ChildSpec::Mem(vec![]));
                    kinds.push("mem".to_string());
                } else {
                    specs.push(ChildSpec::Level(vec![]));
                    kinds.push("level0files".to_string());
                }
                continue;
            }
            match kind {
                0 => {
                    specs.push(ChildSpec::Mem(run.iter().map(|e| self.raw(keys, e)).collect()));
                    kinds.push("mem".to_string());
                }
                1 => {
                    let f = self.files_for(keys, keyset, run, 0)?;
                    specs.push(ChildSpec::Table(f[0].0));
                    kinds.push("table".to_string());
                }
                _ => {
                    let pattern = if (variant / 3) % 2 == 0 { 1 } else { 2 };
                    let f = self.files_for(keys, keyset, run, pattern)?;
                    let list = f
                        .iter()
                        .map(|(n, size, a, b)| {
                            let lo = self.raw(keys, &run[*a]);
                            let hi = self.raw(keys, &run[*b]);
                            (*n, *size, (lo.0, lo.1, lo.2), (hi.0, hi.1, hi.2))
                        })
                        .collect();
                    specs.push(ChildSpec::Level(list));
                    kinds.push(format!("level{}files", f.len()));
                }
            }
        }
        Ok((specs, kinds))
    }
}

fn parse_layout(v: &Value) -> Layout {
    let children = v["children"]
        .as_array()
        .map(|cs| {
            cs.iter()
                .map(|run| {
                    run.as_array()
                        .map(|es| {
                            es.iter()
                                .map(|e| {
                                    (
                                        e[0].as_i64().unwrap(),
                                        e[1].as_u64().unwrap(),
                                        e[2].as_u64().unwrap() as u8,
                                    )
                                })
                                .collect()
                        })
                        .unwrap_or_default()
                })
                .collect()
        })
        .unwrap_or_default();
    Layout { children, snap: v["snap"].as_u64().unwrap_or(0) }
}

/// Step one behaviour; Err = description of the first difference.
fn step_behaviour(
    db: &DB,
    keys: &[Vec<u8>],
    specs: Vec<ChildSpec>,
    snap: u64,
    trail: &[Value],
) -> Result<usize, Value> {
    let mut it = db
        .verif_iterator_over(specs, snap)
        .map_err(|e| json!({"step": 0, "what": "iterator could not be created", "err": e.to_string()}))?;
    let mut steps = 0;
    for (i, st) in trail.iter().enumerate() {
        let op = st["op"].as_str().unwrap_or("");
        let r = match op {
            "first" => it.seek_to_first().map_err(|e| e.to_string()),
            "last" => it.seek_to_last().map_err(|e| e.to_string()),
            "seek" => {
                let t = st["t"].as_i64().unwrap();
                it.seek(&keys[(t - 1) as usize]).map_err(|e| e.to_string())
            }
            "next" => {
                it.next();
                Ok(())
            }
            "prev" => {
                it.prev();
                Ok(())
            }
            _ => Err(format!("unknown operation {}", op)),
        };
        steps += 1;
        if let Err(e) = r {
            return Err(json!({"step": i + 1, "op": op, "what": "operation failed", "err": e}));
        }
        let got = if it.is_valid() {
            match it.current() {
                Some((k, v)) => {
                    let kid = keys.iter().position(|x| x == k).map(|p| p as i64 + 1).unwrap_or(-1);
                    (true, kid, seq_of_value(v))
                }
                None => (true, -1, -1),
            }
        } else {
            (false, 0, 0)
        };
        let exp = (
            st["valid"].as_bool().unwrap_or(false),
            st["k"].as_i64().unwrap_or(0),
            st["v"].as_i64().unwrap_or(0),
        );
        if got != exp {
            return Err(json!({"step": i + 1, "op": op, "t": st["t"], "what": "position differs",
                              "model": [exp.0 as i64, exp.1, exp.2], "real": [got.0 as i64, got.1, got.2]}));
        }
        if !got.0 {
            if let Some(e) = it.take_error() {
                return Err(json!({"step": i + 1, "op": op, "what": "iterator reports an error", "err": e.to_string()}));
            }
        }
    }
    Ok(steps)
}

pub fn cmd(m: &HashMap<String, String>) -> i32 {
    let out = PathBuf::from(m.get("out").cloned().unwrap_or_else(|| "/verif/out/c04/iterfmt".into()));
    std::fs::create_dir_all(&out).unwrap();
    let seed: u64 = crate::arg_of(m, "seed", 1);
    let variants: usize = crate::arg_of(m, "variants", 3);
    let only_variant: Option<usize> = m.get("variant").and_then(|x| x.parse().ok());
    let only_keyset: Option<usize> = m.get("keyset").and_then(|x| x.parse().ok());
    let path = m.get("behaviours").expect("--behaviours FILE");
    let text = std::fs::read_to_string(path).expect("behaviour file");
    // group by layout
    let mut groups: BTreeMap<String, Vec<Value>> = BTreeMap::new();
    for line in text.lines() {
        if line.trim().is_empty() {
            continue;
        }
        let v: Value = serde_json::from_str(line).expect("behaviour json");
        let id = format!("{}|{}", v["children"], v["snap"]);
        groups.entry(id).or_default().push(v);
    }
    let fs = SimFs::new(ROOT);
    let block = [16usize, 64, 4096][(seed % 3) as usize];
    let opts = OptSet { memtable: 1 << 20, file: 1 << 21, block, reuse: false };
    let db = match DB::open(opts.to_options(ROOT, &fs)) {
        Ok(db) => db,
        Err(e) => {
            eprintln!("open failed: {}", e);
            return 2;
        }
    };
    let sets = key_sets();
    let mut rz = Realiser { db: &db, next_file: 1000, built: HashMap::new() };
    let mut results: Vec<Value> = vec![];
    let (mut nbeh, mut nsteps, mut nlay, mut nmis) = (0u64, 0u64, 0u64, 0u64);
    let mut kinds_seen: BTreeMap<String, u64> = BTreeMap::new();
    for (li, (_id, behs)) in groups.iter().enumerate() {
        let lay = parse_layout(&behs[0]);
        nlay += 1;
        for vv in 0..variants {
            let variant = only_variant.unwrap_or((li + vv * 2 + seed as usize) % 6);
            let keyset = only_keyset.unwrap_or((li + vv + seed as usize) % sets.len());
            let keys = &sets[keyset];
            for b in behs {
                let trail = b["trail"].as_array().cloned().unwrap_or_default();
                let r = std::panic::catch_unwind(std::panic::AssertUnwindSafe(|| {
                    let (specs, kinds) = match rz.children(keys, keyset, &lay, variant) {
                        Ok(x) => x,
                        Err(e) => return Err(json!({"step": 0, "what": "table could not be built", "err": e})),
                    };
                    for k in kinds {
                        *kinds_seen.entry(k).or_default() += 1;
                    }
                    step_behaviour(&db, keys, specs, lay.snap, &trail)
                }));
                nbeh += 1;
                let diff = match r {
                    Ok(Ok(n)) => {
                        nsteps += n as u64;
                        None
                    }
                    Ok(Err(d)) => Some(d),
                    Err(_) => {
                        let p = take_panics();
                        Some(json!({"step": -1, "what": "panic",
                                    "err": p.last().map(|x| format!("{} at {}", x.message, x.location)).unwrap_or_default()}))
                    }
                };
                if let Some(d) = diff {
                    nmis += 1;
                    if results.len() < 20 {
                        let rp = out.join(format!("replay_{}_{}.json", seed, nmis));
                        std::fs::write(
                            &rp,
                            serde_json::to_string(&json!({"driver": "iterfmt", "behaviour": b, "variant": variant,
                                                          "keyset": keyset, "seed": seed}))
                            .unwrap(),
                        )
                        .unwrap();
                        results.push(json!({"seed": seed * 100000 + nmis, "status": "mismatch", "diff": d,
                                            "behaviour": b, "variant": variant, "keyset": keyset, "block": block,
                                            "replay": rp.to_string_lossy()}));
                    }
                }
            }
            if only_variant.is_some() {
                break;
            }
        }
    }
    let kinds: Value = kinds_seen.iter().map(|(k, v)| (k.clone(), json!(v))).collect::<serde_json::Map<_, _>>().into();
    results.push(json!({"seed": seed, "status": "summary", "behaviours": nbeh, "layouts": nlay, "steps": nsteps,
                        "mismatches": nmis, "block": block, "child_kinds": kinds}));
    drop(rz);
    drop(db);
    std::fs::write(
        out.join("results.json"),
        serde_json::to_string_pretty(&json!({"runs": results, "aborted": false})).unwrap(),
    )
    .unwrap();
    0
}
