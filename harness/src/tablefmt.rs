//! `tablefmt` driver (C13, "table files give back exactly what was put in"): builds REAL table
//! files with `raindb::verif::build_table` on a SimFs from generated sorted runs, opens them with
//! the real reader (`VTable`) and records everything that comes back.  The trace is judged by
//! `spec/RainTable_Trace.tla` with the operators of `spec/RainTable.tla`; this driver never
//! decides anything itself (exception: BigCheck digests, see below).
//!
//! Trace vocabulary (ndjson, one line per event; key / value ids, 0-free):
//!
//!   Reset    {run, seed, tag:"", nk, driver:"tablefmt"}     first event of every run
//!   Table    {block, n, ok, big, err, ents:[[k,s,o,v]...]}  a table was built from this sorted
//!                                                           run with max_block_size = block and
//!                                                           opened (ok = both succeeded)
//!   IterFwd  {ok, res:[[k,s,o,v]...]}     seek_to_first + next* until not valid
//!   IterBwd  {ok, res:[[k,s,o,v]...]}     seek_to_last + prev* until not valid
//!   Seeks    {ok, list:[[k,s, rk,rs,ro,rv]...]}   fresh cursor, seek(k,s), entry under the cursor
//!                                                 ([0,0,0,0] = not valid)
//!   Walk     {ok, steps:[[m,k,s, rk,rs,ro,rv]...]} fresh cursor; moves 0 first, 1 last,
//!                                                 2 seek(k,s), 3 next, 4 prev (next/prev only
//!                                                 when valid); entry under the cursor after it
//!   Gets     {list:[{k,s,kind,v}...]}     Table::get(k, s): kind value|deleted|notinfile|error
//!   BigCheck {what, n, bad, hidden, first, ok}  digest for tables too big to log: the DRIVER compared
//!                                         n observations with its own copy of the run
//!   End      {}                           last line of every file
//!
//! Key ids are the 1-based ranks of the run's key universe in byte order (so that the
//! specification's order on ids is the byte order), value ids identify the exact byte string that
//! was put in (-2 = bytes that were never put in, -1 = a key outside the universe).

use rand::rngs::StdRng;
use rand::seq::SliceRandom;
use rand::{Rng, SeedableRng};
use raindb::verif::{build_table, TableGet, VTable, VTableIter};
use raindb::{DbOptions, FilterPolicy};
use serde_json::{json, Value};
use std::collections::HashMap;
use std::path::PathBuf;
use std::sync::Arc;

use crate::common::OptSet;
use crate::simfs::SimFs;
use crate::universe::{key_catalogue, tiny_values, Universe, TINY_BASE};

pub type Raw = (Vec<u8>, u64, u8, Vec<u8>);

pub const BLOCK_SIZES: [usize; 6] = [1, 16, 64, 256, 4096, 1 << 22];
const MAX_LINES_PER_FILE: usize = 14_000;

// ---------------------------------------------------------------------------------------------
// key / value universe of one run
// ---------------------------------------------------------------------------------------------

/// The adversarial key catalogue of `universe.rs` plus shapes that matter for table files:
/// keys longer than a 4 KiB block, long runs of 0x00 / 0xff, long shared prefixes.
pub fn table_key_catalogue(rng: &mut StdRng) -> Vec<Vec<u8>> {
    let mut cat = key_catalogue();
    cat.push(vec![0x00; 8]);
    cat.push(vec![0x00; 9]);
    cat.push(vec![0xff; 8]);
    cat.push(vec![0xff; 9]);
    cat.push(vec![0xff, 0xff, 0xfe]);
    let mut p = vec![b'p'; 200];
    cat.push(p.clone());
    p.push(0x00);
    cat.push(p.clone());
    p.pop();
    p.push(0xff);
    cat.push(p.clone());
    p.push(0xff);
    cat.push(p);
    let huge = vec![b'L'; 5000];
    let mut huge2 = huge.clone();
    huge2.push(b'!');
    let mut huge3 = vec![b'L'; 4999];
    huge3.push(b'M');
    cat.push(huge);
    cat.push(huge2);
    cat.push(huge3);
    // keys that differ only in their last byte / that are prefixes of each other
    cat.push(b"zebra\x00".to_vec());
    cat.push(b"zebr".to_vec());
    for _ in 0..4 {
        let n = rng.gen_range(1..12);
        cat.push((0..n).map(|_| rng.gen::<u8>()).collect());
    }
    cat.sort();
    cat.dedup();
    cat
}

pub struct Values {
    next: i64,
    by_bytes: HashMap<Vec<u8>, i64>,
}

impl Values {
    pub fn new() -> Self {
        let mut by_bytes = HashMap::new();
        for (i, t) in tiny_values().into_iter().enumerate() {
            by_bytes.insert(t, TINY_BASE + i as i64);
        }
        Values { next: 1, by_bytes }
    }

    /// A fresh value of `len` bytes (len >= 8) with its id.
    pub fn fresh(&mut self, len: usize, compressible: bool) -> (i64, Vec<u8>) {
        let vid = self.next;
        self.next += 1;
        if self.next == TINY_BASE {
            self.next = TINY_BASE + 100;
        }
        let b = Universe::make_value(vid, len.max(8), compressible);
        self.by_bytes.insert(b.clone(), vid);
        (vid, b)
    }

    pub fn tiny(&self, i: usize) -> (i64, Vec<u8>) {
        (TINY_BASE + i as i64, tiny_values()[i].clone())
    }

    /// Id of bytes that came back: the id they were put in with, or -2.
    pub fn id_of(&self, bytes: &[u8]) -> i64 {
        *self.by_bytes.get(bytes).unwrap_or(&-2)
    }
}

/// An entry as ids (what is logged) plus the bytes (what is put into the table).
#[derive(Clone)]
pub struct Ent {
    pub k: i64,
    pub s: u64,
    pub o: u8,
    pub v: i64,
    pub value: Vec<u8>,
}

pub fn ents_json(es: &[Ent]) -> Value {
    Value::Array(es.iter().map(|e| json!([e.k, e.s, e.o, e.v])).collect())
}

/// Generate a sorted run over the universe: some keys absent, 1..many versions per present key
/// (distinct sequence numbers with gaps, newest first), puts and deletes, values from empty to
/// multi-block.
pub fn gen_run(rng: &mut StdRng, u: &Universe, vals: &mut Values, max_big_values: usize) -> Vec<Ent> {
    let mut out = vec![];
    let mut bigs = 0;
    let p_present = *[0.3, 0.6, 0.9, 1.0].choose(rng).unwrap();
    let many_key = if rng.gen_bool(0.3) {
        rng.gen_range(1..=u.n() as i64)
    } else {
        0
    };
    for k in 1..=u.n() as i64 {
        if !rng.gen_bool(p_present) && k != many_key {
            continue;
        }
        let nver = if k == many_key {
            rng.gen_range(12..60)
        } else {
            match rng.gen_range(0..100) {
                0..=49 => 1,
                50..=79 => rng.gen_range(2..4),
                _ => rng.gen_range(4..9),
            }
        };
        // distinct sequence numbers, newest first, with gaps so that bounds in between exist
        let mut s: u64 = rng.gen_range(1..6) + (nver as u64) * 3;
        for _ in 0..nver {
            let o: u8 = if rng.gen_bool(0.25) { 0 } else { 1 };
            let (v, value) = if o == 0 {
                (0, vec![])
            } else {
                match rng.gen_range(0..100) {
                    0..=7 => vals.tiny(0), // empty value
                    8..=17 => vals.tiny(rng.gen_range(1..tiny_values().len())),
                    18..=67 => vals.fresh(rng.gen_range(8..40), rng.gen_bool(0.5)),
                    68..=92 => vals.fresh(rng.gen_range(40..400), rng.gen_bool(0.5)),
                    _ => {
                        if bigs < max_big_values {
                            bigs += 1;
                            // larger than one 4 KiB block, sometimes larger than several
                            vals.fresh(rng.gen_range(4200..14000), rng.gen_bool(0.5))
                        } else {
                            vals.fresh(rng.gen_range(400..1200), rng.gen_bool(0.5))
                        }
                    }
                }
            };
            out.push(Ent { k, s, o, v, value });
            let gap = rng.gen_range(1..4);
            if s <= gap {
                break;
            }
            s -= gap;
        }
    }
    out
}

/// Seek / get targets: for every key of the universe (present or absent) the bounds around
/// every version.
pub fn targets(rng: &mut StdRng, u: &Universe, run: &[Ent]) -> Vec<(i64, u64)> {
    let mut t = vec![];
    let maxs = run.iter().map(|e| e.s).max().unwrap_or(1);
    for k in 1..=u.n() as i64 {
        let vers: Vec<u64> = run.iter().filter(|e| e.k == k).map(|e| e.s).collect();
        let mut ss = vec![0u64, maxs + 5];
        let pick: Vec<u64> = if vers.len() > 14 {
            let mut v: Vec<u64> = vers[..6].to_vec();
            v.extend_from_slice(&vers[vers.len() - 4..]);
            for _ in 0..4 {
                v.push(*vers.choose(rng).unwrap());
            }
            v
        } else {
            vers.clone()
        };
        for s in pick {
            ss.push(s);
            ss.push(s + 1);
            if s > 0 {
                ss.push(s - 1);
            }
        }
        ss.sort_unstable();
        ss.dedup();
        for s in ss {
            t.push((k, s));
        }
    }
    t
}

// ---------------------------------------------------------------------------------------------
// driving the real table code
// ---------------------------------------------------------------------------------------------

pub fn table_options(fs: &SimFs, block: usize, policy: Option<Arc<dyn FilterPolicy>>) -> DbOptions {
    let o = OptSet {
        memtable: 1 << 20,
        file: 1 << 21,
        block,
        reuse: false,
    };
    let mut opts = o.to_options("/t", fs);
    opts.max_block_size = block;
    if let Some(p) = policy {
        opts.filter_policy = p;
    }
    opts
}

fn panic_text(p: Box<dyn std::any::Any + Send>) -> String {
    if let Some(s) = p.downcast_ref::<&str>() {
        format!("panic: {}", s)
    } else if let Some(s) = p.downcast_ref::<String>() {
        format!("panic: {}", s)
    } else {
        "panic".to_string()
    }
}

/// Build the table and open it with the real reader; Err = what failed.
pub fn build_and_open(opts: &DbOptions, number: u64, raw: &[Raw]) -> Result<VTable, String> {
    let r = std::panic::catch_unwind(std::panic::AssertUnwindSafe(|| {
        build_table(opts, number, raw).map_err(|e| format!("build: {}", e))?;
        VTable::open(opts, number).map_err(|e| format!("open: {}", e))
    }));
    match r {
        Ok(x) => x,
        Err(p) => Err(panic_text(p)),
    }
}

pub struct Ctx<'a> {
    pub u: &'a Universe,
    pub vals: &'a Values,
}

impl<'a> Ctx<'a> {
    pub fn cur_json(&self, it: &VTableIter) -> [i64; 4] {
        if !it.is_valid() {
            return [0, 0, 0, 0];
        }
        match it.current() {
            None => [-1, -1, -1, -1], // valid but no entry: never equal to anything expected
            Some((k, s, o, v)) => {
                let vid = if o == 1 { self.vals.id_of(&v) } else if v.is_empty() { 0 } else { -2 };
                [self.u.key_id(&k), s as i64, o as i64, vid]
            }
        }
    }
}

fn guarded<T>(f: impl FnOnce() -> T) -> Result<T, String> {
    std::panic::catch_unwind(std::panic::AssertUnwindSafe(f)).map_err(panic_text)
}

pub fn obs_iter(ctx: &Ctx, t: &VTable, n: usize, fwd: bool) -> Value {
    let r = guarded(|| {
        let mut it = t.iter();
        let mut res = vec![];
        let st = if fwd { it.seek_to_first() } else { it.seek_to_last() };
        if let Err(e) = st {
            return (false, res, e);
        }
        while it.is_valid() {
            res.push(ctx.cur_json(&it));
            if res.len() > n + 5 {
                return (false, res, "iteration does not terminate".to_string());
            }
            if fwd {
                it.next();
            } else {
                it.prev();
            }
        }
        (true, res, String::new())
    });
    let name = if fwd { "IterFwd" } else { "IterBwd" };
    match r {
        Ok((ok, res, err)) => json!({"e": name, "ok": ok, "res": res, "err": err}),
        Err(p) => json!({"e": name, "ok": false, "res": [], "err": p}),
    }
}

pub fn obs_seeks(ctx: &Ctx, t: &VTable, tg: &[(i64, u64)]) -> Value {
    let r = guarded(|| {
        let mut list = vec![];
        for &(k, s) in tg {
            let mut it = t.iter();
            if let Err(e) = it.seek(ctx.u.key(k), s) {
                return (false, list, e);
            }
            let c = ctx.cur_json(&it);
            list.push([k, s as i64, c[0], c[1], c[2], c[3]]);
        }
        (true, list, String::new())
    });
    match r {
        Ok((ok, list, err)) => json!({"e": "Seeks", "ok": ok, "list": list, "err": err}),
        Err(p) => json!({"e": "Seeks", "ok": false, "list": [], "err": p}),
    }
}

pub fn obs_walk(ctx: &Ctx, t: &VTable, rng: &mut StdRng, tg: &[(i64, u64)], len: usize) -> Value {
    // the moves are chosen while walking (next/prev only on a valid cursor)
    let r = guarded(|| {
        let mut it = t.iter();
        let mut steps = vec![];
        for i in 0..len {
            let valid = it.is_valid();
            let m = if i == 0 || !valid {
                *[0, 1, 2, 2].choose(rng).unwrap()
            } else {
                *[0, 1, 2, 2, 3, 3, 3, 3, 4, 4, 4, 4].choose(rng).unwrap()
            };
            let (mut k, mut s) = (0i64, 0u64);
            let st = match m {
                0 => it.seek_to_first(),
                1 => it.seek_to_last(),
                2 => {
                    let t = tg.choose(rng).unwrap();
                    k = t.0;
                    s = t.1;
                    it.seek(ctx.u.key(k), s)
                }
                3 => {
                    it.next();
                    Ok(())
                }
                _ => {
                    it.prev();
                    Ok(())
                }
            };
            if let Err(e) = st {
                return (false, steps, e);
            }
            let c = ctx.cur_json(&it);
            steps.push([m as i64, k, s as i64, c[0], c[1], c[2], c[3]]);
        }
        (true, steps, String::new())
    });
    match r {
        Ok((ok, steps, err)) => json!({"e": "Walk", "ok": ok, "steps": steps, "err": err}),
        Err(p) => json!({"e": "Walk", "ok": false, "steps": [], "err": p}),
    }
}

pub fn get_json(ctx: &Ctx, t: &VTable, k: i64, s: u64) -> Value {
    let r = guarded(|| t.get(ctx.u.key(k), s));
    match r {
        Ok(TableGet::Value(b)) => json!({"k": k, "s": s, "kind": "value", "v": ctx.vals.id_of(&b)}),
        Ok(TableGet::Deleted) => json!({"k": k, "s": s, "kind": "deleted", "v": 0}),
        Ok(TableGet::NotInFile) => json!({"k": k, "s": s, "kind": "notinfile", "v": 0}),
        Ok(TableGet::Error(e)) => json!({"k": k, "s": s, "kind": "error", "v": 0, "err": e}),
        Err(p) => json!({"k": k, "s": s, "kind": "error", "v": 0, "err": p}),
    }
}

pub fn obs_gets(ctx: &Ctx, t: &VTable, tg: &[(i64, u64)]) -> Value {
    let list: Vec<Value> = tg.iter().map(|&(k, s)| get_json(ctx, t, k, s)).collect();
    json!({"e": "Gets", "list": list})
}

/// Build one table from `run` with `block` and log the Table event; returns the opened table.
pub fn table_event(
    u: &Universe,
    run: &[Ent],
    block: usize,
    policy: Option<Arc<dyn FilterPolicy>>,
    number: u64,
    lines: &mut Vec<Value>,
    extra: Value,
) -> Option<VTable> {
    table_event_fs(u, run, block, policy, number, lines, extra).map(|x| x.0)
}

/// Open table `number` of `fs` with ANOTHER filter policy than it was written with (the documented
/// way to change the filter format: the reader finds no filter block for its policy name and has
/// to work without one).
pub fn reopen_with_policy(
    fs: &SimFs,
    block: usize,
    policy: Arc<dyn FilterPolicy>,
    number: u64,
) -> Result<VTable, String> {
    let opts = table_options(fs, block, Some(policy));
    match std::panic::catch_unwind(std::panic::AssertUnwindSafe(|| {
        VTable::open(&opts, number).map_err(|e| format!("open: {}", e))
    })) {
        Ok(x) => x,
        Err(p) => Err(panic_text(p)),
    }
}

pub fn table_event_fs(
    u: &Universe,
    run: &[Ent],
    block: usize,
    policy: Option<Arc<dyn FilterPolicy>>,
    number: u64,
    lines: &mut Vec<Value>,
    extra: Value,
) -> Option<(VTable, SimFs)> {
    let fs = SimFs::new("/t");
    let opts = table_options(&fs, block, policy);
    let raw: Vec<Raw> = run
        .iter()
        .map(|e| (u.key(e.k).clone(), e.s, e.o, e.value.clone()))
        .collect();
    let r = build_and_open(&opts, number, &raw);
    let (ok, err) = match &r {
        Ok(_) => (true, String::new()),
        Err(e) => (false, e.clone()),
    };
    let mut ev = json!({"e": "Table", "block": block.min(i32::MAX as usize), "n": run.len(), "ok": ok,
                        "big": false, "err": err, "ents": ents_json(run)});
    if let (Value::Object(a), Value::Object(b)) = (&mut ev, extra) {
        for (k, v) in b {
            a.insert(k, v);
        }
    }
    lines.push(ev);
    r.ok().map(|t| (t, fs))
}

// ---------------------------------------------------------------------------------------------
// big tables: checked by the driver against its own copy (digest only)
// ---------------------------------------------------------------------------------------------

fn icmp(a: &(Vec<u8>, u64), b: &(Vec<u8>, u64)) -> std::cmp::Ordering {
    a.0.cmp(&b.0).then(b.1.cmp(&a.1))
}

fn big_run(rng: &mut StdRng, n: usize) -> Vec<Raw> {
    let mut keys: Vec<Vec<u8>> = vec![];
    let prefixes: Vec<Vec<u8>> = vec![vec![], b"user/".to_vec(), vec![0xff, 0xff], vec![b'k'; 30], vec![0x00]];
    while keys.len() < n {
        let mut k = prefixes.choose(rng).unwrap().clone();
        let m = rng.gen_range(0..10);
        for _ in 0..m {
            k.push(*[0x00u8, 0x01, b'a', b'b', 0x7f, 0xfe, 0xff].choose(rng).unwrap_or(&0));
        }
        if rng.gen_bool(0.5) {
            k.extend_from_slice(&rng.gen::<u32>().to_be_bytes());
        }
        keys.push(k);
    }
    keys.sort();
    keys.dedup();
    let mut out: Vec<Raw> = vec![];
    let mut vid: u32 = 0;
    for k in keys {
        let nver = match rng.gen_range(0..10) {
            0..=6 => 1,
            7..=8 => 2,
            _ => rng.gen_range(3..7),
        };
        let mut s: u64 = rng.gen_range(1..50) + nver * 3;
        for _ in 0..nver {
            let o: u8 = if rng.gen_bool(0.2) { 0 } else { 1 };
            let value = if o == 0 {
                vec![]
            } else {
                vid += 1;
                let len = *[0usize, 1, 9, 30, 120, 700].choose(rng).unwrap();
                let mut v = vid.to_le_bytes().to_vec();
                v.resize(len.max(4), (vid & 0xff) as u8);
                if len == 0 {
                    v.clear();
                }
                v
            };
            out.push((k.clone(), s, o, value));
            s -= rng.gen_range(1..3);
        }
        if out.len() >= n {
            break;
        }
    }
    out
}

fn big_expected_seek<'a>(run: &'a [Raw], k: &[u8], s: u64) -> Option<&'a Raw> {
    let t = (k.to_vec(), s);
    let i = run.partition_point(|e| icmp(&(e.0.clone(), e.1), &t) == std::cmp::Ordering::Less);
    run.get(i)
}

fn big_expected_get(run: &[Raw], k: &[u8], s: u64) -> TableGet {
    match big_expected_seek(run, k, s) {
        Some(e) if e.0.as_slice() == k => {
            if e.2 == 0 {
                TableGet::Deleted
            } else {
                TableGet::Value(e.3.clone())
            }
        }
        _ => TableGet::NotInFile,
    }
}

fn big_check(lines: &mut Vec<Value>, what: &str, n: usize, bad: usize, first: usize, ok: bool, err: &str) {
    big_check_h(lines, what, n, bad, 0, first, ok, err);
}

/// `hidden` = lookups that answered "not in this file" for an entry the run holds
#[allow(clippy::too_many_arguments)]
fn big_check_h(lines: &mut Vec<Value>, what: &str, n: usize, bad: usize, hidden: usize, first: usize, ok: bool, err: &str) {
    lines.push(json!({"e": "BigCheck", "what": what, "n": n, "bad": bad, "hidden": hidden, "first": first,
                      "ok": ok, "err": err}));
}

pub fn big_table(
    rng: &mut StdRng,
    n: usize,
    block: usize,
    policy: Option<Arc<dyn FilterPolicy>>,
    number: u64,
    lines: &mut Vec<Value>,
) {
    let run = big_run(rng, n);
    let fs = SimFs::new("/t");
    let opts = table_options(&fs, block, policy);
    let r = build_and_open(&opts, number, &run);
    let (ok, err) = match &r {
        Ok(_) => (true, String::new()),
        Err(e) => (false, e.clone()),
    };
    lines.push(json!({"e": "Table", "block": block.min(i32::MAX as usize), "n": run.len(), "ok": ok,
                      "big": true, "err": err, "ents": []}));
    let t = match r {
        Ok(t) => t,
        Err(_) => return,
    };
    let same = |it: &VTableIter, want: Option<&Raw>| -> bool {
        match (it.is_valid(), want) {
            (false, None) => true,
            (true, Some(w)) => it.current().map_or(false, |c| &c == w),
            _ => false,
        }
    };
    // full iteration, both directions
    for fwd in [true, false] {
        let r = guarded(|| {
            let mut it = t.iter();
            let st = if fwd { it.seek_to_first() } else { it.seek_to_last() };
            if let Err(e) = st {
                return (0, 0, 0, false, e);
            }
            let (mut i, mut bad, mut first) = (0usize, 0usize, 0usize);
            while it.is_valid() && i < run.len() + 5 {
                let want = if fwd { run.get(i) } else { run.len().checked_sub(i + 1).and_then(|j| run.get(j)) };
                if !same(&it, want) {
                    bad += 1;
                    if first == 0 {
                        first = i + 1;
                    }
                }
                i += 1;
                if fwd {
                    it.next();
                } else {
                    it.prev();
                }
            }
            if i != run.len() {
                bad += 1;
                if first == 0 {
                    first = i + 1;
                }
            }
            (i, bad, first, true, String::new())
        });
        let what = if fwd { "iterfwd" } else { "iterbwd" };
        match r {
            Ok((i, bad, first, ok, e)) => big_check(lines, what, i, bad, first, ok, &e),
            Err(p) => big_check(lines, what, 0, 1, 0, false, &p),
        }
    }
    // targets: exact entries, bounds around them, absent keys
    let mut tg: Vec<(Vec<u8>, u64)> = vec![];
    for _ in 0..300 {
        let e = run.choose(rng).unwrap();
        let s = match rng.gen_range(0..4) {
            0 => e.1,
            1 => e.1 + 1,
            2 => e.1.saturating_sub(1),
            _ => rng.gen_range(0..80),
        };
        tg.push((e.0.clone(), s));
        if rng.gen_bool(0.3) {
            let mut k = e.0.clone();
            match rng.gen_range(0..3) {
                0 => k.push(0x00),
                1 => {
                    k.pop();
                }
                _ => k.push(0xff),
            }
            tg.push((k, rng.gen_range(0..80)));
        }
    }
    tg.push((vec![], 0));
    tg.push((vec![0xff; 12], 100));
    // seeks
    let r = guarded(|| {
        let (mut bad, mut first) = (0usize, 0usize);
        for (i, (k, s)) in tg.iter().enumerate() {
            let mut it = t.iter();
            if let Err(e) = it.seek(k, *s) {
                return (i, bad + 1, i + 1, false, e);
            }
            if !same(&it, big_expected_seek(&run, k, *s)) {
                bad += 1;
                if first == 0 {
                    first = i + 1;
                }
            }
        }
        (tg.len(), bad, first, true, String::new())
    });
    match r {
        Ok((n, bad, first, ok, e)) => big_check(lines, "seek", n, bad, first, ok, &e),
        Err(p) => big_check(lines, "seek", 0, 1, 0, false, &p),
    }
    // a long random walk
    let r = guarded(|| {
        let mut it = t.iter();
        let mut pos: Option<usize> = None; // index into run
        let (mut bad, mut first) = (0usize, 0usize);
        let steps = 600;
        for i in 0..steps {
            let m = if pos.is_none() { rng.gen_range(0..3) } else { *[0, 1, 2, 3, 3, 3, 3, 4, 4, 4, 4].choose(rng).unwrap() };
            match m {
                0 => {
                    let _ = it.seek_to_first();
                    pos = if run.is_empty() { None } else { Some(0) };
                }
                1 => {
                    let _ = it.seek_to_last();
                    pos = run.len().checked_sub(1);
                }
                2 => {
                    let (k, s) = tg.choose(rng).unwrap();
                    let _ = it.seek(k, *s);
                    let t = (k.clone(), *s);
                    let j = run.partition_point(|e| icmp(&(e.0.clone(), e.1), &t) == std::cmp::Ordering::Less);
                    pos = if j < run.len() { Some(j) } else { None };
                }
                3 => {
                    it.next();
                    pos = pos.and_then(|p| if p + 1 < run.len() { Some(p + 1) } else { None });
                }
                _ => {
                    it.prev();
                    pos = pos.and_then(|p| p.checked_sub(1));
                }
            }
            if !same(&it, pos.and_then(|p| run.get(p))) {
                bad += 1;
                if first == 0 {
                    first = i + 1;
                }
                // resynchronise so that one slip is counted once
                let _ = it.seek_to_first();
                pos = if run.is_empty() { None } else { Some(0) };
            }
        }
        (steps, bad, first)
    });
    match r {
        Ok((n, bad, first)) => big_check(lines, "walk", n, bad, first, true, ""),
        Err(p) => big_check(lines, "walk", 0, 1, 0, false, &p),
    }
    // get for every stored entry (must never be "not in file") and for the other targets
    let r = guarded(|| {
        let (mut bad, mut hidden, mut first) = (0usize, 0usize, 0usize);
        for (i, e) in run.iter().enumerate() {
            let got = t.get(&e.0, e.1);
            let want = big_expected_get(&run, &e.0, e.1);
            if got != want {
                bad += 1;
                if got == TableGet::NotInFile {
                    hidden += 1;
                }
                if first == 0 {
                    first = i + 1;
                }
            }
        }
        (run.len(), bad, hidden, first)
    });
    match r {
        Ok((n, bad, hidden, first)) => big_check_h(lines, "getpresent", n, bad, hidden, first, true, ""),
        Err(p) => big_check_h(lines, "getpresent", 0, 1, 0, 0, false, &p),
    }
    let r = guarded(|| {
        let (mut bad, mut hidden, mut first) = (0usize, 0usize, 0usize);
        for (i, (k, s)) in tg.iter().enumerate() {
            let got = t.get(k, *s);
            let want = big_expected_get(&run, k, *s);
            if got != want {
                bad += 1;
                if got == TableGet::NotInFile {
                    hidden += 1;
                }
                if first == 0 {
                    first = i + 1;
                }
            }
        }
        (tg.len(), bad, hidden, first)
    });
    match r {
        Ok((n, bad, hidden, first)) => big_check_h(lines, "get", n, bad, hidden, first, true, ""),
        Err(p) => big_check_h(lines, "get", 0, 1, 0, 0, false, &p),
    }
}

// ---------------------------------------------------------------------------------------------
// one run
// ---------------------------------------------------------------------------------------------

#[derive(Clone, Debug, serde::Serialize, serde::Deserialize)]
pub struct TableCfg {
    pub seed: u64,
    /// sorted runs per run of the driver; each is built once per block size
    pub tables: usize,
    /// big (digest-checked) tables per run
    pub big: usize,
    pub walks: usize,
    /// also build the empty run (raindb itself never writes an empty table)
    pub empty: bool,
}

pub fn run_tables(cfg: &TableCfg, run_no: u64) -> (Vec<Value>, usize) {
    let mut rng = StdRng::seed_from_u64(cfg.seed.wrapping_mul(0x9E3779B97F4A7C15) ^ 0x7ab1e);
    let mut cat = table_key_catalogue(&mut rng);
    cat.shuffle(&mut rng);
    let nk = rng.gen_range(5..=14).min(cat.len());
    // the edge keys are in most universes
    let mut chosen: Vec<Vec<u8>> = cat[..nk].to_vec();
    if rng.gen_bool(0.7) {
        chosen.push(vec![]);
    }
    if rng.gen_bool(0.5) {
        chosen.push(vec![0xff; 9]);
    }
    let u = Universe::from_keys(chosen);
    let mut vals = Values::new();
    let mut lines = vec![json!({"e": "Reset", "run": run_no, "seed": cfg.seed, "tag": "", "nk": u.n(),
                                "driver": "tablefmt"})];
    let mut tables = 0usize;
    let mut number = 1u64;
    for ti in 0..cfg.tables {
        let run = if ti == 0 && cfg.empty {
            vec![]
        } else {
            let mut r = gen_run(&mut rng, &u, &mut vals, 2);
            if r.is_empty() {
                // the empty run is only built on request
                let (v, value) = vals.fresh(12, true);
                r.push(Ent { k: rng.gen_range(1..=u.n() as i64), s: 3, o: 1, v, value });
            }
            r
        };
        let tg = targets(&mut rng, &u, &run);
        for &block in BLOCK_SIZES.iter() {
            number += 1;
            tables += 1;
            let t = table_event(&u, &run, block, None, number, &mut lines, json!({}));
            let t = match t {
                Some(t) => t,
                None => continue,
            };
            let ctx = Ctx { u: &u, vals: &vals };
            lines.push(obs_iter(&ctx, &t, run.len(), true));
            lines.push(obs_iter(&ctx, &t, run.len(), false));
            lines.push(obs_seeks(&ctx, &t, &tg));
            for _ in 0..cfg.walks {
                let len = rng.gen_range(4..16);
                lines.push(obs_walk(&ctx, &t, &mut rng, &tg, len));
            }
            lines.push(obs_gets(&ctx, &t, &tg));
        }
    }
    for _ in 0..cfg.big {
        let n = *[1000usize, 2500, 6000, 10000].choose(&mut rng).unwrap();
        for &block in [64usize, 4096, 1 << 22].iter() {
            number += 1;
            tables += 1;
            big_table(&mut rng, n, block, None, number, &mut lines);
        }
    }
    (lines, tables)
}

// ---------------------------------------------------------------------------------------------
// output: trace files (split between runs), results.json, one replay file per run
// ---------------------------------------------------------------------------------------------

pub struct Out {
    dir: PathBuf,
    chunk: usize,
    lines: Vec<Value>,
    pending: Vec<usize>, // indexes into results of the runs in the current file
    pub results: Vec<Value>,
}

impl Out {
    pub fn new(dir: PathBuf) -> Self {
        std::fs::create_dir_all(&dir).unwrap();
        Out { dir, chunk: 0, lines: vec![], pending: vec![], results: vec![] }
    }

    fn path(&self) -> PathBuf {
        self.dir.join(format!("trace_{:04}.ndjson", self.chunk))
    }

    fn flush(&mut self) {
        if self.lines.is_empty() {
            return;
        }
        self.lines.push(json!({"e": "End"}));
        let p = self.path();
        crate::trace::write_ndjson(&p, &self.lines).unwrap();
        for &i in &self.pending {
            self.results[i]["trace"] = json!(p.to_string_lossy());
        }
        self.lines.clear();
        self.pending.clear();
        self.chunk += 1;
    }

    /// Append one run (its first line is the Reset event).
    pub fn add_run(&mut self, run_lines: Vec<Value>, mut result: Value, replay: Value) {
        if !self.lines.is_empty() && self.lines.len() + run_lines.len() > MAX_LINES_PER_FILE {
            self.flush();
        }
        let seed = result["seed"].as_u64().unwrap_or(0);
        let rpath = self.dir.join(format!("replay_{}.json", seed));
        std::fs::write(&rpath, serde_json::to_string(&replay).unwrap()).unwrap();
        result["replay"] = json!(rpath.to_string_lossy());
        result["events"] = json!(run_lines.len());
        self.results.push(result);
        self.pending.push(self.results.len() - 1);
        self.lines.extend(run_lines);
    }

    pub fn finish(&mut self) {
        self.flush();
        std::fs::write(
            self.dir.join("results.json"),
            serde_json::to_string_pretty(&json!({"runs": self.results, "aborted": false})).unwrap(),
        )
        .unwrap();
    }
}

pub fn cmd(m: &HashMap<String, String>) -> i32 {
    let out = PathBuf::from(m.get("out").cloned().unwrap_or_else(|| "/verif/out/c13/tablefmt".into()));
    let seed0: u64 = crate::arg_of(m, "seed", 1);
    let runs: u64 = crate::arg_of(m, "runs", 4);
    let mut cfgs: Vec<TableCfg> = (seed0..seed0 + runs)
        .map(|seed| TableCfg {
            seed,
            tables: crate::arg_of(m, "tables", 12),
            big: crate::arg_of(m, "big", 1),
            walks: crate::arg_of(m, "walks", 3),
            empty: m.contains_key("empty"),
        })
        .collect();
    if let Some(p) = m.get("replay") {
        let v: Value = serde_json::from_str(&std::fs::read_to_string(p).expect("replay file")).unwrap();
        cfgs = vec![serde_json::from_value(v["cfg"].clone()).expect("replay cfg")];
    }
    let mut o = Out::new(out);
    for (i, cfg) in cfgs.iter().enumerate() {
        let (lines, tables) = run_tables(cfg, i as u64 + 1);
        let panics = crate::common::take_panics();
        o.add_run(
            lines,
            json!({"seed": cfg.seed, "status": "ok", "tables": tables, "panics": panics.len()}),
            json!({"driver": "tablefmt", "seed": cfg.seed, "cfg": cfg}),
        );
    }
    o.finish();
    0
}
