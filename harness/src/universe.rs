//! Key / value universe: a small ordered set of adversarial user keys mapped to ids 1..n and
//! self-describing values mapped to value ids.

use rand::rngs::StdRng;
use rand::seq::SliceRandom;
use rand::Rng;
use std::collections::HashMap;

pub const TINY_BASE: i64 = 900;
pub const GARBAGE: i64 = -2;

pub fn tiny_values() -> Vec<Vec<u8>> {
    vec![
        vec![],
        vec![0x00],
        vec![0xff],
        b"a".to_vec(),
        b"ab".to_vec(),
        vec![0x00, 0x00, 0x00],
        vec![0xff, 0xff, 0xff, 0xff],
    ]
}

pub fn key_catalogue() -> Vec<Vec<u8>> {
    let mut long_a = vec![b'k'; 40];
    long_a.push(b'1');
    let mut long_b = vec![b'k'; 40];
    long_b.push(b'2');
    let mut long_c = vec![b'k'; 40];
    long_c.extend_from_slice(b"2\x00");
    let big = vec![b'q'; 300];
    let mut big2 = vec![b'q'; 300];
    big2.push(b'!');
    vec![
        vec![],
        vec![0x00],
        vec![0x00, 0x00],
        vec![0x00, 0xff],
        vec![0x01],
        b"a".to_vec(),
        b"a\x00".to_vec(),
        b"aa".to_vec(),
        b"ab".to_vec(),
        b"b".to_vec(),
        b"key05".to_vec(),
        b"key06".to_vec(),
        b"key07".to_vec(),
        long_a,
        long_b,
        long_c,
        b"m".to_vec(),
        big,
        big2,
        b"zebra".to_vec(),
        b"zebra0".to_vec(),
        vec![0xfe],
        vec![0xff],
        vec![0xff, 0x00],
        vec![0xff, 0xff],
        vec![0xff, 0xff, 0xff],
    ]
}

#[derive(Clone, Debug)]
pub struct Universe {
    /// sorted keys; id = index + 1
    pub keys: Vec<Vec<u8>>,
    ids: HashMap<Vec<u8>, i64>,
}

#[derive(Clone, Copy, Debug, PartialEq, Eq)]
pub enum SizeClass {
    Tiny(usize),
    Small,
    Medium,
    Large,
    Huge(usize),
}

impl Universe {
    pub fn from_keys(mut keys: Vec<Vec<u8>>) -> Self {
        keys.sort();
        keys.dedup();
        let ids = keys
            .iter()
            .enumerate()
            .map(|(i, k)| (k.clone(), (i + 1) as i64))
            .collect();
        Universe { keys, ids }
    }

    /// Choose `n` keys from the catalogue.
    pub fn random(rng: &mut StdRng, n: usize) -> Self {
        let mut cat = key_catalogue();
        cat.shuffle(rng);
        cat.truncate(n);
        Universe::from_keys(cat)
    }

    /// Plain ascii keys key01..keyNN (used where byte shapes do not matter).
    pub fn plain(n: usize) -> Self {
        Universe::from_keys(
            (1..=n)
                .map(|i| format!("key{:02}", i).into_bytes())
                .collect(),
        )
    }

    /// Keys of about 17 KB (a common prefix and two digits): the version edit of every flush names
    /// a smallest and a largest key, so every manifest record is larger than a 32 KiB log block
    /// and is written as several fragments.
    pub fn giant(n: usize) -> Self {
        Universe::from_keys(
            (1..=n)
                .map(|i| {
                    let mut k = vec![b'G'; 17_000 + (i % 3) * 700];
                    k.extend_from_slice(format!("{:02}", i).as_bytes());
                    k
                })
                .collect(),
        )
    }

    pub fn n(&self) -> usize {
        self.keys.len()
    }

    pub fn key(&self, id: i64) -> &Vec<u8> {
        &self.keys[(id - 1) as usize]
    }

    pub fn key_id(&self, bytes: &[u8]) -> i64 {
        *self.ids.get(bytes).unwrap_or(&-1)
    }

    /// Build the value with id `vid` (>= 1, < TINY_BASE or > TINY_BASE + 100) and a length.
    pub fn make_value(vid: i64, len: usize, compressible: bool) -> Vec<u8> {
        assert!(len >= 8);
        let mut v = Vec::with_capacity(len);
        v.push(0xA5);
        v.push(if compressible { 0x5A } else { 0x5B });
        v.extend_from_slice(&(vid as u32).to_le_bytes());
        v.push(((vid * 7 + 3) & 0xff) as u8);
        v.push(0x00);
        let mut x: u32 = (vid as u32).wrapping_mul(2654435761).wrapping_add(12345);
        for j in 8..len {
            if compressible {
                v.push(((vid as usize * 31 + (j / 16) * 7) & 0xff) as u8);
            } else {
                x ^= x << 13;
                x ^= x >> 17;
                x ^= x << 5;
                v.push((x & 0xff) as u8);
            }
        }
        v
    }

    pub fn tiny_value(idx: usize) -> Vec<u8> {
        tiny_values()[idx].clone()
    }

    /// Canonical id of a value as it comes back from the database.
    pub fn value_id(&self, bytes: &[u8]) -> i64 {
        if bytes.len() < 8 {
            for (i, t) in tiny_values().iter().enumerate() {
                if t.as_slice() == bytes {
                    return TINY_BASE + i as i64;
                }
            }
            return GARBAGE;
        }
        if bytes[0] != 0xA5 || (bytes[1] != 0x5A && bytes[1] != 0x5B) {
            return GARBAGE;
        }
        let vid = u32::from_le_bytes([bytes[2], bytes[3], bytes[4], bytes[5]]) as i64;
        let expect = Universe::make_value(vid, bytes.len(), bytes[1] == 0x5A);
        if expect.as_slice() == bytes {
            vid
        } else {
            GARBAGE
        }
    }

    pub fn pick_size(rng: &mut StdRng, memtable: usize, allow_big: bool) -> SizeClass {
        let r = rng.gen_range(0..100);
        if r < 8 {
            SizeClass::Tiny(rng.gen_range(0..tiny_values().len()))
        } else if r < 70 {
            SizeClass::Small
        } else if r < 93 || !allow_big {
            SizeClass::Medium
        } else if r < 98 {
            SizeClass::Large
        } else {
            SizeClass::Huge(memtable)
        }
    }

    /// Produce (canonical id, bytes) for a fresh value.
    pub fn fresh_value(rng: &mut StdRng, next_vid: &mut i64, class: SizeClass) -> (i64, Vec<u8>) {
        match class {
            SizeClass::Tiny(i) => (TINY_BASE + i as i64, Universe::tiny_value(i)),
            other => {
                let vid = *next_vid;
                *next_vid += 1;
                if *next_vid == TINY_BASE {
                    *next_vid = TINY_BASE + 100;
                }
                let len = match other {
                    SizeClass::Small => rng.gen_range(8..40),
                    SizeClass::Medium => rng.gen_range(40..400),
                    SizeClass::Large => rng.gen_range(33_000..70_000),
                    SizeClass::Huge(m) => (m + rng.gen_range(10..2000)).clamp(8, 200_000),
                    SizeClass::Tiny(_) => unreachable!(),
                };
                (vid, Universe::make_value(vid, len, rng.gen_bool(0.5)))
            }
        }
    }
}
