//! SimFs: an in-memory implementation of raindb's public `FileSystem` trait with POSIX-like
//! handle semantics, a journal of every mutating operation (so that the disk image after any
//! prefix of operations can be rebuilt, optionally with a torn last write), fault injection and
//! trace events.

use parking_lot::Mutex;
use raindb::fs::{
    FileLock, FileSystem, InMemoryFileSystem, RandomAccessFile, ReadonlyRandomAccessFile,
};
use serde_json::{json, Value};
use std::collections::{BTreeMap, BTreeSet, HashMap};
use std::io::{self, Read, Seek, SeekFrom, Write};
use std::path::{Path, PathBuf};
use std::sync::Arc;

use crate::trace::TraceSink;

#[derive(Clone, Debug)]
pub enum JOp {
    /// create or truncate: path now refers to a fresh empty inode
    Create { path: PathBuf, inode: u64 },
    /// write data at offset of inode
    Write {
        inode: u64,
        offset: usize,
        data: Vec<u8>,
    },
    Rename { from: PathBuf, to: PathBuf },
    Remove { path: PathBuf },
    RemoveDirAll { path: PathBuf },
}

#[derive(Clone, Debug, Default)]
pub struct Disk {
    pub names: BTreeMap<PathBuf, u64>,
    pub inodes: HashMap<u64, Vec<u8>>,
    pub dirs: BTreeSet<PathBuf>,
}

impl Disk {
    pub fn apply(&mut self, op: &JOp, torn_len: Option<usize>) {
        match op {
            JOp::Create { path, inode } => {
                self.names.insert(path.clone(), *inode);
                self.inodes.insert(*inode, vec![]);
            }
            JOp::Write {
                inode,
                offset,
                data,
            } => {
                let data = match torn_len {
                    Some(n) => &data[..n.min(data.len())],
                    None => &data[..],
                };
                let f = self.inodes.entry(*inode).or_default();
                if f.len() < *offset {
                    f.resize(*offset, 0);
                }
                let end = offset + data.len();
                if f.len() < end {
                    f.resize(end, 0);
                }
                f[*offset..end].copy_from_slice(data);
            }
            JOp::Rename { from, to } => {
                if let Some(i) = self.names.remove(from) {
                    self.names.insert(to.clone(), i);
                }
            }
            JOp::Remove { path } => {
                self.names.remove(path);
            }
            JOp::RemoveDirAll { path } => {
                let doomed: Vec<PathBuf> = self
                    .names
                    .keys()
                    .filter(|k| k.starts_with(path))
                    .cloned()
                    .collect();
                for d in doomed {
                    self.names.remove(&d);
                }
            }
        }
    }

    pub fn file(&self, path: &Path) -> Option<&Vec<u8>> {
        self.names.get(path).and_then(|i| self.inodes.get(i))
    }

    pub fn file_mut(&mut self, path: &Path) -> Option<&mut Vec<u8>> {
        let i = *self.names.get(path)?;
        self.inodes.get_mut(&i)
    }

    /// drop inodes that no name refers to
    pub fn gc(&mut self) {
        let live: BTreeSet<u64> = self.names.values().cloned().collect();
        self.inodes.retain(|k, _| live.contains(k));
    }

    pub fn listing(&self) -> Vec<String> {
        self.names
            .keys()
            .map(|p| p.to_string_lossy().to_string())
            .collect()
    }
}

#[derive(Clone, Debug, PartialEq, Eq)]
pub enum FaultMode {
    Off,
    /// fail the faultable operation with this global ordinal (0-based); sticky = and all later
    At { index: u64, sticky: bool },
}

#[derive(Clone, Debug)]
pub struct OpRecord {
    pub index: u64,
    pub class: &'static str,
    pub path: String,
    pub failed: bool,
}

pub struct SimState {
    pub disk: Disk,
    pub journal: Vec<JOp>,
    pub next_inode: u64,
    pub fault: FaultMode,
    pub fault_fired: u64,
    pub op_counter: u64,
    pub oplog: Vec<OpRecord>,
    pub record_oplog: bool,
    /// per log file (inode): how far its contents have been parsed as log items
    /// (`usize::MAX` = not judged any more)
    pub log_parsed: std::collections::HashMap<u64, usize>,
}

const LOG_BLOCK: usize = 32768;
const LOG_HDR: usize = 7;

/// Parse `tail` (the bytes of a log file from absolute offset `pos` on) as complete log items:
/// fragments (7-byte header with the payload length) and zero trailers where no header fits.
/// Returns (offset up to which complete items were parsed, whether an item breaks the format's
/// layout rule: a fragment that does not end inside its 32 KiB block, or a non-zero trailer).
/// Independent of how the writer groups its write calls.
fn parse_log_items(mut pos: usize, tail: &[u8]) -> (usize, bool) {
    let mut idx = 0;
    loop {
        let off = pos % LOG_BLOCK;
        let remaining = tail.len() - idx;
        if LOG_BLOCK - off < LOG_HDR {
            let want = LOG_BLOCK - off;
            if remaining < want {
                return (pos, false);
            }
            if tail[idx..idx + want].iter().any(|b| *b != 0) {
                return (pos, true);
            }
            idx += want;
            pos += want;
            continue;
        }
        if remaining < LOG_HDR {
            return (pos, false);
        }
        let len = u16::from_le_bytes([tail[idx + 4], tail[idx + 5]]) as usize;
        if off + LOG_HDR + len > LOG_BLOCK {
            return (pos, true);
        }
        if remaining < LOG_HDR + len {
            return (pos, false);
        }
        idx += LOG_HDR + len;
        pos += LOG_HDR + len;
    }
}

/// Rendezvous: threads that arrive at a filesystem call of class `class` wait (up to `timeout`)
/// until `need` threads have arrived and then proceed together, so that whatever each of them
/// does right after the call races with the others.
#[derive(Default)]
pub struct Rendezvous {
    pub class: &'static str,
    pub need: usize,
    pub arrived: usize,
    pub generation: u64,
    pub timeout_ms: u64,
    pub met: u64,
}

pub struct SimInner {
    pub rv: Mutex<Rendezvous>,
    pub rv_gen: std::sync::atomic::AtomicU64,
    /// whether read calls count as faultable operations (off by default: they are by far the most
    /// frequent calls and are not in the list of C08's quantifier)
    pub read_faults: std::sync::atomic::AtomicBool,
    pub state: Mutex<SimState>,
    locker: InMemoryFileSystem,
    pub sink: Mutex<Option<Arc<TraceSink>>>,
    pub root: PathBuf,
}

#[derive(Clone)]
pub struct SimFs {
    pub inner: Arc<SimInner>,
}

pub fn classify(root: &Path, path: &Path) -> (String, i64) {
    let rel = path.strip_prefix(root).unwrap_or(path);
    let name = rel
        .file_name()
        .map(|s| s.to_string_lossy().to_string())
        .unwrap_or_default();
    if name == "CURRENT" {
        return ("current".into(), 0);
    }
    if name == "LOCK" {
        return ("lock".into(), 0);
    }
    let (stem, ext) = match name.rsplit_once('.') {
        Some((s, e)) => (s.to_string(), e.to_string()),
        None => (name.clone(), String::new()),
    };
    let num = |s: &str| s.parse::<i64>().unwrap_or(-1);
    match ext.as_str() {
        "manifest" => ("manifest".into(), num(stem.trim_start_matches("MANIFEST-"))),
        "log" => ("wal".into(), num(stem.trim_start_matches("wal-"))),
        "rdb" => ("table".into(), num(&stem)),
        "dbtemp" => ("temp".into(), num(&stem)),
        _ => ("other".into(), -1),
    }
}

fn injected() -> io::Error {
    io::Error::new(io::ErrorKind::Other, "injected fault")
}

impl SimFs {
    pub fn new(root: &str) -> Self {
        SimFs::from_disk(root, Disk::default())
    }

    pub fn from_disk(root: &str, disk: Disk) -> Self {
        let next_inode = disk.inodes.keys().max().map_or(1, |m| m + 1);
        SimFs {
            inner: Arc::new(SimInner {
                rv: Mutex::new(Rendezvous::default()),
                rv_gen: std::sync::atomic::AtomicU64::new(0),
                read_faults: std::sync::atomic::AtomicBool::new(false),
                state: Mutex::new(SimState {
                    disk,
                    journal: vec![],
                    next_inode,
                    fault: FaultMode::Off,
                    fault_fired: 0,
                    op_counter: 0,
                    oplog: vec![],
                    record_oplog: false,
                    log_parsed: Default::default(),
                }),
                locker: InMemoryFileSystem::new(),
                sink: Mutex::new(None),
                root: PathBuf::from(root),
            }),
        }
    }

    pub fn attach(&self, sink: Option<Arc<TraceSink>>) {
        *self.inner.sink.lock() = sink;
    }

    pub fn journal_len(&self) -> usize {
        self.inner.state.lock().journal.len()
    }

    pub fn journal(&self) -> Vec<JOp> {
        self.inner.state.lock().journal.clone()
    }

    pub fn disk(&self) -> Disk {
        let mut d = self.inner.state.lock().disk.clone();
        d.gc();
        d
    }

    /// Arm (need >= 2) or disarm (need = 0) the rendezvous; returns how many meetings happened.
    pub fn set_rendezvous(&self, class: &'static str, need: usize, timeout_ms: u64) -> u64 {
        let mut rv = self.inner.rv.lock();
        let met = rv.met;
        rv.class = class;
        rv.need = need;
        rv.arrived = 0;
        rv.generation += 1;
        self.inner
            .rv_gen
            .store(rv.generation, std::sync::atomic::Ordering::Release);
        rv.timeout_ms = timeout_ms;
        rv.met = 0;
        met
    }

    pub fn set_read_faults(&self, on: bool) {
        self.inner
            .read_faults
            .store(on, std::sync::atomic::Ordering::Relaxed);
    }

    pub fn set_fault(&self, mode: FaultMode) {
        let mut st = self.inner.state.lock();
        st.fault = mode;
        st.fault_fired = 0;
    }

    pub fn reset_counter(&self) {
        let mut st = self.inner.state.lock();
        st.op_counter = 0;
        st.oplog.clear();
    }

    pub fn op_counter(&self) -> u64 {
        self.inner.state.lock().op_counter
    }

    pub fn fault_fired(&self) -> u64 {
        self.inner.state.lock().fault_fired
    }

    pub fn record_oplog(&self, on: bool) {
        self.inner.state.lock().record_oplog = on;
    }

    pub fn oplog(&self) -> Vec<OpRecord> {
        self.inner.state.lock().oplog.clone()
    }

    /// Rebuild the disk after the first `n` journal operations of `journal` applied on `base`;
    /// if `torn` is given, operation `n` (0-based, must be a Write) is applied with only that
    /// many bytes.
    pub fn image(base: &Disk, journal: &[JOp], n: usize, torn: Option<usize>) -> Disk {
        let mut d = base.clone();
        for op in &journal[..n] {
            d.apply(op, None);
        }
        if let Some(t) = torn {
            d.apply(&journal[n], Some(t));
        }
        d.gc();
        d
    }
}

impl SimInner {
    /// Must be called WITHOUT the state lock. The waiting side spins (no condition variable):
    /// the threads that met continue within nanoseconds of each other.
    fn rendezvous(&self, class: &'static str) {
        let gen;
        let deadline;
        {
            let mut rv = self.rv.lock();
            if rv.need < 2 || rv.class != class {
                return;
            }
            rv.arrived += 1;
            if rv.arrived >= rv.need {
                rv.arrived = 0;
                rv.generation += 1;
                rv.met += 1;
                self.rv_gen
                    .store(rv.generation, std::sync::atomic::Ordering::Release);
                return;
            }
            gen = rv.generation;
            deadline =
                std::time::Instant::now() + std::time::Duration::from_millis(rv.timeout_ms);
        }
        let mut spins = 0u32;
        while self.rv_gen.load(std::sync::atomic::Ordering::Acquire) == gen {
            std::hint::spin_loop();
            spins = spins.wrapping_add(1);
            if spins % 1024 == 0 && std::time::Instant::now() > deadline {
                let mut rv = self.rv.lock();
                if rv.generation == gen {
                    rv.arrived = rv.arrived.saturating_sub(1);
                }
                return;
            }
        }
    }

    /// Decide whether the next faultable operation fails. Must be called with the state lock.
    fn check_fault(&self, st: &mut SimState, class: &'static str, path: &Path) -> io::Result<()> {
        let idx = st.op_counter;
        st.op_counter += 1;
        let fail = match st.fault {
            FaultMode::Off => false,
            FaultMode::At { index, sticky } => idx == index || (sticky && idx > index),
        };
        if st.record_oplog {
            st.oplog.push(OpRecord {
                index: idx,
                class,
                path: path.to_string_lossy().to_string(),
                failed: fail,
            });
        }
        if fail {
            st.fault_fired += 1;
            if let Some(sink) = self.sink.lock().as_ref() {
                let (kind, n) = classify(&self.root, path);
                sink.emit_json(
                    "Fault",
                    json!({"op": class, "kind": kind, "n": n, "idx": idx}),
                );
            }
            return Err(injected());
        }
        Ok(())
    }

    fn journal(&self, st: &mut SimState, op: JOp, what: &str, path: &Path, extra: Value) {
        st.disk.apply(&op, None);
        st.journal.push(op);
        let j = st.journal.len();
        if let Some(sink) = self.sink.lock().as_ref() {
            let (kind, n) = classify(&self.root, path);
            let mut v = json!({"op": what, "kind": kind, "n": n, "j": j});
            if let (Value::Object(m), Value::Object(e)) = (&mut v, extra) {
                for (k, x) in e {
                    m.insert(k, x);
                }
            }
            sink.emit_json("Fs", v);
        }
    }
}

pub struct SimHandle {
    fs: Arc<SimInner>,
    path: PathBuf,
    inode: u64,
    cursor: usize,
    append_mode: bool,
    writable: bool,
}

impl SimHandle {
    fn do_write(&mut self, buf: &[u8], at_end: bool) -> io::Result<usize> {
        if buf.is_empty() {
            return Ok(0);
        }
        let fs = Arc::clone(&self.fs);
        let mut st = fs.state.lock();
        fs.check_fault(&mut st, "write", &self.path)?;
        let len = st.disk.inodes.get(&self.inode).map_or(0, |f| f.len());
        let offset = if at_end || self.append_mode {
            len
        } else {
            self.cursor
        };
        // log files: does the file still consist of well-placed log items after this write?
        let mut logbad = 0;
        let (kind, _) = classify(&fs.root, &self.path);
        if kind == "wal" || kind == "manifest" {
            let st = &mut *st;
            let existing: &[u8] = st.disk.inodes.get(&self.inode).map_or(&[], |f| &f[..]);
            let parsed = match st.log_parsed.get(&self.inode) {
                Some(p) => *p,
                None => {
                    // contents that were there before this filesystem object saw the file (a crash
                    // image): judged only if they end in complete items
                    let (p, bad) = parse_log_items(0, existing);
                    let rest_is_trailer = p < existing.len()
                        && LOG_BLOCK - p % LOG_BLOCK < LOG_HDR
                        && existing[p..].iter().all(|b| *b == 0);
                    if bad || !(p == existing.len() || rest_is_trailer) {
                        usize::MAX
                    } else {
                        p
                    }
                }
            };
            let mut now = usize::MAX;
            if parsed != usize::MAX && offset == existing.len() && parsed <= existing.len() {
                let mut tail = existing[parsed..].to_vec();
                tail.extend_from_slice(buf);
                let (p, bad) = parse_log_items(parsed, &tail);
                if bad {
                    logbad = 1;
                } else {
                    now = p;
                }
            }
            st.log_parsed.insert(self.inode, now);
        }
        let op = JOp::Write {
            inode: self.inode,
            offset,
            data: buf.to_vec(),
        };
        fs.journal(
            &mut st,
            op,
            "write",
            &self.path,
            json!({"len": buf.len(), "off": offset, "logbad": logbad}),
        );
        self.cursor = offset + buf.len();
        Ok(buf.len())
    }
}

impl Read for SimHandle {
    fn read(&mut self, buf: &mut [u8]) -> io::Result<usize> {
        let fs = Arc::clone(&self.fs);
        let mut st = fs.state.lock();
        if fs.read_faults.load(std::sync::atomic::Ordering::Relaxed) {
            fs.check_fault(&mut st, "read", &self.path)?;
        }
        let f = match st.disk.inodes.get(&self.inode) {
            Some(f) => f,
            None => return Ok(0),
        };
        if self.cursor >= f.len() {
            return Ok(0);
        }
        let n = buf.len().min(f.len() - self.cursor);
        buf[..n].copy_from_slice(&f[self.cursor..self.cursor + n]);
        self.cursor += n;
        Ok(n)
    }
}

impl Seek for SimHandle {
    fn seek(&mut self, pos: SeekFrom) -> io::Result<u64> {
        let st = self.fs.state.lock();
        let len = st.disk.inodes.get(&self.inode).map_or(0, |f| f.len()) as i64;
        let target = match pos {
            SeekFrom::Start(o) => o as i64,
            SeekFrom::Current(o) => self.cursor as i64 + o,
            SeekFrom::End(o) => len + o,
        };
        if target < 0 {
            return Err(io::Error::new(io::ErrorKind::InvalidInput, "negative seek"));
        }
        self.cursor = target as usize;
        Ok(target as u64)
    }
}

impl Write for SimHandle {
    fn write(&mut self, buf: &[u8]) -> io::Result<usize> {
        if !self.writable {
            return Err(io::Error::new(
                io::ErrorKind::PermissionDenied,
                "read-only handle",
            ));
        }
        self.do_write(buf, false)
    }

    fn flush(&mut self) -> io::Result<()> {
        Ok(())
    }
}

impl ReadonlyRandomAccessFile for SimHandle {
    fn read_from(&self, buf: &mut [u8], offset: usize) -> io::Result<usize> {
        let fs = Arc::clone(&self.fs);
        let mut st = fs.state.lock();
        if fs.read_faults.load(std::sync::atomic::Ordering::Relaxed) {
            fs.check_fault(&mut st, "read", &self.path)?;
        }
        let f = match st.disk.inodes.get(&self.inode) {
            Some(f) => f,
            None => return Ok(0),
        };
        if offset >= f.len() {
            return Ok(0);
        }
        let n = buf.len().min(f.len() - offset);
        buf[..n].copy_from_slice(&f[offset..offset + n]);
        Ok(n)
    }

    fn len(&self) -> io::Result<u64> {
        let fs = Arc::clone(&self.fs);
        let n = {
            let mut st = fs.state.lock();
            let n = st.disk.inodes.get(&self.inode).map_or(0, |f| f.len()) as u64;
            // the size query on an open handle can fail like the one by path; the query on a
            // file that already has contents (a log reopened for appending, a table being
            // opened) is a class of its own for the choice of fault positions
            fs.check_fault(&mut st, if n > 0 { "size+" } else { "size" }, &self.path)?;
            n
        };
        // the meeting point is the RETURN of the call: nothing of the filesystem model runs
        // between the meeting and the caller's next instruction
        fs.rendezvous("size");
        Ok(n)
    }
}

impl RandomAccessFile for SimHandle {
    fn append(&mut self, buf: &[u8]) -> io::Result<usize> {
        if !self.writable {
            return Err(io::Error::new(
                io::ErrorKind::PermissionDenied,
                "read-only handle",
            ));
        }
        self.do_write(buf, true)
    }
}

fn not_found(path: &Path) -> io::Error {
    io::Error::new(
        io::ErrorKind::NotFound,
        format!("no such file {}", path.to_string_lossy()),
    )
}

impl FileSystem for SimFs {
    fn get_name(&self) -> String {
        "SimFs".to_string()
    }

    fn create_dir(&self, path: &Path) -> io::Result<()> {
        let mut st = self.inner.state.lock();
        if !st.disk.dirs.insert(path.to_path_buf()) {
            return Err(io::Error::new(io::ErrorKind::AlreadyExists, "exists"));
        }
        Ok(())
    }

    fn create_dir_all(&self, path: &Path) -> io::Result<()> {
        let mut st = self.inner.state.lock();
        st.disk.dirs.insert(path.to_path_buf());
        Ok(())
    }

    fn list_dir(&self, path: &Path) -> io::Result<Vec<PathBuf>> {
        let mut st = self.inner.state.lock();
        self.inner.check_fault(&mut st, "list", path)?;
        let mut out: BTreeSet<PathBuf> = BTreeSet::new();
        for k in st.disk.names.keys() {
            if k.parent() == Some(path) {
                out.insert(k.clone());
            }
        }
        for d in st.disk.dirs.iter() {
            if d.parent() == Some(path) {
                out.insert(d.clone());
            }
        }
        // the FileSystem trait promises no order: alternate between ascending and descending
        // (code that relies on the order of a listing is wrong on some filesystem)
        let mut v: Vec<PathBuf> = out.into_iter().collect();
        if st.op_counter % 2 == 1 {
            v.reverse();
        }
        Ok(v)
    }

    fn open_file(&self, path: &Path) -> io::Result<Box<dyn ReadonlyRandomAccessFile>> {
        let mut st = self.inner.state.lock();
        self.inner.check_fault(&mut st, "open", path)?;
        match st.disk.names.get(path) {
            Some(inode) => Ok(Box::new(SimHandle {
                fs: Arc::clone(&self.inner),
                path: path.to_path_buf(),
                inode: *inode,
                cursor: 0,
                append_mode: false,
                writable: false,
            })),
            None => Err(not_found(path)),
        }
    }

    fn rename(&self, from: &Path, to: &Path) -> io::Result<()> {
        let mut st = self.inner.state.lock();
        self.inner.check_fault(&mut st, "rename", from)?;
        if !st.disk.names.contains_key(from) {
            return Err(not_found(from));
        }
        let (tk, tn) = classify(&self.inner.root, to);
        self.inner.journal(
            &mut st,
            JOp::Rename {
                from: from.to_path_buf(),
                to: to.to_path_buf(),
            },
            "rename",
            from,
            json!({"tokind": tk, "ton": tn}),
        );
        Ok(())
    }

    fn create_file(&self, path: &Path, append: bool) -> io::Result<Box<dyn RandomAccessFile>> {
        let mut st = self.inner.state.lock();
        self.inner.check_fault(&mut st, "create", path)?;
        if append {
            if let Some(inode) = st.disk.names.get(path).cloned() {
                let len = st.disk.inodes.get(&inode).map_or(0, |f| f.len());
                if let Some(sink) = self.inner.sink.lock().as_ref() {
                    let (kind, n) = classify(&self.inner.root, path);
                    sink.emit_json(
                        "Fs",
                        json!({"op": "openappend", "kind": kind, "n": n, "j": st.journal.len(), "len": len}),
                    );
                }
                return Ok(Box::new(SimHandle {
                    fs: Arc::clone(&self.inner),
                    path: path.to_path_buf(),
                    inode,
                    cursor: len,
                    append_mode: true,
                    writable: true,
                }));
            }
        }
        let inode = st.next_inode;
        st.next_inode += 1;
        self.inner.journal(
            &mut st,
            JOp::Create {
                path: path.to_path_buf(),
                inode,
            },
            "create",
            path,
            json!({}),
        );
        Ok(Box::new(SimHandle {
            fs: Arc::clone(&self.inner),
            path: path.to_path_buf(),
            inode,
            cursor: 0,
            append_mode: append,
            writable: true,
        }))
    }

    fn remove_file(&self, path: &Path) -> io::Result<()> {
        let mut st = self.inner.state.lock();
        self.inner.check_fault(&mut st, "remove", path)?;
        if !st.disk.names.contains_key(path) {
            return Err(not_found(path));
        }
        // is this the file CURRENT names (the manifest the next open has to find)?
        let named = {
            let cur = self.inner.root.join("CURRENT");
            let content: Vec<u8> = st
                .disk
                .names
                .get(&cur)
                .and_then(|i| st.disk.inodes.get(i))
                .cloned()
                .unwrap_or_default();
            let name = path.file_name().map(|x| x.to_string_lossy().to_string()).unwrap_or_default();
            let text = String::from_utf8_lossy(&content).to_string();
            !name.is_empty() && text.trim_end().ends_with(&name)
        };
        self.inner.journal(
            &mut st,
            JOp::Remove {
                path: path.to_path_buf(),
            },
            "remove",
            path,
            json!({"named": if named { 1 } else { 0 }}),
        );
        Ok(())
    }

    fn remove_dir(&self, path: &Path) -> io::Result<()> {
        let mut st = self.inner.state.lock();
        if st.disk.names.keys().any(|k| k.starts_with(path)) {
            return Err(io::Error::new(
                io::ErrorKind::InvalidInput,
                "directory not empty",
            ));
        }
        st.disk.dirs.remove(path);
        Ok(())
    }

    fn remove_dir_all(&self, path: &Path) -> io::Result<()> {
        let mut st = self.inner.state.lock();
        self.inner.journal(
            &mut st,
            JOp::RemoveDirAll {
                path: path.to_path_buf(),
            },
            "rmdirall",
            path,
            json!({}),
        );
        let doomed: Vec<PathBuf> = st
            .disk
            .dirs
            .iter()
            .filter(|d| d.starts_with(path))
            .cloned()
            .collect();
        for d in doomed {
            st.disk.dirs.remove(&d);
        }
        Ok(())
    }

    fn get_file_size(&self, path: &Path) -> io::Result<u64> {
        let mut st = self.inner.state.lock();
        self.inner.check_fault(&mut st, "size", path)?;
        match st.disk.names.get(path) {
            Some(inode) => Ok(st.disk.inodes.get(inode).map_or(0, |f| f.len()) as u64),
            None => Err(not_found(path)),
        }
    }

    fn is_dir(&self, path: &Path) -> io::Result<bool> {
        let st = self.inner.state.lock();
        if st.disk.names.contains_key(path) {
            return Ok(false);
        }
        Ok(st.disk.dirs.contains(path) || st.disk.names.keys().any(|k| k.starts_with(path)))
    }

    fn lock_file(&self, path: &Path) -> io::Result<FileLock> {
        // `UnlockableFile` is not exported by raindb, so a `FileLock` can only be obtained from
        // one of raindb's own filesystems. The in-memory one does not enforce exclusion; SimFs
        // therefore does not model the LOCK protocol (C17 uses the disk-backed filesystem).
        {
            let mut st = self.inner.state.lock();
            if !st.disk.names.contains_key(path) {
                let inode = st.next_inode;
                st.next_inode += 1;
                self.inner.journal(
                    &mut st,
                    JOp::Create {
                        path: path.to_path_buf(),
                        inode,
                    },
                    "create",
                    path,
                    json!({}),
                );
            }
        }
        self.inner.locker.lock_file(path)
    }
}
