//! Shared helpers: option sets, opening databases on SimFs, observation of the full visible
//! state, panic bookkeeping and the watchdog.

use parking_lot::Mutex;
use raindb::verif::StateDump;
use raindb::{DbOptions, RainDbIterator, ReadOptions, Snapshot, DB};
use serde::{Deserialize, Serialize};
use serde_json::{json, Value};
use std::sync::atomic::{AtomicBool, AtomicU64, Ordering};
use std::sync::Arc;
use std::time::{Duration, Instant};

use crate::simfs::SimFs;
use crate::trace::{SinkObserver, TraceSink};
use crate::universe::Universe;

#[derive(Clone, Debug, Serialize, Deserialize, PartialEq)]
pub struct OptSet {
    pub memtable: usize,
    pub file: u64,
    pub block: usize,
    pub reuse: bool,
}

/// Capacity in entries of the block cache / table cache of databases opened by `to_options`
/// (0 = raindb's defaults).
pub static CACHE_CAP: std::sync::atomic::AtomicUsize = std::sync::atomic::AtomicUsize::new(0);

pub fn set_cache_cap(n: usize) {
    let n = if n == 1 { 2 } else { n };
    CACHE_CAP.store(n, Ordering::SeqCst);
    raindb::verif::set_table_cache_capacity(n);
}

impl OptSet {
    pub fn to_options(&self, root: &str, fs: &SimFs) -> DbOptions {
        let cap = CACHE_CAP.load(Ordering::SeqCst);
        if cap > 0 {
            let mut o = self.to_options_default_caches(root, fs);
            o.block_cache = raindb::verif::new_block_cache(cap);
            return o;
        }
        self.to_options_default_caches(root, fs)
    }

    fn to_options_default_caches(&self, root: &str, fs: &SimFs) -> DbOptions {
        DbOptions {
            db_path: root.to_string(),
            max_memtable_size: self.memtable,
            max_file_size: self.file,
            max_block_size: self.block,
            reuse_log_files: self.reuse,
            create_if_missing: true,
            error_if_exists: false,
            filesystem_provider: Arc::new(fs.clone()),
            // the filter sizing is a setting like the others and changes with them at reopens
            // (a filter written with one bits-per-key setting must stay readable under any other)
            filter_policy: Arc::new(raindb::BloomFilterPolicy::new(
                [10usize, 6, 20, 45][(self.memtable / 100 + self.block + self.file as usize) % 4],
            )),
            ..DbOptions::default()
        }
    }

    pub fn json(&self) -> Value {
        json!({"memtable": self.memtable, "file": self.file, "block": self.block, "reuse": self.reuse})
    }
}

// ---------------------------------------------------------------------------------------------
// panic bookkeeping
// ---------------------------------------------------------------------------------------------

#[derive(Clone, Debug, Serialize)]
pub struct PanicRecord {
    pub thread: String,
    pub message: String,
    pub location: String,
}

static PANICS: Mutex<Vec<PanicRecord>> = Mutex::new(Vec::new());
static QUIET_PANICS: AtomicBool = AtomicBool::new(true);

pub fn install_panic_hook() {
    std::panic::set_hook(Box::new(|info| {
        let thread = crate::trace::thread_label();
        let message = if let Some(s) = info.payload().downcast_ref::<&str>() {
            s.to_string()
        } else if let Some(s) = info.payload().downcast_ref::<String>() {
            s.clone()
        } else {
            "<non-string panic>".to_string()
        };
        let location = info
            .location()
            .map(|l| format!("{}:{}", l.file(), l.line()))
            .unwrap_or_default();
        if !QUIET_PANICS.load(Ordering::Relaxed) || std::env::var("RAINVERIF_PANICS").is_ok() {
            eprintln!("panic on {}: {} at {}", thread, message, location);
        }
        PANICS.lock().push(PanicRecord {
            thread,
            message,
            location,
        });
    }));
}

pub fn set_quiet_panics(q: bool) {
    QUIET_PANICS.store(q, Ordering::Relaxed);
}

pub fn take_panics() -> Vec<PanicRecord> {
    std::mem::take(&mut *PANICS.lock())
}

pub fn peek_panics() -> Vec<PanicRecord> {
    PANICS.lock().clone()
}

// ---------------------------------------------------------------------------------------------
// watchdog: the driver thread bumps a heartbeat around every database call; a monitor thread
// calls `on_hang` if a call stays open longer than the deadline.
// ---------------------------------------------------------------------------------------------

pub struct Watchdog {
    started: AtomicU64, // millis since base when the current call started; 0 = idle
    base: Instant,
    what: Mutex<String>,
    stop: AtomicBool,
}

impl Watchdog {
    pub fn start(deadline: Duration, on_hang: Box<dyn Fn(String) + Send + Sync>) -> Arc<Watchdog> {
        let wd = Arc::new(Watchdog {
            started: AtomicU64::new(0),
            base: Instant::now(),
            what: Mutex::new(String::new()),
            stop: AtomicBool::new(false),
        });
        let w2 = Arc::clone(&wd);
        std::thread::Builder::new()
            .name("watchdog".into())
            .spawn(move || loop {
                std::thread::sleep(Duration::from_millis(100));
                if w2.stop.load(Ordering::Relaxed) {
                    return;
                }
                let s = w2.started.load(Ordering::Relaxed);
                if s != 0 {
                    let now = w2.base.elapsed().as_millis() as u64;
                    if now > s && Duration::from_millis(now - s) > deadline {
                        let what = w2.what.lock().clone();
                        on_hang(what);
                        return;
                    }
                }
            })
            .unwrap();
        wd
    }

    pub fn enter(&self, what: &str) {
        *self.what.lock() = what.to_string();
        self.started.store(
            self.base.elapsed().as_millis() as u64 + 1,
            Ordering::Relaxed,
        );
    }

    pub fn leave(&self) {
        self.started.store(0, Ordering::Relaxed);
    }

    /// label of the call that is (or was last) running
    pub fn current(&self) -> String {
        self.what.lock().clone()
    }

    pub fn stop(&self) {
        self.stop.store(true, Ordering::Relaxed);
    }

    pub fn call<T>(&self, what: &str, f: impl FnOnce() -> T) -> T {
        self.enter(what);
        let r = f();
        self.leave();
        r
    }
}

// ---------------------------------------------------------------------------------------------
// database session on SimFs
// ---------------------------------------------------------------------------------------------

/// Jitter: with this per-mille probability a thread sleeps a little at a `sched_point` (a point
/// where raindb does not hold its mutex). Set per run from HistCfg::jitter.
pub static JITTER_PERMILLE: std::sync::atomic::AtomicU64 = std::sync::atomic::AtomicU64::new(0);
pub static JITTER_MAX_US: std::sync::atomic::AtomicU64 = std::sync::atomic::AtomicU64::new(600);
pub static JITTER_POINT: parking_lot::Mutex<String> = parking_lot::Mutex::new(String::new());

pub struct Jitter {
    state: parking_lot::Mutex<u64>,
}

/// How often a thread of raindb went to sleep on a condition variable, by kind of wait
/// (room_imm, room_l0, writer_turn, manual, force_flush, close) - counted by the jitter
/// controller; tells whether a run reached the write-stall conditions.
pub static WAITS: parking_lot::Mutex<Vec<(&'static str, u64)>> = parking_lot::Mutex::new(Vec::new());

pub fn take_waits() -> Vec<(&'static str, u64)> {
    std::mem::take(&mut *WAITS.lock())
}

impl Jitter {
    pub fn new(seed: u64) -> Jitter {
        Jitter {
            state: parking_lot::Mutex::new(0x9E3779B97F4A7C15 ^ seed.max(1)),
        }
    }
}

impl crate::trace::Controller for Jitter {
    fn sched_point(&self, name: &'static str) {
        let p = JITTER_PERMILLE.load(Ordering::Relaxed);
        if p == 0 {
            return;
        }
        {
            let only = JITTER_POINT.lock();
            if !only.is_empty() && only.as_str() != name {
                return;
            }
        }
        // xorshift: cheap, no dependency on the workload generator's stream
        let r = {
            let mut s = self.state.lock();
            let mut x = *s;
            x ^= x << 13;
            x ^= x >> 7;
            x ^= x << 17;
            *s = x;
            x
        };
        if r % 1000 < p {
            std::thread::sleep(Duration::from_micros((r >> 20) % JITTER_MAX_US.load(Ordering::Relaxed).max(1)));
        }
    }
    fn about_to_wait(&self, which: &'static str) {
        let mut w = WAITS.lock();
        match w.iter_mut().find(|(k, _)| *k == which) {
            Some(e) => e.1 += 1,
            None => w.push((which, 1)),
        }
    }
    fn woke(&self, _which: &'static str) {}
    fn bg_idle(&self) {}
    fn on_event(&self, name: &'static str) {
        // the IterDrop hook fires in the iterator's cleanup BEFORE it takes the mutex: a legal
        // place for a delay as well (a version may be installed between whatever the cleanup
        // looked at and its release of the view)
        if name == "IterDrop" {
            self.sched_point("iter_drop");
        }
    }
}

pub fn install_observer(root: &str, sink: &Arc<TraceSink>, contents: bool) {
    let jitter = JITTER_PERMILLE.load(Ordering::Relaxed);
    raindb::verif::install(
        root,
        Arc::new(SinkObserver {
            sink: Arc::clone(sink),
            want_contents: contents,
            ctl: if jitter > 0 {
                Some(Arc::new(Jitter::new(jitter)) as Arc<dyn crate::trace::Controller>)
            } else {
                None
            },
            lazy_gets: parking_lot::Mutex::new(Default::default()),
            bg_active: std::sync::atomic::AtomicBool::new(false),
            mute: vec![],
        }),
    );
}

/// Value of a get as a canonical id: >0 value id, 0 not found, -1 error.
pub fn get_id(db: &DB, u: &Universe, key: i64, snap: Option<&Snapshot>) -> (i64, Option<String>) {
    // every third key is read without filling the block cache (same result either way)
    let ro = ReadOptions {
        fill_cache: key % 3 != 0,
        snapshot: snap.cloned(),
    };
    match db.get(ro, u.key(key)) {
        Ok(v) => (u.value_id(&v), None),
        Err(raindb::RainDBError::KeyNotFound) => (0, None),
        Err(e) => (-1, Some(e.to_string())),
    }
}

pub fn get_all(db: &DB, u: &Universe, snap: Option<&Snapshot>) -> (Vec<i64>, Vec<String>) {
    let mut res = vec![];
    let mut errs = vec![];
    for k in 1..=u.n() as i64 {
        let (v, e) = get_id(db, u, k, snap);
        res.push(v);
        if let Some(e) = e {
            errs.push(e);
        }
    }
    (res, errs)
}

/// Full forward scan of an iterator: list of [key id, value id]; Err on iterator error.
pub fn iter_forward(
    it: &mut dyn RainDbIterator<Key = Vec<u8>, Error = raindb::RainDBError>,
    u: &Universe,
    limit: usize,
) -> Result<Vec<[i64; 2]>, String> {
    let mut out = vec![];
    it.seek_to_first().map_err(|e| e.to_string())?;
    while it.is_valid() {
        let (k, v) = it.current().unwrap();
        out.push([u.key_id(k), u.value_id(v)]);
        if out.len() > limit {
            return Err("scan does not terminate".into());
        }
        it.next();
    }
    // the cursor stopped: exhausted, or failed (like LevelDB's status(), the error is asked for)
    if let Some(e) = it.take_error() {
        return Err(e.to_string());
    }
    Ok(out)
}

pub fn iter_backward(
    it: &mut dyn RainDbIterator<Key = Vec<u8>, Error = raindb::RainDBError>,
    u: &Universe,
    limit: usize,
) -> Result<Vec<[i64; 2]>, String> {
    let mut out = vec![];
    it.seek_to_last().map_err(|e| e.to_string())?;
    while it.is_valid() {
        let (k, v) = it.current().unwrap();
        out.push([u.key_id(k), u.value_id(v)]);
        if out.len() > limit {
            return Err("scan does not terminate".into());
        }
        it.prev();
    }
    if let Some(e) = it.take_error() {
        return Err(e.to_string());
    }
    Ok(out)
}

pub fn scan_json(r: &Result<Vec<[i64; 2]>, String>) -> Value {
    match r {
        Ok(v) => json!(v),
        Err(_) => json!([]),
    }
}

pub fn dump_json(d: &StateDump, u: &Universe, listing: Vec<String>, root: &str) -> Value {
    let levels: Vec<Value> = d
        .levels
        .iter()
        .map(|files| {
            Value::Array(
                files
                    .iter()
                    .map(|f| {
                        json!({
                            "f": f.number,
                            "size": f.size,
                            "lo": [u.key_id(&f.smallest.0), f.smallest.1, f.smallest.2],
                            "hi": [u.key_id(&f.largest.0), f.largest.1, f.largest.2],
                        })
                    })
                    .collect(),
            )
        })
        .collect();
    let rootp = std::path::Path::new(root);
    let dir: Vec<Value> = listing
        .iter()
        .map(|p| {
            let (kind, n) = crate::simfs::classify(rootp, std::path::Path::new(p));
            json!([kind, n])
        })
        .collect();
    json!({
        "seq": d.seq,
        "levels": levels,
        "live": d.live_versions,
        "livefiles": d.live_files,
        "pending": d.pending,
        "wal": d.wal,
        "prevwal": d.prev_wal,
        "curwal": d.cur_wal,
        "man": d.manifest,
        "next": d.file_counter,
        "imm": d.has_imm,
        "bg": d.bg_scheduled,
        "bad": d.bad_state.is_some(),
        "dir": dir,
    })
}

/// What the database reports about its table layout through the PUBLIC descriptors:
/// NumFilesAtLevel(l) for every level and the SSTables text, parsed into per-level lists of
/// [file number, size] (the key ranges are printed in Debug form and are not parsed).
pub fn descriptor_view(db: &DB) -> Result<(Vec<u64>, Vec<Vec<[u64; 2]>>), String> {
    use raindb::db::DatabaseDescriptor as D;
    let mut nfl = vec![];
    for level in 0..7 {
        let t = db.get_descriptor(D::NumFilesAtLevel(level)).map_err(|e| e.to_string())?;
        nfl.push(t.trim().parse::<u64>().map_err(|e| format!("NumFilesAtLevel text {:?}: {}", t, e))?);
    }
    let text = db.get_descriptor(D::SSTables).map_err(|e| e.to_string())?;
    let mut sst: Vec<Vec<[u64; 2]>> = vec![];
    for line in text.lines() {
        if line.starts_with("--- Level") {
            sst.push(vec![]);
            continue;
        }
        if line.is_empty() {
            continue;
        }
        // "<number> (size: <size>)[<smallest>..<largest>]"
        let num: String = line.chars().take_while(|c| c.is_ascii_digit()).collect();
        let size: String = match line.find("(size: ") {
            Some(i) => line[i + 7..].chars().take_while(|c| c.is_ascii_digit()).collect(),
            None => String::new(),
        };
        match (num.parse::<u64>(), size.parse::<u64>(), sst.last_mut()) {
            (Ok(n), Ok(sz), Some(l)) => l.push([n, sz]),
            _ => return Err(format!("SSTables line not understood: {:?}", line)),
        }
    }
    Ok((nfl, sst))
}

/// Wait until no background work is scheduled or pending. Returns the final dump, or None on
/// timeout.
pub fn wait_quiescent(db: &DB, timeout: Duration) -> Option<StateDump> {
    let t0 = Instant::now();
    let mut stable = 0;
    loop {
        let d = db.verif_try_state(Duration::from_secs(5));
        if let Some(d) = d {
            let busy = d.bg_scheduled
                || d.has_imm && d.bad_state.is_none()
                || (d.needs_compaction && d.bad_state.is_none())
                || d.has_manual;
            if !busy {
                stable += 1;
                if stable >= 2 {
                    return Some(d);
                }
            } else {
                stable = 0;
            }
        }
        if t0.elapsed() > timeout {
            return None;
        }
        // a dead background thread never finishes what is scheduled: no point in waiting
        if stable == 0 && t0.elapsed() > Duration::from_millis(300) && peek_panics().iter().any(|p| p.thread == "bg") {
            return None;
        }
        std::thread::sleep(Duration::from_millis(if stable > 0 { 1 } else { 2 }));
    }
}
