//! `crash` driver: runs a history on SimFs, then for every prefix of the journal of mutating
//! filesystem operations (and for torn variants of every write) rebuilds the disk image, opens it
//! with the real `DB::open`, dumps the recovered store, writes a marker, closes, reopens and
//! dumps again. Each probe becomes a check-only `Probe` event that is merged into the main trace
//! right after the filesystem operation it follows, so that the trace specification judges it
//! against the set of stores allowed at exactly that point.

use raindb::{WriteOptions, DB};
use serde_json::{json, Value};
use std::sync::mpsc;
use std::sync::Arc;
use std::time::Duration;

use crate::common::*;
use crate::hist::{self, HistCfg, ROOT};
use crate::simfs::{Disk, JOp, SimFs};
use crate::trace::TraceSink;
use crate::universe::Universe;

#[derive(Clone, Debug)]
pub struct ProbeSpec {
    /// number of journal operations fully applied
    pub prefix: usize,
    /// if set: operation `prefix` (0-based) is a write applied with only this many bytes
    pub torn: Option<usize>,
    pub opts: OptSet,
    /// generation 2 probes start from the image left by a generation 1 probe
    pub gen: u8,
}

pub struct ProbeOutcome {
    pub event: Value,
    /// journal of the probe's own run (for second-generation probes)
    pub journal: Vec<JOp>,
    pub base: Disk,
}

fn run_with_timeout<T: Send + 'static>(
    timeout: Duration,
    f: impl FnOnce() -> T + Send + 'static,
) -> Option<T> {
    let (tx, rx) = mpsc::channel();
    std::thread::Builder::new()
        .name("probe".into())
        .spawn(move || {
            let r = f();
            let _ = tx.send(r);
        })
        .unwrap();
    rx.recv_timeout(timeout).ok()
}

/// Open `image`, observe, write a marker, close, reopen, observe again.
pub fn probe_image(
    image: Disk,
    spec: &ProbeSpec,
    u: &Arc<Universe>,
    marker: (i64, i64),
    want_journal: bool,
) -> ProbeOutcome {
    let base = image.clone();
    let fs = SimFs::from_disk(ROOT, image);
    let fs2 = fs.clone();
    let u2 = Arc::clone(u);
    let opts = spec.opts.clone();
    let res = run_with_timeout(Duration::from_secs(240), move || {
        let r = std::panic::catch_unwind(std::panic::AssertUnwindSafe(|| {
            let mut ev = serde_json::Map::new();
            let o = opts.to_options(ROOT, &fs2);
            let db = match DB::open(o) {
                Ok(db) => db,
                Err(e) => {
                    ev.insert("open_ok".into(), json!(false));
                    ev.insert("err".into(), json!(e.to_string()));
                    return Value::Object(ev);
                }
            };
            ev.insert("open_ok".into(), json!(true));
            // let recovery-triggered background work finish first: reads that race with a
            // compaction legitimately defer the reclamation of its inputs
            let q1 = wait_quiescent(&db, Duration::from_secs(20)).is_some();
            let (gets, errs) = get_all(&db, &u2, None);
            let scan = match db.new_iterator(raindb::ReadOptions::default()) {
                Ok(mut it) => iter_forward(&mut it, &u2, 10_000),
                Err(e) => Err(e.to_string()),
            };
            ev.insert("gets".into(), json!(gets));
            ev.insert("geterrs".into(), json!(errs.len()));
            ev.insert("fwdok".into(), json!(scan.is_ok()));
            ev.insert("fwd".into(), scan_json(&scan));
            // quiescent dump of the recovered database (C10 / C11 on crash images)
            match wait_quiescent(&db, Duration::from_secs(20)) {
                Some(d) if q1 => {
                    let listing = fs2.disk().listing();
                    // which logs are still NEEDED: the largest sequence number in every log
                    // other than the one being written, and the largest one in the tables of
                    // the recovered version (a log whose records are all in tables is dead)
                    let o3 = opts.to_options(ROOT, &fs2);
                    let mut tablemax = 0u64;
                    let mut tables_ok = true;
                    for lvl in d.levels.iter() {
                        for f in lvl.iter() {
                            match raindb::verif::read_table_entries(&o3, f.number) {
                                Ok(es) => {
                                    for e in es {
                                        tablemax = tablemax.max(e.1);
                                    }
                                }
                                Err(_) => tables_ok = false,
                            }
                        }
                    }
                    let rootp = std::path::Path::new(ROOT);
                    let mut walmax: Vec<[u64; 2]> = vec![];
                    for p in listing.iter() {
                        let (kind, n) = crate::simfs::classify(rootp, std::path::Path::new(p));
                        if kind != "wal" || n as u64 == d.cur_wal {
                            continue;
                        }
                        let fsd: Arc<dyn raindb::fs::FileSystem> = Arc::new(fs2.clone());
                        if let Ok(mut rd) = raindb::verif::VLogReader::new(fsd, std::path::Path::new(p)) {
                            let mut last = 0u64;
                            let mut clean = true;
                            loop {
                                match rd.read_record() {
                                    Ok(Some(rec)) if rec.len() >= 9 => {
                                        // batch record: starting sequence (8 bytes LE), varint count
                                        let mut s8 = [0u8; 8];
                                        s8.copy_from_slice(&rec[0..8]);
                                        let start = u64::from_le_bytes(s8);
                                        let (mut cnt, mut shift, mut i) = (0u64, 0u32, 8usize);
                                        while i < rec.len() {
                                            cnt |= ((rec[i] & 0x7f) as u64) << shift;
                                            if rec[i] & 0x80 == 0 {
                                                break;
                                            }
                                            shift += 7;
                                            i += 1;
                                        }
                                        if cnt > 0 {
                                            last = last.max(start + cnt - 1);
                                        }
                                    }
                                    Ok(Some(_)) => {}
                                    Ok(None) => break,
                                    Err(_) => {
                                        clean = false;
                                        break;
                                    }
                                }
                            }
                            if clean && last > 0 {
                                walmax.push([n as u64, last]);
                            }
                        }
                    }
                    let mut dj = dump_json(&d, &u2, listing, ROOT);
                    dj["tablemax"] = json!(if tables_ok { tablemax } else { 0 });
                    dj["walmax"] = json!(walmax);
                    ev.insert("dump".into(), dj);
                    ev.insert("quiet".into(), json!(true));
                }
                _ => {
                    ev.insert("quiet".into(), json!(false));
                }
            }
            // the recovered database must be usable: write a marker, close, reopen, read back
            let (mk, mv) = marker;
            let val = Universe::make_value(mv, 24, true);
            let put = db.put(WriteOptions::default(), u2.key(mk).clone(), val);
            ev.insert("put_ok".into(), json!(put.is_ok()));
            drop(db);
            let o2 = opts.to_options(ROOT, &fs2);
            match DB::open(o2) {
                Ok(db2) => {
                    ev.insert("reopen_ok".into(), json!(true));
                    let (gets2, errs2) = get_all(&db2, &u2, None);
                    ev.insert("gets2".into(), json!(gets2));
                    ev.insert("geterrs2".into(), json!(errs2.len()));
                    // the shape the database reports after THIS reopen (it has read what the
                    // recovery of the crash image wrote into the manifest)
                    if let Some(d2) = wait_quiescent(&db2, Duration::from_secs(20)) {
                        let dj2 = dump_json(&d2, &u2, fs2.disk().listing(), ROOT);
                        ev.insert("levels2".into(), dj2["levels"].clone());
                    }
                    drop(db2);
                }
                Err(e) => {
                    ev.insert("reopen_ok".into(), json!(false));
                    ev.insert("err2".into(), json!(e.to_string()));
                }
            }
            Value::Object(ev)
        }));
        match r {
            Ok(v) => v,
            Err(_) => json!({"open_ok": false, "err": "panic", "panic": true}),
        }
    });
    let mut event = match res {
        Some(v) => v,
        None => json!({"open_ok": false, "err": "hang", "hang": true}),
    };
    // normalise: all fields present so that the trace specification can read them
    let nk = u.n();
    let defaults = json!({
        "open_ok": false, "err": "", "gets": vec![0; nk], "geterrs": 0, "fwdok": true, "fwd": [],
        "quiet": false, "put_ok": false, "reopen_ok": false, "gets2": vec![0; nk], "geterrs2": 0,
        "hang": false, "panic": false, "levels2": [[],[],[],[],[],[],[]],
        "dump": {"levels": [[],[],[],[],[],[],[]], "dir": [], "man": 0, "wal": 0, "seq": 0, "curwal": 0},
    });
    if let (Value::Object(ev), Value::Object(d)) = (&mut event, defaults) {
        for (k, v) in d {
            ev.entry(k).or_insert(v);
        }
        ev.insert("j".into(), json!(spec.prefix));
        ev.insert("torn".into(), json!(spec.torn.unwrap_or(0)));
        ev.insert("gen".into(), json!(spec.gen));
        ev.insert("marker".into(), json!([marker.0, marker.1]));
        ev.insert("opts".into(), spec.opts.json());
    }
    ProbeOutcome {
        event,
        journal: if want_journal { fs.journal() } else { vec![] },
        base,
    }
}

pub struct CrashCfg {
    pub torn: bool,
    pub every: usize,
    pub both_reuse: bool,
    pub gen2_every: usize,
    pub threads: usize,
}

/// Run the main history, then all probes; returns the merged trace lines and statistics.
pub fn run_crash(
    cfg: &HistCfg,
    ccfg: &CrashCfg,
    u: &Arc<Universe>,
    wd: &Arc<Watchdog>,
    run_no: u64,
) -> (Vec<Value>, hist::HistOutcome, Value) {
    let sink = TraceSink::new(Arc::clone(u));
    let outcome = hist::run_hist(cfg, None, &sink, u, wd, run_no);
    let lines = sink.take();
    let journal = outcome.fs.journal();
    let base = Disk::default();
    let opts_for = |n: usize| -> OptSet {
        let mut cur = cfg.opts.clone();
        for (j, o) in &outcome.opens {
            if *j <= n {
                cur = o.clone();
            }
        }
        cur
    };
    // probe list
    let mut specs: Vec<ProbeSpec> = vec![];
    for n in 0..=journal.len() {
        if ccfg.every > 1 && n % ccfg.every != 0 && n != journal.len() {
            continue;
        }
        let o = opts_for(n);
        specs.push(ProbeSpec {
            prefix: n,
            torn: None,
            opts: o.clone(),
            gen: 1,
        });
        if ccfg.both_reuse {
            let mut o2 = o.clone();
            o2.reuse = !o2.reuse;
            specs.push(ProbeSpec {
                prefix: n,
                torn: None,
                opts: o2,
                gen: 1,
            });
        }
    }
    if ccfg.torn {
        for (n, op) in journal.iter().enumerate() {
            if let JOp::Write { data, .. } = op {
                if data.len() >= 2 {
                    let mut cuts = vec![1, data.len() / 2, data.len() - 1];
                    cuts.dedup();
                    for t in cuts {
                        for reuse in [true, false] {
                            let mut o = opts_for(n);
                            o.reuse = reuse;
                            specs.push(ProbeSpec {
                                prefix: n,
                                torn: Some(t),
                                opts: o,
                                gen: 1,
                            });
                        }
                    }
                }
            }
        }
    }
    // run probes on a small thread pool
    let marker_key = 1 + (cfg.seed % u.n() as u64) as i64;
    let marker_vid = 800_000 + (cfg.seed % 1000) as i64;
    let specs = Arc::new(specs);
    let journal = Arc::new(journal);
    let next = Arc::new(std::sync::atomic::AtomicUsize::new(0));
    let results: Arc<parking_lot::Mutex<Vec<(usize, Value)>>> =
        Arc::new(parking_lot::Mutex::new(vec![]));
    let mut handles = vec![];
    let gen2_every = ccfg.gen2_every;
    for _ in 0..ccfg.threads.max(1) {
        let specs = Arc::clone(&specs);
        let journal = Arc::clone(&journal);
        let next = Arc::clone(&next);
        let results = Arc::clone(&results);
        let u = Arc::clone(u);
        let base = base.clone();
        handles.push(std::thread::spawn(move || loop {
            let i = next.fetch_add(1, std::sync::atomic::Ordering::SeqCst);
            if i >= specs.len() {
                break;
            }
            let sp = &specs[i];
            let image = SimFs::image(&base, &journal, sp.prefix, sp.torn);
            let want2 = gen2_every > 0 && i % gen2_every == 0;
            let out = probe_image(image, sp, &u, (marker_key, marker_vid), want2);
            results.lock().push((i, out.event.clone()));
            if want2 {
                // second generation: crash during the recovery (and the marker write) itself
                let j2 = out.journal;
                let step = (j2.len() / 6).max(1);
                // evenly spaced crash points of the recovery, plus the point right before every
                // rename (the new manifest is complete, CURRENT still names the old one)
                let mut points: Vec<usize> = (1..=j2.len()).step_by(step).collect();
                for (idx, op) in j2.iter().enumerate() {
                    if let JOp::Rename { .. } = op {
                        if idx >= 1 {
                            points.push(idx);
                        }
                    }
                }
                points.sort_unstable();
                points.dedup();
                for n2 in points {
                    let img2 = SimFs::image(&out.base, &j2, n2, None);
                    // every other second-generation probe recovers with OTHER sizes than the
                    // recovery that crashed (settings may change between reopens): the tables it
                    // writes under the same file numbers are different ones
                    let mut o2g = sp.opts.clone();
                    let before_rename = matches!(j2.get(n2), Some(JOp::Rename { .. }));
                    if before_rename || (n2 / step) % 2 == 1 {
                        o2g.memtable = (o2g.memtable / 3).max(300);
                        o2g.block = if o2g.block > 64 { 16 } else { 256 };
                    }
                    let sp2 = ProbeSpec {
                        prefix: sp.prefix,
                        torn: sp.torn,
                        opts: o2g,
                        gen: 2,
                    };
                    let o2 = probe_image(img2, &sp2, &u, (marker_key, marker_vid + 1), false);
                    let mut ev = o2.event;
                    ev["gen2_prefix"] = json!(n2);
                    results.lock().push((i, ev));
                }
            }
        }));
    }
    for h in handles {
        let _ = h.join();
    }
    let mut results = std::mem::take(&mut *results.lock());
    results.sort_by_key(|(i, _)| *i);
    // merge: a probe with prefix n goes right after the Fs line with j == n
    let mut by_prefix: std::collections::BTreeMap<usize, Vec<Value>> = Default::default();
    let mut nprobes = 0;
    let mut ntorn = 0;
    let mut ngen2 = 0;
    for (i, ev) in results {
        let sp = &specs[i];
        nprobes += 1;
        if sp.torn.is_some() {
            ntorn += 1;
        }
        if ev["gen"] == json!(2) {
            ngen2 += 1;
        }
        by_prefix.entry(sp.prefix).or_default().push(ev);
    }
    let mut merged = vec![];
    let mut emit_probes = |merged: &mut Vec<Value>, n: usize| {
        if let Some(evs) = by_prefix.remove(&n) {
            for mut ev in evs {
                ev["e"] = json!("Probe");
                ev["i"] = json!(0);
                ev["t"] = json!("probe");
                merged.push(ev);
            }
        }
    };
    for line in lines {
        let is_reset = line["e"] == json!("Reset");
        let j = if line["e"] == json!("Fs") && line["op"] != json!("openappend") {
            line["j"].as_u64().map(|x| x as usize)
        } else {
            None
        };
        merged.push(line);
        if is_reset {
            emit_probes(&mut merged, 0);
        }
        if let Some(n) = j {
            emit_probes(&mut merged, n);
        }
    }
    let stats = json!({"journal_ops": journal.len(), "probes": nprobes, "torn_probes": ntorn,
                       "gen2_probes": ngen2});
    (merged, outcome, stats)
}
