//! `logfmt` driver (property C12): drives the REAL `LogWriter` / `LogReader` of raindb (through
//! `raindb::verif::VLogWriter` / `VLogReader`) on SimFs and records what they did, for validation
//! against `spec/RainLog_Trace.tla`.
//!
//! A scenario = fresh log file, optional filler record that puts the writer at a chosen block
//! offset, a sequence of appends interleaved with writer re-openings (clean close + open in append
//! mode, or "writer died between two fragments of the last record" = the file is cut at that
//! fragment boundary, then a new writer opens it in append mode), then the whole file is read
//! back; then the file is cut at a descending list of byte positions and read back after every
//! cut. After every open and append the real writer's block offset and the real file length are
//! logged; after the scenario the raw bytes are parsed into physical records and trailers
//! (Layout); every record the reader returns is identified byte for byte with the payload of an
//! appended record (payloads are pseudo-random per (seed, scenario, id)), id 0 if it equals none.
//!
//! Modes (one run = one seed):
//!   boundary  start offset = START[seed mod 18]; singles, pairs (x reopen variants), stops and
//!             sampled triples of record lengths chosen relative to the writer's CURRENT block
//!             offset (leaving Hdr+1 .. 0 bytes, spilling 1 byte, two-block exact fills, ...)
//!   model     start offset = START[seed mod 18]; every behaviour of the design model family of
//!             MC_RainLog (all sequences of <= --maxrecs lengths of MCLens, one reopen at every
//!             position, one stop at every fragment boundary), structural cuts
//!   random    random lengths / reopen / stop / cut bytes
//!   enum      start offset = START[seed mod 18]; EVERY record length in [--lo, --hi] (default
//!             0 ..= 2*Block+16), one case each, logged compactly as Sweep events (32 cases a line);
//!             --window W restricts to lengths within W of a block-boundary length
//! `--parts P` (boundary, model, enum): the scenario list of a start offset is split into P fixed
//! strata and the run takes stratum (seed div 18) mod P: 18*P consecutive seeds cover everything
//! exactly once (enum: every P-th chunk of 32 lengths plus the lengths within 64 of a boundary).
//! `--max-scen N` samples N scenarios of a run's list (seeded).
//!
//! No verdict is made here: every verdict comes from TLC replaying the trace.

use rand::rngs::StdRng;
use rand::seq::SliceRandom;
use rand::{Rng, RngCore, SeedableRng};
use raindb::fs::FileSystem;
use raindb::verif::{VLogReader, VLogWriter};
use serde_json::{json, Map, Value};
use std::collections::{BTreeSet, HashMap};
use std::path::{Path, PathBuf};
use std::sync::Arc;
use std::time::Duration;

use crate::common::{peek_panics, Watchdog};
use crate::simfs::SimFs;
use crate::trace::write_ndjson;

const BLOCK: usize = 32768;
const HDR: usize = 7;
const ROOT: &str = "/simdb";
const LOG_PATH: &str = "/simdb/wal/wal-1.log";
const MAX_LINES_PER_FILE: usize = 15000;
const SWEEP_CASES_PER_LINE: usize = 32;

// ---------------------------------------------------------------------------------------------
// the harness's own format arithmetic (independent of raindb and of the TLA+ text; the trace
// specification cross-checks it: Stop offsets, Sweep start offsets)
// ---------------------------------------------------------------------------------------------

/// payload lengths of the fragments of a record of `len` bytes appended at block offset `woff`,
/// and the number of trailer bytes written before the first fragment
fn plan(woff: usize, len: usize) -> (usize, Vec<usize>) {
    let mut w = woff % BLOCK;
    let mut pad = 0;
    if BLOCK - w < HDR {
        pad = BLOCK - w;
        w = 0;
    }
    let mut left = len;
    let mut frags = vec![];
    loop {
        let space = BLOCK - w - HDR;
        let n = left.min(space);
        frags.push(n);
        left -= n;
        w = (w + HDR + n) % BLOCK;
        if left == 0 {
            break;
        }
    }
    (pad, frags)
}

fn woff_after(woff: usize, len: usize) -> usize {
    let (pad, frags) = plan(woff, len);
    (woff + pad + frags.iter().map(|n| n + HDR).sum::<usize>()) % BLOCK
}

/// payload capacity of the block the next fragment goes to
fn cap_at(woff: usize) -> usize {
    let w = woff % BLOCK;
    if BLOCK - w < HDR {
        BLOCK - HDR
    } else {
        BLOCK - w - HDR
    }
}

/// the boundary family of MC_RainLog!MCLens
fn abs_lens() -> Vec<usize> {
    let mut s: BTreeSet<usize> = [0, 1, BLOCK, 2 * BLOCK + 3].into_iter().collect();
    for l in (BLOCK - 2 * HDR - 1)..=(BLOCK - HDR + 1) {
        s.insert(l);
    }
    s.into_iter().collect()
}

/// the same family relative to the writer's current block offset
fn rel_lens(woff: usize) -> Vec<usize> {
    let cap = cap_at(woff) as i64;
    let full = (BLOCK - HDR) as i64;
    let mut s: BTreeSet<usize> = [0, 1, BLOCK, 2 * BLOCK + 3].into_iter().collect();
    for d in -(HDR as i64 + 1)..=1 {
        if cap + d >= 0 {
            s.insert((cap + d) as usize);
        }
    }
    for d in -1..=1 {
        s.insert((cap + full + d) as usize);
    }
    s.into_iter().collect()
}

fn rel_short(woff: usize) -> Vec<usize> {
    let cap = cap_at(woff);
    let mut s: BTreeSet<usize> = [0, 1, cap, cap + 1, 2 * BLOCK + 3].into_iter().collect();
    if cap >= 1 {
        s.insert(cap - 1);
    }
    s.into_iter().collect()
}

/// starting block offsets: 0, the two smallest reachable ones (offsets 1..Hdr-1 cannot be reached
/// by any writer: every fragment carries a header), Block-Hdr-8 .. Block-1
fn start_offsets() -> Vec<usize> {
    let mut v = vec![0, HDR, HDR + 1];
    v.extend((BLOCK - HDR - 8)..=(BLOCK - 1));
    v
}

// ---------------------------------------------------------------------------------------------
// CRC32C (Castagnoli) and the LevelDB mask, for the independent parse of the raw bytes
// ---------------------------------------------------------------------------------------------

fn crc32c_table() -> [u32; 256] {
    let mut t = [0u32; 256];
    for i in 0..256u32 {
        let mut c = i;
        for _ in 0..8 {
            c = if c & 1 != 0 { (c >> 1) ^ 0x82F6_3B78 } else { c >> 1 };
        }
        t[i as usize] = c;
    }
    t
}

fn crc32c(table: &[u32; 256], data: &[u8]) -> u32 {
    let mut c = !0u32;
    for b in data {
        c = table[((c ^ *b as u32) & 0xff) as usize] ^ (c >> 8);
    }
    !c
}

fn mask(c: u32) -> u32 {
    ((c >> 15) | (c << 17)).wrapping_add(0xa282_ead8)
}

struct Layout {
    /// [type, len]: type 0..3 fragment with len payload bytes, 4 trailer of len bytes, 5 the first
    /// len bytes of a cut-off fragment or trailer
    items: Vec<[usize; 2]>,
    zero: bool,
    crc: bool,
}

fn parse_layout(table: &[u32; 256], data: &[u8], check_crc: bool) -> Layout {
    let mut items = vec![];
    let mut zero = true;
    let mut crc = true;
    let mut pos = 0;
    while pos < data.len() {
        let off = pos % BLOCK;
        if BLOCK - off < HDR {
            let want = BLOCK - off;
            let have = want.min(data.len() - pos);
            if data[pos..pos + have].iter().any(|b| *b != 0) {
                zero = false;
            }
            items.push([if have == want { 4 } else { 5 }, have]);
            pos += have;
            continue;
        }
        if data.len() - pos < HDR {
            items.push([5, data.len() - pos]);
            break;
        }
        let stored = u32::from_le_bytes([data[pos], data[pos + 1], data[pos + 2], data[pos + 3]]);
        let len = u16::from_le_bytes([data[pos + 4], data[pos + 5]]) as usize;
        let ty = data[pos + 6] as usize;
        if data.len() - pos < HDR + len {
            items.push([5, data.len() - pos]);
            break;
        }
        if check_crc && mask(crc32c(table, &data[pos + HDR..pos + HDR + len])) != stored {
            crc = false;
        }
        // an unknown type byte is reported as such (the specification knows only 0..3)
        items.push([if ty <= 3 { ty } else { 9 }, len]);
        pos += HDR + len;
    }
    Layout { items, zero, crc }
}

// ---------------------------------------------------------------------------------------------
// scenarios
// ---------------------------------------------------------------------------------------------

#[derive(Clone, Debug)]
enum Op {
    Append(usize),
    /// clean close, then open in append mode
    Reopen,
    /// the writer of the previous Append died after its j-th fragment; a new writer opens the file
    StopAfter(usize),
}

#[derive(Clone, Debug)]
enum Cuts {
    None,
    /// structurally distinct bytes of every item, plus k random bytes
    Structural(usize),
}

#[derive(Clone, Debug)]
struct Scenario {
    start_off: usize,
    ops: Vec<Op>,
    cuts: Cuts,
}

struct Ctx {
    seed: u64,
    big: Vec<u8>,
    table: [u32; 256],
    lines: Arc<parking_lot::Mutex<Vec<Value>>>,
    wd: Arc<Watchdog>,
    cases: u64,
    reads: u64,
}

fn ev(name: &str, v: Value) -> Value {
    let mut m = match v {
        Value::Object(m) => m,
        _ => Map::new(),
    };
    m.insert("e".into(), json!(name));
    Value::Object(m)
}

impl Ctx {
    fn emit(&self, name: &str, v: Value) {
        self.lines.lock().push(ev(name, v));
    }

    /// payload of record `id` of scenario `sc`: a slice of the run's random buffer
    fn payload(&self, sc: u64, id: usize, len: usize) -> &[u8] {
        let h = (sc.wrapping_mul(0x9E37_79B9_7F4A_7C15) ^ (id as u64).wrapping_mul(0xC2B2_AE3D_27D4_EB4F))
            .wrapping_add(self.seed.wrapping_mul(0x1656_67B1_9E37_79F9));
        let room = self.big.len() - len;
        let start = (h >> 11) as usize % (room + 1);
        &self.big[start..start + len]
    }

    fn file_len(fs: &SimFs) -> usize {
        fs.get_file_size(Path::new(LOG_PATH)).unwrap_or(0) as usize
    }

    /// read the whole file with the real reader; identify every returned record
    fn read_all(&mut self, fs: &SimFs, sc: u64, appended: &[usize]) -> (Vec<Value>, bool) {
        self.reads += 1;
        let fsd: Arc<dyn FileSystem> = Arc::new(fs.clone());
        let mut recs = vec![];
        let mut err = false;
        let wd = Arc::clone(&self.wd);
        wd.enter(&format!("read scenario {}", sc));
        match VLogReader::new(fsd, Path::new(LOG_PATH)) {
            Err(_) => err = true,
            Ok(mut r) => {
                let mut last_id = 0usize;
                loop {
                    match r.read_record() {
                        Ok(Some(bytes)) => {
                            // candidates: appended records with exactly these bytes; prefer the
                            // first one after the previously returned id (equal payloads - e.g.
                            // two empty records - are indistinguishable, and that is fine: the
                            // property is about bytes)
                            let mut cand: Vec<usize> = vec![];
                            for (i, len) in appended.iter().enumerate() {
                                if *len == bytes.len() && self.payload(sc, i + 1, *len) == &bytes[..] {
                                    cand.push(i + 1);
                                }
                            }
                            let id = cand
                                .iter()
                                .cloned()
                                .find(|c| *c > last_id)
                                .or_else(|| cand.first().cloned())
                                .unwrap_or(0);
                            if id != 0 {
                                last_id = id;
                            }
                            recs.push(json!({"id": id, "len": bytes.len(), "ok": id != 0}));
                            if recs.len() > appended.len() + 8 {
                                err = true;
                                break;
                            }
                        }
                        Ok(None) => break,
                        Err(_) => {
                            err = true;
                            break;
                        }
                    }
                }
            }
        }
        wd.leave();
        (recs, err)
    }

    fn layout_event(&self, fs: &SimFs) -> Value {
        let disk = fs.disk();
        let empty = vec![];
        let data = disk.file(Path::new(LOG_PATH)).unwrap_or(&empty);
        let l = parse_layout(&self.table, data, true);
        json!({"items": l.items, "zero": l.zero, "crc": l.crc, "filelen": data.len()})
    }

    fn open_writer(&self, fs: &SimFs, append: bool, sc: u64) -> Option<VLogWriter> {
        let fsd: Arc<dyn FileSystem> = Arc::new(fs.clone());
        self.wd.enter(&format!("open scenario {}", sc));
        let w = VLogWriter::new(fsd, Path::new(LOG_PATH), append);
        self.wd.leave();
        match w {
            Ok(w) => {
                self.emit(
                    "Open",
                    json!({"append": append, "sc": sc, "ok": true, "woff": w.block_offset(),
                           "filelen": Ctx::file_len(fs)}),
                );
                Some(w)
            }
            Err(_) => {
                self.emit(
                    "Open",
                    json!({"append": append, "sc": sc, "ok": false, "woff": 0, "filelen": 0}),
                );
                None
            }
        }
    }

    fn append(&self, fs: &SimFs, w: &mut VLogWriter, sc: u64, id: usize, len: usize) -> bool {
        let data = self.payload(sc, id, len).to_vec();
        self.wd.enter(&format!("append scenario {} id {} len {}", sc, id, len));
        let r = w.append(&data);
        self.wd.leave();
        self.emit(
            "Append",
            json!({"id": id, "len": len, "ok": r.is_ok(), "woff_after": w.block_offset(),
                   "filelen_after": Ctx::file_len(fs)}),
        );
        r.is_ok()
    }

    fn truncated(fs: &SimFs, n: usize) -> SimFs {
        let mut disk = fs.disk();
        if let Some(f) = disk.file_mut(Path::new(LOG_PATH)) {
            f.truncate(n);
        }
        SimFs::from_disk(ROOT, disk)
    }

    /// bytes at which cutting gives structurally different files
    fn structural_cuts(&self, fs: &SimFs, extra_random: usize, rng: &mut StdRng) -> Vec<usize> {
        let disk = fs.disk();
        let empty = vec![];
        let data = disk.file(Path::new(LOG_PATH)).unwrap_or(&empty);
        let l = parse_layout(&self.table, data, false);
        let mut s: BTreeSet<usize> = BTreeSet::new();
        let mut o = 0usize;
        for it in &l.items {
            let size = if it[0] <= 3 || it[0] == 9 { HDR + it[1] } else { it[1] };
            for x in [o, o + 1, o + HDR - 1, o + HDR, o + HDR + 1, o + size - 1, o + size / 2] {
                if x >= o && x < o + size {
                    s.insert(x);
                }
            }
            o += size;
        }
        for _ in 0..extra_random {
            if !data.is_empty() {
                s.insert(rng.gen_range(0..data.len()));
            }
        }
        s.into_iter().filter(|x| *x < data.len()).collect()
    }

    fn run_scenario(&mut self, sc: u64, s: &Scenario, rng: &mut StdRng) {
        self.cases += 1;
        let mut fs = SimFs::new(ROOT);
        let mut appended: Vec<usize> = vec![];
        let mut w = match self.open_writer(&fs, false, sc) {
            Some(w) => w,
            None => return,
        };
        if s.start_off > 0 {
            let len = s.start_off - HDR;
            appended.push(len);
            self.append(&fs, &mut w, sc, appended.len(), len);
        }
        // file length before the last append (for the stop arithmetic)
        let mut before_last = Ctx::file_len(&fs);
        for op in &s.ops {
            match op {
                Op::Append(len) => {
                    before_last = Ctx::file_len(&fs);
                    appended.push(*len);
                    self.append(&fs, &mut w, sc, appended.len(), *len);
                }
                Op::Reopen => {
                    drop(w);
                    self.emit("Close", json!({}));
                    w = match self.open_writer(&fs, true, sc) {
                        Some(w) => w,
                        None => return,
                    };
                }
                Op::StopAfter(j) => {
                    let len = *appended.last().unwrap();
                    let (pad, frags) = plan(before_last % BLOCK, len);
                    if *j == 0 || *j >= frags.len() {
                        continue; // not a boundary between two fragments
                    }
                    let n = before_last + pad + frags[..*j].iter().map(|x| x + HDR).sum::<usize>();
                    drop(w);
                    fs = Ctx::truncated(&fs, n);
                    self.emit("Stop", json!({"after_frag": j, "n": n}));
                    w = match self.open_writer(&fs, true, sc) {
                        Some(w) => w,
                        None => return,
                    };
                }
            }
        }
        drop(w);
        self.emit("Close", json!({}));
        let lay = self.layout_event(&fs);
        self.emit("Layout", lay);
        let (recs, err) = self.read_all(&fs, sc, &appended);
        self.emit("Read", json!({"recs": recs, "err": err}));
        if let Cuts::Structural(k) = s.cuts {
            let mut cuts = self.structural_cuts(&fs, k, rng);
            cuts.reverse();
            let mut i = 0;
            for n in cuts {
                fs = Ctx::truncated(&fs, n);
                self.emit("Truncate", json!({"n": n}));
                if i % 4 == 0 {
                    let lay = self.layout_event(&fs);
                    self.emit("Layout", lay);
                }
                i += 1;
                let (recs, err) = self.read_all(&fs, sc, &appended);
                self.emit("Read", json!({"recs": recs, "err": err}));
            }
        }
    }

    /// one enumeration case: fresh file, filler, one record; returns the per-case columns
    fn sweep_case(&mut self, sc: u64, off: usize, len: usize) -> (usize, usize, Value, bool, bool, Value) {
        self.cases += 1;
        let fs = SimFs::new(ROOT);
        let fsd: Arc<dyn FileSystem> = Arc::new(fs.clone());
        self.wd.enter(&format!("sweep off {} len {}", off, len));
        let mut appended = vec![];
        let mut woff = BLOCK + 1; // reported as out of range if the writer could not be opened
        if let Ok(mut w) = VLogWriter::new(fsd, Path::new(LOG_PATH), false) {
            let mut ok = true;
            if off > 0 {
                appended.push(off - HDR);
                let d = self.payload(sc, 1, off - HDR).to_vec();
                ok &= w.append(&d).is_ok();
            }
            appended.push(len);
            let d = self.payload(sc, appended.len(), len).to_vec();
            ok &= w.append(&d).is_ok();
            if ok {
                woff = w.block_offset();
            }
        }
        self.wd.leave();
        let disk = fs.disk();
        let empty = vec![];
        let data = disk.file(Path::new(LOG_PATH)).unwrap_or(&empty);
        let l = parse_layout(&self.table, data, true);
        let flen = data.len();
        let (recs, _err) = self.read_all(&fs, sc, &appended);
        (woff, flen, json!(l.items), l.zero, l.crc, json!(recs))
    }
}

// ---------------------------------------------------------------------------------------------
// scenario lists per mode
// ---------------------------------------------------------------------------------------------

fn nfrags(woff: usize, len: usize) -> usize {
    plan(woff, len).1.len()
}

fn union(a: Vec<usize>, b: Vec<usize>) -> Vec<usize> {
    let s: BTreeSet<usize> = a.into_iter().chain(b).collect();
    s.into_iter().collect()
}

fn boundary_scenarios(off: usize, rng: &mut StdRng) -> Vec<Scenario> {
    let mut out = vec![];
    let first = union(rel_lens(off), abs_lens());
    // singles, cut everywhere it matters
    for &l in &first {
        out.push(Scenario { start_off: off, ops: vec![Op::Append(l)], cuts: Cuts::Structural(3) });
    }
    // pairs x reopen variants
    for &l1 in &first {
        let w1 = woff_after(off, l1);
        for &l2 in &rel_lens(w1) {
            out.push(Scenario { start_off: off, ops: vec![Op::Append(l1), Op::Append(l2)], cuts: Cuts::None });
            out.push(Scenario {
                start_off: off,
                ops: vec![Op::Append(l1), Op::Reopen, Op::Append(l2)],
                cuts: Cuts::None,
            });
            out.push(Scenario {
                start_off: off,
                ops: vec![Op::Reopen, Op::Append(l1), Op::Reopen, Op::Append(l2), Op::Reopen],
                cuts: Cuts::None,
            });
        }
    }
    // writer dies between two fragments; a later writer appends
    for &l1 in &first {
        let nf = nfrags(off, l1);
        for j in 1..nf {
            for (i, &l2) in rel_short(0).iter().enumerate() {
                out.push(Scenario {
                    start_off: off,
                    ops: vec![Op::Append(l1), Op::StopAfter(j), Op::Append(l2), Op::Append(1)],
                    cuts: if i < 2 { Cuts::Structural(2) } else { Cuts::None },
                });
            }
            // two writers die in a row
            out.push(Scenario {
                start_off: off,
                ops: vec![
                    Op::Append(l1),
                    Op::StopAfter(j),
                    Op::Append(2 * BLOCK + 3),
                    Op::StopAfter(1),
                    Op::Append(5),
                ],
                cuts: Cuts::None,
            });
        }
    }
    // sampled triples with a reopen somewhere
    for _ in 0..40 {
        let l1 = *first.choose(rng).unwrap();
        let w1 = woff_after(off, l1);
        let l2 = *rel_lens(w1).choose(rng).unwrap();
        let w2 = woff_after(w1, l2);
        let l3 = *rel_lens(w2).choose(rng).unwrap();
        let mut ops = vec![Op::Append(l1), Op::Append(l2), Op::Append(l3)];
        let at = rng.gen_range(0..=3);
        ops.insert(at, Op::Reopen);
        out.push(Scenario { start_off: off, ops, cuts: Cuts::None });
    }
    out
}

fn model_scenarios(off: usize, maxrecs: usize) -> Vec<Scenario> {
    let lens = abs_lens();
    let mut seqs: Vec<Vec<usize>> = vec![vec![]];
    let mut all: Vec<Vec<usize>> = vec![];
    for _ in 0..maxrecs {
        let mut next = vec![];
        for s in &seqs {
            for &l in &lens {
                let mut t = s.clone();
                t.push(l);
                next.push(t);
            }
        }
        all.extend(next.iter().cloned());
        seqs = next;
    }
    let mut out = vec![];
    for (si, s) in all.iter().enumerate() {
        let plain: Vec<Op> = s.iter().map(|l| Op::Append(*l)).collect();
        out.push(Scenario {
            start_off: off,
            ops: plain.clone(),
            cuts: if s.len() == 1 || si % 5 == 0 { Cuts::Structural(0) } else { Cuts::None },
        });
        // one clean reopen at every position
        for p in 0..s.len() {
            let mut ops = plain.clone();
            ops.insert(p, Op::Reopen);
            out.push(Scenario { start_off: off, ops, cuts: Cuts::None });
        }
        // one stop at every fragment boundary of every record
        let mut w = off;
        for (i, &l) in s.iter().enumerate() {
            let nf = nfrags(w, l);
            for j in 1..nf {
                let mut ops = plain.clone();
                ops.insert(i + 1, Op::StopAfter(j));
                out.push(Scenario {
                    start_off: off,
                    ops,
                    cuts: if (si + j) % 3 == 0 { Cuts::Structural(0) } else { Cuts::None },
                });
            }
            w = woff_after(w, l);
        }
    }
    out
}

fn random_len(rng: &mut StdRng, woff: usize) -> usize {
    match rng.gen_range(0..10) {
        0..=2 => rng.gen_range(0..64),
        3..=5 => *rel_lens(woff).choose(rng).unwrap(),
        6 => rng.gen_range(0..BLOCK),
        7 => rng.gen_range(BLOCK - 40..BLOCK + 40),
        8 => rng.gen_range(BLOCK..3 * BLOCK + 100),
        _ => {
            // ends within Hdr+2 bytes of a block boundary, some blocks further on
            let cap = cap_at(woff);
            let k = rng.gen_range(0..3);
            let base = cap + k * (BLOCK - HDR);
            (base + rng.gen_range(0..4)).saturating_sub(rng.gen_range(0..HDR + 3))
        }
    }
}

fn random_scenarios(n: usize, rng: &mut StdRng) -> Vec<Scenario> {
    let starts = start_offsets();
    let mut out = vec![];
    for _ in 0..n {
        let off = if rng.gen_bool(0.5) {
            *starts.choose(rng).unwrap()
        } else {
            rng.gen_range(HDR..BLOCK)
        };
        let mut ops = vec![];
        let mut w = off;
        let nrec = rng.gen_range(1..=6);
        for _ in 0..nrec {
            if rng.gen_bool(0.25) {
                ops.push(Op::Reopen);
            }
            let l = random_len(rng, w);
            ops.push(Op::Append(l));
            let nf = nfrags(w, l);
            if nf > 1 && rng.gen_bool(0.35) {
                ops.push(Op::StopAfter(rng.gen_range(1..nf)));
                w = 0;
            } else {
                w = woff_after(w, l);
            }
        }
        let cuts = if rng.gen_bool(0.5) { Cuts::Structural(6) } else { Cuts::None };
        out.push(Scenario { start_off: off, ops, cuts });
    }
    out
}

/// lengths to sweep: all of lo..=hi, or only those within `window` of a length at which the
/// fragment structure changes (0, and cap + k*(Block-Hdr) for the block capacity cap at `off`)
fn sweep_lengths(off: usize, lo: usize, hi: usize, window: Option<usize>) -> Vec<usize> {
    match window {
        None => (lo..=hi).collect(),
        Some(wn) => {
            let cap = cap_at(off);
            let mut marks = vec![0usize];
            let mut b = cap;
            while b <= hi + wn {
                marks.push(b);
                b += BLOCK - HDR;
            }
            (lo..=hi)
                .filter(|l| marks.iter().any(|m| (*l as i64 - *m as i64).unsigned_abs() as usize <= wn))
                .collect()
        }
    }
}

// ---------------------------------------------------------------------------------------------
// command
// ---------------------------------------------------------------------------------------------

struct Writer {
    out: PathBuf,
    chunk: Arc<std::sync::atomic::AtomicUsize>,
    events: usize,
}

impl Writer {
    fn current(&self) -> usize {
        self.chunk.load(std::sync::atomic::Ordering::SeqCst)
    }

    fn path_of(&self, chunk: usize) -> String {
        self.out
            .join(format!("trace_{:04}.ndjson", chunk))
            .to_string_lossy()
            .to_string()
    }

    fn flush(&mut self, lines: &mut Vec<Value>) {
        if lines.is_empty() {
            return;
        }
        lines.push(json!({"e": "End"}));
        let path = PathBuf::from(self.path_of(self.current()));
        write_ndjson(&path, lines).unwrap();
        self.events += lines.len();
        self.chunk.fetch_add(1, std::sync::atomic::Ordering::SeqCst);
        lines.clear();
    }
}

pub fn cmd(m: &HashMap<String, String>) -> i32 {
    let mut m = m.clone();
    // a replay file carries the arguments of the run it reproduces
    if let Some(p) = m.get("replay").cloned() {
        let rp: Value = match std::fs::read_to_string(&p).ok().and_then(|s| serde_json::from_str(&s).ok()) {
            Some(v) => v,
            None => {
                eprintln!("cannot read replay file {}", p);
                return 2;
            }
        };
        if let Some(args) = rp.get("args").and_then(|a| a.as_object()) {
            for (k, v) in args {
                if k != "out" && k != "replay" {
                    m.insert(k.clone(), v.as_str().unwrap_or("").to_string());
                }
            }
        }
        m.insert("seed".into(), rp["seed"].as_u64().unwrap_or(1).to_string());
        m.insert("mode".into(), rp["mode"].as_str().unwrap_or("boundary").to_string());
        m.insert("runs".into(), "1".into());
    }
    let out = PathBuf::from(m.get("out").cloned().unwrap_or_else(|| "out/logfmt".into()));
    std::fs::create_dir_all(&out).unwrap();
    let seed0: u64 = crate::arg_of(&m, "seed", 1);
    let runs: u64 = crate::arg_of(&m, "runs", 1);
    let mode: String = m.get("mode").cloned().unwrap_or_else(|| "boundary".into());
    let max_scen: usize = crate::arg_of(&m, "max-scen", 0);
    // --parts P: the (fixed, shuffled) scenario list of a start offset is split into P strata; the
    // run with seed s takes start offset s mod 18 and stratum (s div 18) mod P, so any 18*P
    // consecutive seeds execute every scenario of every start offset exactly once
    let parts: usize = crate::arg_of(&m, "parts", 1usize).max(1);
    let maxrecs: usize = crate::arg_of(&m, "maxrecs", 2);
    let nscen: usize = crate::arg_of(&m, "scen", 150);
    let lo: usize = crate::arg_of(&m, "lo", 0);
    let hi: usize = crate::arg_of(&m, "hi", 2 * BLOCK + 16);
    let window: Option<usize> = m.get("window").and_then(|v| v.parse().ok());
    let deadline = Duration::from_secs(crate::arg_of(&m, "deadline", 60));
    // Sweep lines are heavy (32 cases each): fewer lines per file
    let sweep_lines: usize = crate::arg_of(&m, "sweep-lines", 700);
    if !["boundary", "model", "random", "enum"].contains(&mode.as_str()) {
        eprintln!("logfmt: unknown mode {}", mode);
        return 2;
    }

    let table = crc32c_table();
    let starts = start_offsets();
    let results: Arc<parking_lot::Mutex<Vec<Value>>> = Arc::new(parking_lot::Mutex::new(vec![]));
    let mut wr = Writer {
        out: out.clone(),
        chunk: Arc::new(std::sync::atomic::AtomicUsize::new(0)),
        events: 0,
    };
    // lines not yet written; shared by consecutive runs so that one file holds many short runs
    let lines: Arc<parking_lot::Mutex<Vec<Value>>> = Arc::new(parking_lot::Mutex::new(vec![]));

    for (ri, seed) in (seed0..seed0 + runs).enumerate() {
        let run_no = ri as u64 + 1;
        let mut rng = StdRng::seed_from_u64(seed.wrapping_mul(0x2545_F491_4F6C_DD1D) ^ 0xC12);
        let mut big = vec![0u8; 4 * BLOCK + 4096];
        rng.fill_bytes(&mut big);

        // replay file of this run
        let rpath = out.join(format!("replay_{}.json", seed));
        let mut args = Map::new();
        for (k, v) in &m {
            if k != "out" && k != "seed" && k != "runs" && k != "replay" {
                args.insert(k.clone(), json!(v));
            }
        }
        std::fs::write(
            &rpath,
            serde_json::to_string(&json!({"driver": "logfmt", "seed": seed, "mode": mode, "args": args})).unwrap(),
        )
        .unwrap();

        // watchdog: the real code did not come back - dump what there is and stop
        let chunk2 = Arc::clone(&wr.chunk);
        let lines2 = Arc::clone(&lines);
        let results2 = Arc::clone(&results);
        let out2 = out.clone();
        let rpath2 = rpath.clone();
        let wd = Watchdog::start(
            deadline,
            Box::new(move |what| {
                let mut l = lines2.lock().clone();
                l.push(json!({"e": "Hang", "what": what}));
                l.push(json!({"e": "End"}));
                let c = chunk2.load(std::sync::atomic::Ordering::SeqCst);
                let path = out2.join(format!("trace_{:04}.ndjson", c));
                let _ = write_ndjson(&path, &l);
                let mut res = results2.lock().clone();
                res.push(json!({"seed": seed, "status": "hang", "detail": what,
                    "trace": path.to_string_lossy(), "replay": rpath2.to_string_lossy(),
                    "events": l.len(), "cases": 0, "panics": peek_panics()}));
                let _ = std::fs::write(
                    out2.join("results.json"),
                    serde_json::to_string_pretty(&json!({"runs": res, "aborted": true})).unwrap(),
                );
                std::process::exit(3);
            }),
        );

        let mut ctx = Ctx {
            seed,
            big,
            table,
            lines: Arc::clone(&lines),
            wd: Arc::clone(&wd),
            cases: 0,
            reads: 0,
        };
        let mut part = 0;
        let reset = |part: usize| {
            json!({"e": "Reset", "run": run_no, "seed": seed, "tag": format!("{}.p{}", mode, part),
                   "nk": 0, "driver": "logfmt"})
        };
        lines.lock().push(reset(part));
        let first_chunk = wr.current();
        let events_before = wr.events + lines.lock().len() - 1;
        let off = starts[(seed % starts.len() as u64) as usize];
        let part_no = ((seed / starts.len() as u64) % parts as u64) as usize;

        if mode == "enum" {
            let mut lens = sweep_lengths(off, lo, hi, window);
            if parts > 1 {
                // stratum: every parts-th chunk of 32 lengths, plus the lengths within 64 bytes of
                // a length at which the fragment structure changes
                let near: BTreeSet<usize> = sweep_lengths(off, lo, hi, Some(64)).into_iter().collect();
                lens = lens
                    .into_iter()
                    .filter(|l| ((l - lo) / SWEEP_CASES_PER_LINE) % parts == part_no || near.contains(l))
                    .collect();
            }
            let mut i = 0;
            let mut sc = 0u64;
            while i < lens.len() {
                // a run of consecutive lengths, at most SWEEP_CASES_PER_LINE
                let mut j = i + 1;
                while j < lens.len() && lens[j] == lens[j - 1] + 1 && j - i < SWEEP_CASES_PER_LINE {
                    j += 1;
                }
                sc += 1;
                let (mut woffs, mut flens, mut lays, mut zeros, mut crcs, mut reads) =
                    (vec![], vec![], vec![], vec![], vec![], vec![]);
                for &len in &lens[i..j] {
                    let (w, f, l, z, c, r) = ctx.sweep_case(sc, off, len);
                    woffs.push(w);
                    flens.push(f);
                    lays.push(l);
                    zeros.push(z);
                    crcs.push(c);
                    reads.push(r);
                }
                ctx.emit(
                    "Sweep",
                    json!({"sc": sc, "off": off, "from": lens[i], "n": j - i, "woffs": woffs,
                           "flens": flens, "lays": lays, "zeros": zeros, "crcs": crcs, "reads": reads}),
                );
                i = j;
                let mut l = lines.lock();
                if l.len() >= sweep_lines && i < lens.len() {
                    wr.flush(&mut l);
                    part += 1;
                    l.push(reset(part));
                }
            }
        } else {
            let mut list = match mode.as_str() {
                "boundary" => boundary_scenarios(off, &mut rng),
                "model" => model_scenarios(off, maxrecs),
                _ => random_scenarios(nscen, &mut rng),
            };
            if parts > 1 && mode != "random" {
                let mut fixed = StdRng::seed_from_u64(0xC12 ^ off as u64);
                list.shuffle(&mut fixed);
                list = list
                    .into_iter()
                    .enumerate()
                    .filter(|(i, _)| i % parts == part_no)
                    .map(|(_, s)| s)
                    .collect();
            }
            if max_scen > 0 && list.len() > max_scen {
                list.shuffle(&mut rng);
                list.truncate(max_scen);
            }
            let n = list.len();
            for (i, s) in list.iter().enumerate() {
                ctx.run_scenario(i as u64 + 1, s, &mut rng);
                let mut l = lines.lock();
                if l.len() >= MAX_LINES_PER_FILE && i + 1 < n {
                    wr.flush(&mut l);
                    part += 1;
                    l.push(reset(part));
                }
            }
        }
        wd.stop();
        let panics = peek_panics();
        let last_chunk;
        {
            let mut l = lines.lock();
            if !panics.is_empty() {
                l.push(json!({"e": "Panic", "n": panics.len()}));
            }
            last_chunk = wr.current();
            let limit = if mode == "enum" { sweep_lines } else { MAX_LINES_PER_FILE };
            if l.len() >= limit {
                wr.flush(&mut l);
            }
        }
        let traces: Vec<String> = (first_chunk..=last_chunk).map(|c| wr.path_of(c)).collect();
        let events = wr.events + lines.lock().len() - events_before;
        results.lock().push(json!({
            "seed": seed, "status": "ok", "mode": mode, "start_off": off, "part": part_no,
            "trace": traces.first().cloned().unwrap_or_default(), "traces": traces,
            "replay": rpath.to_string_lossy(), "events": events, "cases": ctx.cases,
            "reads": ctx.reads, "panics": Vec::<String>::new(),
        }));
    }
    wr.flush(&mut lines.lock());
    let res = results.lock().clone();
    std::fs::write(
        out.join("results.json"),
        serde_json::to_string_pretty(&json!({"runs": res, "aborted": false})).unwrap(),
    )
    .unwrap();
    0
}
