//! `lockfmt` driver (stub; see DESIGN.md).

use std::collections::HashMap;

pub fn cmd(_m: &HashMap<String, String>) -> i32 {
    eprintln!("lockfmt driver not implemented yet");
    2
}
