//! `lockfmt` driver (C17, "one owner at a time"): drives `DB::open`, `Drop for DB` and
//! `DB::destroy_database` of the real raindb on ONE path of a DISK-backed filesystem
//! (`OsFileSystem` / `TmpFileSystem`; the in-memory filesystem does not enforce locks) from
//! several threads and records what every call returned.  The recorded trace is judged by
//! `spec/RainLock_Trace.tla`; this driver never decides anything itself.
//!
//! Trace vocabulary (ndjson, one line per event, field `i` = global sequence number taken under
//! the one mutex of `Log`, so the line order IS the order of the call / return instants):
//!
//!   Reset   {run, seed, tag, nk:0, driver:"lockfmt"}          first event of every run
//!   Round   {n, kind}                                          start of a scenario (no effect)
//!   Call    {c, t, op:"open"|"close"|"destroy"|"probe", h, k}  a database call starts
//!   Ret     {c, t, op, h, ok, lockerr, err, got, lo, vals}     ... and has returned
//!   Gate    {c, held, pre, point}   forced schedules: call `c` is parked at a filesystem call /
//!                                   hook (`held` true) resp. let go again (`held` false);
//!                                   `pre` = the parking point precedes every lock operation of
//!                                   the call, otherwise it follows the call's successful try-lock
//!   Listing {files}                 directory tree of the database ("path:size")
//!   Wipe    {}                      the driver itself removed the database directory (nothing
//!                                   is open, nothing is pending): clean slate
//!   Hang    {c, t, op, what}        a call did not return within the deadline
//!   End     {}                      last line of every file
//!
//! `h` is the id of the handle a call creates (open), drops (close) or uses (probe); 0 for
//! destroy.  A probe writes the fresh key `k` with value `k` through handle `h`, reads it back
//! (`got`: k = right value, 0 = not found, -1 = error, -2 = other value) and re-reads the
//! previous keys `lo..k-1` (`vals`, same coding).  `lockerr` says whether the error text of a
//! failed call is the operating system's "lock is held" error.
//!
//! Scenarios of one run: (a) sequential scripts = call sequences of three agents, i.e. the
//! behaviours of RainLock in which calls do not overlap; (c) forced schedules ("gated"): a call is
//! parked inside a filesystem call or the `Closing` hook while other calls run, which replays the
//! interesting interleavings of RainLock (and the counterexample of Bug_UnlinkLockAfterRelease)
//! deterministically; (b) barrier-released real races.

use parking_lot::{Condvar, Mutex};
use raindb::fs::{
    FileLock, FileSystem, OsFileSystem, RandomAccessFile, ReadonlyRandomAccessFile, TmpFileSystem,
};
use raindb::verif::{Observer, Val};
use raindb::{DbOptions, RainDBError, ReadOptions, WriteOptions, DB};
use rand::rngs::StdRng;
use rand::seq::SliceRandom;
use rand::{Rng, SeedableRng};
use serde_json::{json, Map, Value};
use std::collections::HashMap;
use std::path::{Path, PathBuf};
use std::sync::atomic::{AtomicBool, AtomicI64, AtomicU64, Ordering};
use std::sync::{Arc, Barrier};
use std::time::{Duration, Instant};

// ---------------------------------------------------------------------------------------------
// the event log
// ---------------------------------------------------------------------------------------------

struct Log {
    st: Mutex<(u64, Vec<Value>)>,
}

impl Log {
    fn new() -> Arc<Log> {
        Arc::new(Log {
            st: Mutex::new((1, vec![])),
        })
    }

    fn emit(&self, name: &str, v: Value) -> u64 {
        let mut m = match v {
            Value::Object(m) => m,
            _ => Map::new(),
        };
        let mut st = self.st.lock();
        let i = st.0;
        st.0 += 1;
        m.insert("e".into(), json!(name));
        m.insert("i".into(), json!(i));
        st.1.push(Value::Object(m));
        i
    }

    fn snapshot(&self) -> Vec<Value> {
        self.st.lock().1.clone()
    }

    fn len(&self) -> usize {
        self.st.lock().1.len()
    }
}

// ---------------------------------------------------------------------------------------------
// watchdog over many concurrent calls
// ---------------------------------------------------------------------------------------------

struct CallDog {
    calls: Mutex<HashMap<u64, (Instant, String, String, String)>>,
    stop: AtomicBool,
}

impl CallDog {
    fn start(
        deadline: Duration,
        on_hang: Box<dyn Fn(u64, String, String, String) + Send + Sync>,
    ) -> Arc<CallDog> {
        let d = Arc::new(CallDog {
            calls: Mutex::new(HashMap::new()),
            stop: AtomicBool::new(false),
        });
        let d2 = Arc::clone(&d);
        std::thread::Builder::new()
            .name("watchdog".into())
            .spawn(move || loop {
                std::thread::sleep(Duration::from_millis(50));
                if d2.stop.load(Ordering::Relaxed) {
                    return;
                }
                let late = {
                    let calls = d2.calls.lock();
                    calls
                        .iter()
                        .filter(|(_, v)| v.0.elapsed() > deadline)
                        .map(|(c, v)| (*c, v.1.clone(), v.2.clone(), v.3.clone()))
                        .min_by_key(|x| x.0)
                };
                if let Some((c, t, op, what)) = late {
                    on_hang(c, t, op, what);
                    return;
                }
            })
            .unwrap();
        d
    }

    fn enter(&self, c: u64, t: &str, op: &str, what: String) {
        self.calls
            .lock()
            .insert(c, (Instant::now(), t.to_string(), op.to_string(), what));
    }

    fn leave(&self, c: u64) {
        self.calls.lock().remove(&c);
    }
}

// ---------------------------------------------------------------------------------------------
// gates: park a named thread at a named point (forced schedules)
// ---------------------------------------------------------------------------------------------

struct Slot {
    point: &'static str,
    reached: bool,
    open: bool,
    skip: usize,
}

pub struct Gates {
    st: Mutex<HashMap<(String, &'static str), Slot>>,
    cv: Condvar,
    /// thread name -> whether the thread held the database lock when it reached a gate point whose
    /// meaning depends on that (`current_missing`)
    holds: Mutex<HashMap<String, bool>>,
}

thread_local! {
    /// this thread's current `DB::open` has been granted the lock file
    static HOLDS_LOCK: std::cell::Cell<bool> = std::cell::Cell::new(false);
}

impl Gates {
    fn new() -> Arc<Gates> {
        Arc::new(Gates {
            st: Mutex::new(HashMap::new()),
            cv: Condvar::new(),
            holds: Mutex::new(HashMap::new()),
        })
    }

    /// The thread called `thread` will stop the first time it passes `point`.
    fn arm(&self, thread: &str, point: &'static str) {
        self.arm_nth(thread, point, 0);
    }

    /// The thread called `thread` will stop at `point` after passing it `skip` times.
    fn arm_nth(&self, thread: &str, point: &'static str, skip: usize) {
        self.st.lock().insert(
            (thread.to_string(), point),
            Slot {
                point,
                reached: false,
                open: false,
                skip,
            },
        );
    }

    fn disarm(&self, thread: &str, point: &'static str) {
        let mut st = self.st.lock();
        if let Some(s) = st.get_mut(&(thread.to_string(), point)) {
            s.open = true;
            if !s.reached {
                st.remove(&(thread.to_string(), point));
            }
        }
        self.cv.notify_all();
    }

    /// Called at an instrumented point by whatever thread gets there.
    fn pass(&self, point: &'static str) {
        let cur = std::thread::current();
        let me = match cur.name() {
            Some(n) => n.to_string(),
            None => return,
        };
        let key = (me, point);
        let mut st = self.st.lock();
        match st.get_mut(&key) {
            Some(s) if s.point == point && !s.reached => {
                if s.skip > 0 {
                    s.skip -= 1;
                    return;
                }
                s.reached = true;
            }
            _ => return,
        }
        self.cv.notify_all();
        while !st.get(&key).map(|s| s.open).unwrap_or(true) {
            self.cv.wait(&mut st);
        }
        st.remove(&key);
    }

    fn is_parked(&self, thread: &str, point: &'static str) -> bool {
        self.st
            .lock()
            .get(&(thread.to_string(), point))
            .map(|s| s.reached)
            .unwrap_or(false)
    }

    /// Wait until the thread is parked; false if it finished (or timed out) without parking.
    fn wait_parked(&self, thread: &str, done: &AtomicBool, timeout: Duration) -> bool {
        let t0 = Instant::now();
        let mut st = self.st.lock();
        loop {
            if st.iter().any(|(k, s)| k.0 == thread && s.reached) {
                return true;
            }
            if done.load(Ordering::SeqCst) || t0.elapsed() > timeout {
                st.retain(|k, _| k.0 != thread);
                return false;
            }
            self.cv.wait_for(&mut st, Duration::from_millis(2));
        }
    }

    fn release(&self, thread: &str) {
        let mut st = self.st.lock();
        for (k, s) in st.iter_mut() {
            if k.0 == thread && s.reached {
                s.open = true;
            }
        }
        self.cv.notify_all();
    }
}

/// Pass-through filesystem: every operation is the inner disk-backed filesystem's; the two
/// lock-relevant operations are gate points.
pub struct GateFs {
    inner: Arc<dyn FileSystem>,
    gates: Arc<Gates>,
    /// the database root as raindb names it (removal of it is a gate point)
    root: PathBuf,
}

impl FileSystem for GateFs {
    fn get_name(&self) -> String {
        self.inner.get_name()
    }
    fn create_dir(&self, path: &Path) -> std::io::Result<()> {
        self.inner.create_dir(path)
    }
    fn create_dir_all(&self, path: &Path) -> std::io::Result<()> {
        self.inner.create_dir_all(path)
    }
    fn list_dir(&self, path: &Path) -> std::io::Result<Vec<PathBuf>> {
        self.inner.list_dir(path)
    }
    fn open_file(&self, path: &Path) -> std::io::Result<Box<dyn ReadonlyRandomAccessFile>> {
        let r = self.inner.open_file(path);
        // an opener that has just learnt that there is no database yet (CURRENT missing): what it
        // does next (initialise a new database) needs the lock
        if r.is_err() && path.file_name().map(|n| n == "CURRENT").unwrap_or(false) {
            // (whether it holds the lock at this moment is reported truthfully: an opener may
            // look for CURRENT before it asks for the lock as long as it only LOOKS)
            if let Some(n) = std::thread::current().name() {
                self.gates.holds.lock().insert(n.to_string(), HOLDS_LOCK.with(|h| h.get()));
            }
            self.gates.pass("current_missing");
        }
        r
    }
    fn rename(&self, from: &Path, to: &Path) -> std::io::Result<()> {
        self.inner.rename(from, to)
    }
    fn create_file(&self, path: &Path, append: bool) -> std::io::Result<Box<dyn RandomAccessFile>> {
        if path.extension().map(|e| e == "rdb").unwrap_or(false) {
            if std::env::var("LOCKFMT_DEBUG").is_ok() {
                eprintln!("create_table {:?} by {:?}", path, std::thread::current().name());
            }
            self.gates.pass("create_table");
        }
        self.inner.create_file(path, append)
    }
    fn remove_file(&self, path: &Path) -> std::io::Result<()> {
        if path.file_name().map(|n| n == "LOCK").unwrap_or(false) {
            self.gates.pass("remove_lock");
        }
        self.inner.remove_file(path)
    }
    fn remove_dir(&self, path: &Path) -> std::io::Result<()> {
        if path == self.root {
            self.gates.pass("remove_root");
        }
        self.inner.remove_dir(path)
    }
    fn remove_dir_all(&self, path: &Path) -> std::io::Result<()> {
        if path == self.root {
            self.gates.pass("remove_root");
        }
        self.inner.remove_dir_all(path)
    }
    fn get_file_size(&self, path: &Path) -> std::io::Result<u64> {
        self.inner.get_file_size(path)
    }
    fn is_dir(&self, path: &Path) -> std::io::Result<bool> {
        self.inner.is_dir(path)
    }
    fn lock_file(&self, path: &Path) -> std::io::Result<FileLock> {
        self.gates.pass("lock_file");
        let r = self.inner.lock_file(path);
        HOLDS_LOCK.with(|h| h.set(r.is_ok()));
        r
    }
}

/// Observer of the database's hooks: only used to park the closing thread at the `Closing` hook
/// (start of `Drop for DB`, before the wait for background work and before the lock release).
struct GateObserver {
    gates: Arc<Gates>,
    log: Arc<Log>,
    tids: Mutex<HashMap<std::thread::ThreadId, i64>>,
}

impl Observer for GateObserver {
    fn event(&self, name: &'static str, _fields: Vec<(&'static str, Val)>) {
        if name == "Closing" {
            self.gates.pass("closing");
        }
        if name == "BgBegin" || name == "BgEnd" {
            // which background thread is working: a thread that still works after another
            // handle was opened belongs to an owner that released the lock too early
            let id = std::thread::current().id();
            let n = {
                let mut t = self.tids.lock();
                let next = t.len() as i64 + 1;
                *t.entry(id).or_insert(next)
            };
            self.log.emit("BgWork", json!({"tid": n, "phase": name}));
        }
    }

    fn sched_point(&self, name: &'static str) {
        if name == "compact_loop" {
            self.gates.pass("compact_loop");
        }
    }
}

// ---------------------------------------------------------------------------------------------
// one run
// ---------------------------------------------------------------------------------------------

struct Ctx {
    log: Arc<Log>,
    dog: Arc<CallDog>,
    gates: Arc<Gates>,
    fs: Arc<dyn FileSystem>,
    db_path: String,
    real_root: PathBuf,
    small_mem: bool,
    seed: u64,
    next_call: AtomicU64,
    next_handle: AtomicI64,
    next_key: AtomicI64,
}

const WINDOW: i64 = 6;

fn is_lock_err(e: &str) -> bool {
    e.contains("temporarily unavailable")
        || e.contains("os error 11")
        || e.contains("WouldBlock")
        || e.contains("would block")
}

impl Ctx {
    fn options(&self) -> DbOptions {
        let mut o = DbOptions {
            db_path: self.db_path.clone(),
            create_if_missing: true,
            error_if_exists: false,
            filesystem_provider: Arc::clone(&self.fs),
            ..DbOptions::default()
        };
        if self.small_mem {
            o.max_memtable_size = 1024;
        }
        o
    }

    fn new_call(&self) -> u64 {
        self.next_call.fetch_add(1, Ordering::SeqCst)
    }

    fn new_handle(&self) -> i64 {
        self.next_handle.fetch_add(1, Ordering::SeqCst)
    }

    fn ret(&self, c: u64, t: &str, op: &str, h: i64, ok: bool, err: &str, probe: Option<(i64, i64, Vec<i64>)>) {
        let (got, lo, vals) = probe.unwrap_or((0, 0, vec![]));
        let mut e = err.to_string();
        e.truncate(160);
        self.log.emit(
            "Ret",
            json!({"c": c, "t": t, "op": op, "h": h, "ok": ok, "lockerr": !ok && is_lock_err(err),
                   "err": e, "got": got, "lo": lo, "vals": vals}),
        );
    }

    fn open(&self, c: u64, t: &str, h: i64) -> Option<DB> {
        self.log
            .emit("Call", json!({"c": c, "t": t, "op": "open", "h": h, "k": 0}));
        self.dog.enter(c, t, "open", format!("open handle {}", h));
        HOLDS_LOCK.with(|x| x.set(false));
        let opts = self.options();
        let r = match std::panic::catch_unwind(std::panic::AssertUnwindSafe(|| DB::open(opts))) {
            Ok(r) => r,
            Err(_) => {
                // a panic of the code under test is data, not a crash of the driver
                self.dog.leave(c);
                self.log
                    .emit("Panic", json!({"c": c, "t": t, "op": "open", "h": h}));
                self.ret(c, t, "open", h, false, "panic in DB::open", None);
                return None;
            }
        };
        self.dog.leave(c);
        match r {
            Ok(db) => {
                self.ret(c, t, "open", h, true, "", None);
                Some(db)
            }
            Err(e) => {
                self.ret(c, t, "open", h, false, &e.to_string(), None);
                None
            }
        }
    }

    fn close(&self, c: u64, t: &str, h: i64, db: DB) {
        self.log
            .emit("Call", json!({"c": c, "t": t, "op": "close", "h": h, "k": 0}));
        self.dog.enter(c, t, "close", format!("drop handle {}", h));
        if std::panic::catch_unwind(std::panic::AssertUnwindSafe(|| drop(db))).is_err() {
            self.log
                .emit("Panic", json!({"c": c, "t": t, "op": "close", "h": h}));
        }
        self.dog.leave(c);
        self.ret(c, t, "close", h, true, "", None);
    }

    fn destroy(&self, c: u64, t: &str) -> bool {
        self.log
            .emit("Call", json!({"c": c, "t": t, "op": "destroy", "h": 0, "k": 0}));
        self.dog.enter(c, t, "destroy", "destroy_database".to_string());
        let opts = self.options();
        let r = match std::panic::catch_unwind(std::panic::AssertUnwindSafe(|| {
            DB::destroy_database(opts)
        })) {
            Ok(r) => r,
            Err(_) => {
                self.dog.leave(c);
                self.log
                    .emit("Panic", json!({"c": c, "t": t, "op": "destroy", "h": 0}));
                self.ret(c, t, "destroy", 0, false, "panic in destroy_database", None);
                return false;
            }
        };
        self.dog.leave(c);
        match r {
            Ok(()) => {
                self.ret(c, t, "destroy", 0, true, "", None);
                true
            }
            Err(e) => {
                self.ret(c, t, "destroy", 0, false, &e.to_string(), None);
                false
            }
        }
    }

    fn key(k: i64) -> Vec<u8> {
        format!("pk{:07}", k).into_bytes()
    }

    fn val(&self, k: i64) -> Vec<u8> {
        let mut v = format!("v{}-{}", k, self.seed).into_bytes();
        if self.small_mem {
            v.resize(260, b'.');
        }
        v
    }

    fn read(&self, db: &DB, k: i64) -> (i64, Option<String>) {
        let ro = ReadOptions {
            fill_cache: true,
            snapshot: None,
        };
        match db.get(ro, &Ctx::key(k)) {
            Ok(v) if v == self.val(k) => (k, None),
            Ok(_) => (-2, None),
            Err(RainDBError::KeyNotFound) => (0, None),
            Err(e) => (-1, Some(e.to_string())),
        }
    }

    /// put a fresh key through the handle, read it back, re-read the previous few keys
    fn probe(&self, t: &str, h: i64, db: &DB) {
        let c = self.new_call();
        let k = self.next_key.fetch_add(1, Ordering::SeqCst);
        self.log
            .emit("Call", json!({"c": c, "t": t, "op": "probe", "h": h, "k": k}));
        self.dog.enter(c, t, "probe", format!("put/get key {} via handle {}", k, h));
        let mut err = String::new();
        let mut ok = true;
        if let Err(e) = db.put(WriteOptions::default(), Ctx::key(k), self.val(k)) {
            ok = false;
            err = e.to_string();
        }
        let (got, e) = self.read(db, k);
        if let Some(e) = e {
            ok = false;
            err = e;
        }
        let lo = std::cmp::max(1, k - WINDOW);
        let mut vals = vec![];
        for j in lo..k {
            let (v, e) = self.read(db, j);
            if let Some(e) = e {
                ok = false;
                err = e;
            }
            vals.push(v);
        }
        self.dog.leave(c);
        self.ret(c, t, "probe", h, ok, &err, Some((got, lo, vals)));
    }

    fn listing(&self) {
        fn walk(root: &Path, dir: &Path, out: &mut Vec<String>) {
            let rd = match std::fs::read_dir(dir) {
                Ok(r) => r,
                Err(_) => return,
            };
            for e in rd.flatten() {
                let p = e.path();
                let rel = p.strip_prefix(root).unwrap_or(&p).to_string_lossy().to_string();
                match e.metadata() {
                    Ok(m) if m.is_dir() => {
                        out.push(format!("{}/", rel));
                        walk(root, &p, out);
                    }
                    Ok(m) => out.push(format!("{}:{}", rel, m.len())),
                    Err(_) => {}
                }
            }
        }
        let mut files = vec![];
        walk(&self.real_root, &self.real_root, &mut files);
        files.sort();
        self.log.emit("Listing", json!({"files": files}));
    }
}

enum Job<'a> {
    Open(i64),
    Close(i64, DB),
    Destroy,
    Probe(i64, &'a DB, usize),
}

enum Outcome {
    Opened(i64, DB),
    Nothing,
}

struct Run {
    ctx: Arc<Ctx>,
    rng: StdRng,
    /// handles this driver currently holds: (handle id, database)
    held: Vec<(i64, DB)>,
    rounds: u64,
    /// calls currently parked at a gate: thread name -> (call id, pre, point)
    parked: HashMap<String, (u64, bool, &'static str)>,
}

fn spin(ns: u64) {
    let t0 = Instant::now();
    while (t0.elapsed().as_nanos() as u64) < ns {
        std::hint::spin_loop();
    }
}

impl Run {
    fn round(&mut self, kind: &str) {
        self.rounds += 1;
        self.ctx
            .log
            .emit("Round", json!({"n": self.rounds, "kind": kind}));
    }

    // ---- sequential calls on the main thread

    fn seq_open(&mut self) -> bool {
        let c = self.ctx.new_call();
        let h = self.ctx.new_handle();
        match self.ctx.open(c, "main", h) {
            Some(db) => {
                self.held.push((h, db));
                true
            }
            None => false,
        }
    }

    fn seq_close_at(&mut self, idx: usize) {
        let (h, db) = self.held.remove(idx);
        let c = self.ctx.new_call();
        self.ctx.close(c, "main", h, db);
    }

    fn seq_close_all(&mut self) {
        while !self.held.is_empty() {
            let n = self.held.len();
            self.seq_close_at(n - 1);
        }
    }

    fn seq_destroy(&mut self) -> bool {
        let c = self.ctx.new_call();
        self.ctx.destroy(c, "main")
    }

    fn probe_all(&mut self) {
        for (h, db) in &self.held {
            self.ctx.probe("main", *h, db);
        }
    }

    fn listing(&mut self) {
        if !self.ctx.small_mem {
            self.ctx.listing();
        }
    }

    /// Clean slate: close what is held, destroy, and remove the directory by hand.  Every round in
    /// which a destroy ran concurrently with opens ends like this, so that whatever such a round
    /// did to the directory cannot leak into the following rounds.
    fn cleanup(&mut self) {
        self.seq_close_all();
        self.seq_destroy();
        let _ = std::fs::remove_dir_all(&self.ctx.real_root);
        self.ctx.log.emit("Wipe", json!({}));
    }

    fn ensure_owner(&mut self) {
        if self.held.is_empty() {
            self.seq_open();
            self.probe_all();
        }
    }

    /// One failed-intruder episode against whoever holds the database now.
    fn intruders(&mut self) {
        if self.held.is_empty() {
            return;
        }
        self.listing();
        let first_open = self.rng.gen_bool(0.5);
        for step in 0..2 {
            if (step == 0) == first_open {
                self.seq_open();
            } else {
                self.seq_destroy();
            }
            self.listing();
            self.probe_all();
        }
    }

    // ---- (a) sequential scripts: three agents, each holding at most one handle

    fn script(&mut self, steps: &[(usize, u8)]) {
        // agents own entries of `held` by handle id
        let mut agent: [Option<i64>; 3] = [None, None, None];
        for &(a, op) in steps {
            match op {
                0 => {
                    // open / close depending on the agent's state
                    if let Some(h) = agent[a] {
                        if let Some(idx) = self.held.iter().position(|x| x.0 == h) {
                            self.seq_close_at(idx);
                        }
                        agent[a] = None;
                    } else {
                        let had = !self.held.is_empty();
                        if had {
                            self.listing();
                        }
                        let before = self.held.len();
                        if self.seq_open() {
                            agent[a] = Some(self.held[before].0);
                        }
                        if had {
                            self.listing();
                        }
                        self.probe_all();
                    }
                }
                _ => {
                    let had = !self.held.is_empty();
                    if had {
                        self.listing();
                    }
                    self.seq_destroy();
                    if had {
                        self.listing();
                    }
                    self.probe_all();
                }
            }
        }
        self.seq_close_all();
    }

    fn canonical_script(&mut self) {
        self.round("script-canonical");
        // open A; open B fails; destroy fails; probe A; close A; open B succeeds; open A fails;
        // close B; destroy succeeds; open C succeeds (fresh); destroy fails; close C
        let s: Vec<(usize, u8)> = vec![
            (0, 0),
            (1, 0),
            (2, 1),
            (0, 0),
            (1, 0),
            (0, 0),
            (1, 0),
            (2, 1),
            (2, 0),
            (0, 1),
            (2, 0),
        ];
        self.script(&s);
    }

    fn random_script(&mut self) {
        self.round("script-random");
        let n = self.rng.gen_range(3..=10);
        let mut s = vec![];
        for _ in 0..n {
            let a = self.rng.gen_range(0..3);
            let op = if self.rng.gen_range(0..100) < 72 { 0 } else { 1 };
            s.push((a, op));
        }
        self.script(&s);
    }

    // ---- (b) real races

    fn race(&mut self, jobs: Vec<Job>) -> Vec<(i64, DB)> {
        let n = jobs.len();
        let barrier = Barrier::new(n);
        let jit: Vec<u64> = (0..n)
            .map(|_| match self.rng.gen_range(0..4) {
                0 => 0,
                1 => self.rng.gen_range(0..2_000),
                2 => self.rng.gen_range(0..40_000),
                _ => self.rng.gen_range(0..400_000),
            })
            .collect();
        let ctx = &self.ctx;
        let mut won = vec![];
        std::thread::scope(|s| {
            let mut hs = vec![];
            for (i, job) in jobs.into_iter().enumerate() {
                let barrier = &barrier;
                let delay = jit[i];
                let name = format!("t{}", i + 1);
                let t = name.clone();
                let c = ctx.new_call();
                hs.push(
                    std::thread::Builder::new()
                        .name(name)
                        .spawn_scoped(s, move || {
                            barrier.wait();
                            spin(delay);
                            match job {
                                Job::Open(h) => match ctx.open(c, &t, h) {
                                    Some(db) => Outcome::Opened(h, db),
                                    None => Outcome::Nothing,
                                },
                                Job::Close(h, db) => {
                                    ctx.close(c, &t, h, db);
                                    Outcome::Nothing
                                }
                                Job::Destroy => {
                                    ctx.destroy(c, &t);
                                    Outcome::Nothing
                                }
                                Job::Probe(h, db, times) => {
                                    for _ in 0..times {
                                        ctx.probe(&t, h, db);
                                    }
                                    Outcome::Nothing
                                }
                            }
                        })
                        .unwrap(),
                );
            }
            for h in hs {
                if let Ok(Outcome::Opened(h, db)) = h.join() {
                    won.push((h, db));
                }
            }
        });
        won
    }

    /// A write may block for good while the background thread is parked at a gate: it waits
    /// for the flush of a rotated memtable when the active one is full. Writes of the gated
    /// rounds therefore only start when no rotated memtable is pending and the thread is not
    /// parked yet (single writer: nothing can change that between the check and the write).
    /// Returns false if the thread is parked (stop writing) and true if it is safe to write.
    fn safe_to_write(&self, bg: &str, point: &'static str) -> bool {
        let t0 = Instant::now();
        loop {
            if self.ctx.gates.is_parked(bg, point) {
                return false;
            }
            let has_imm = self.held[0]
                .1
                .verif_try_state(Duration::from_secs(5))
                .map(|d| d.has_imm)
                .unwrap_or(true);
            if !has_imm {
                // (re-check the gate: the thread may have parked with the flush still to do)
                return !self.ctx.gates.is_parked(bg, point);
            }
            if t0.elapsed() > Duration::from_secs(10) {
                return false;
            }
            std::thread::sleep(Duration::from_millis(1));
        }
    }

    fn busy_owner(&mut self) {
        // with the small memtable a few probes rotate the memtable: background work is scheduled
        // when the handle is dropped
        if self.ctx.small_mem {
            for _ in 0..self.rng.gen_range(3..=5) {
                self.probe_all();
            }
        }
    }

    fn race_round(&mut self) {
        if self.held.len() > 1 {
            self.round("cleanup");
            self.cleanup();
        }
        let mut mixed = false;
        let kind = self.rng.gen_range(0..100);
        if kind < 30 {
            // N opens after a close
            self.round("race-opens-after-close");
            if self.rng.gen_bool(0.7) {
                self.ensure_owner();
                self.busy_owner();
            }
            self.seq_close_all();
            let n = self.rng.gen_range(2..=4);
            let jobs = (0..n).map(|_| Job::Open(self.ctx.new_handle())).collect();
            let won = self.race(jobs);
            self.held.extend(won);
        } else if kind < 55 {
            // opens racing with the close of the owner
            self.round("race-open-vs-close");
            self.seq_close_all_but_one();
            self.ensure_owner();
            self.busy_owner();
            if self.held.is_empty() {
                return;
            }
            let (h, db) = self.held.remove(0);
            let mut jobs = vec![Job::Close(h, db)];
            for _ in 0..self.rng.gen_range(1..=3) {
                if self.rng.gen_range(0..5) == 0 {
                    jobs.push(Job::Destroy);
                } else {
                    jobs.push(Job::Open(self.ctx.new_handle()));
                }
            }
            jobs.shuffle(&mut self.rng);
            mixed = jobs.iter().any(|j| matches!(j, Job::Destroy));
            let won = self.race(jobs);
            self.held.extend(won);
        } else if kind < 80 {
            // destroy racing with opens, nobody has the database open
            self.round("race-destroy-vs-open");
            if self.rng.gen_bool(0.8) {
                self.ensure_owner();
            }
            self.seq_close_all();
            let mut jobs = vec![Job::Destroy];
            for _ in 0..self.rng.gen_range(2..=5) {
                jobs.push(Job::Open(self.ctx.new_handle()));
            }
            if self.rng.gen_range(0..4) == 0 {
                jobs.push(Job::Destroy);
            }
            jobs.shuffle(&mut self.rng);
            mixed = true;
            let won = self.race(jobs);
            self.held.extend(won);
        } else {
            // intruders racing against a steady owner that keeps writing
            self.round("race-intruders-vs-owner");
            self.seq_close_all_but_one();
            self.ensure_owner();
            if self.held.is_empty() {
                return;
            }
            let (h, db) = self.held.remove(0);
            let won = {
                let mut jobs = vec![Job::Probe(h, &db, self.rng.gen_range(1..=4))];
                for _ in 0..self.rng.gen_range(1..=3) {
                    if self.rng.gen_bool(0.5) {
                        jobs.push(Job::Destroy);
                    } else {
                        jobs.push(Job::Open(self.ctx.new_handle()));
                    }
                }
                mixed = jobs.iter().any(|j| matches!(j, Job::Destroy))
                    && jobs.iter().any(|j| matches!(j, Job::Open(_)));
                self.race(jobs)
            };
            self.held.push((h, db));
            self.held.extend(won);
        }
        // whoever holds the database now: probe, attack with sequential intruders, probe
        self.probe_all();
        self.intruders();
        if mixed {
            self.cleanup();
        }
    }

    fn seq_close_all_but_one(&mut self) {
        while self.held.len() > 1 {
            let n = self.held.len();
            self.seq_close_at(n - 1);
        }
    }

    // ---- (c) forced schedules

    /// Run `job` on a thread called `name` that parks at `point`; returns after it is parked (or
    /// finished without getting there).  `then` runs while it is parked.
    fn gated<F: FnOnce(&mut Run)>(&mut self, name: &str, point: &'static str, pre: bool, job: Job, then: F) {
        let ctx = Arc::clone(&self.ctx);
        ctx.gates.arm(name, point);
        let done = AtomicBool::new(false);
        let c = ctx.new_call();
        let mut won: Vec<(i64, DB)> = vec![];
        std::thread::scope(|s| {
            let done = &done;
            let ctx2 = &ctx;
            let t = name.to_string();
            let th = std::thread::Builder::new()
                .name(name.to_string())
                .spawn_scoped(s, move || {
                    let r = match job {
                        Job::Open(h) => match ctx2.open(c, &t, h) {
                            Some(db) => Outcome::Opened(h, db),
                            None => Outcome::Nothing,
                        },
                        Job::Close(h, db) => {
                            ctx2.close(c, &t, h, db);
                            Outcome::Nothing
                        }
                        Job::Destroy => {
                            ctx2.destroy(c, &t);
                            Outcome::Nothing
                        }
                        Job::Probe(..) => Outcome::Nothing,
                    };
                    done.store(true, Ordering::SeqCst);
                    r
                })
                .unwrap();
            if ctx.gates.wait_parked(name, done, Duration::from_secs(10)) {
                // parked right after CURRENT was found missing: "pre" (= the call has not got
                // the lock yet) is what the filesystem wrapper saw, not an assumption
                let pre = if point == "current_missing" {
                    !ctx.gates.holds.lock().get(name).cloned().unwrap_or(false)
                } else {
                    pre
                };
                ctx.log
                    .emit("Gate", json!({"c": c, "held": true, "pre": pre, "point": point}));
                self.parked.insert(name.to_string(), (c, pre, point));
            }
            then(self);
            self.ungate(name);
            if let Ok(Outcome::Opened(h, db)) = th.join() {
                won.push((h, db));
            }
        });
        self.held.extend(won);
    }

    /// Let a parked call go on; the event is logged BEFORE the thread is released.
    fn ungate(&mut self, name: &str) {
        if let Some((c, pre, point)) = self.parked.remove(name) {
            self.ctx
                .log
                .emit("Gate", json!({"c": c, "held": false, "pre": pre, "point": point}));
            self.ctx.gates.release(name);
        }
    }

    fn gated_round(&mut self, which: usize) {
        if self.held.len() > 1 {
            self.round("cleanup");
            self.cleanup();
        }
        match which {
            0 => {
                // destroy parked after it released the lock, before it unlinks LOCK; a first open
                // now, a second open after destroy has finished
                self.round("gate-destroy-unlink");
                self.ensure_owner();
                self.seq_close_all();
                self.gated("g1", "remove_lock", false, Job::Destroy, |r| {
                    r.seq_open();
                    r.probe_all();
                });
                self.probe_all();
                self.seq_open();
                self.probe_all();
                self.seq_destroy();
                self.probe_all();
                self.intruders();
                self.cleanup();
                return;
            }
            1 => {
                // the owner's drop parked at its very beginning: intruders must still fail
                self.round("gate-close-begin");
                self.seq_close_all_but_one();
                self.ensure_owner();
                self.busy_owner();
                if self.held.is_empty() {
                    return;
                }
                let (h, db) = self.held.remove(0);
                self.gated("g2", "closing", true, Job::Close(h, db), |r| {
                    r.seq_open();
                    r.seq_destroy();
                    r.seq_open();
                });
                self.seq_open();
                self.probe_all();
            }
            2 => {
                // an open parked just before it asks for the lock; meanwhile another open wins
                self.round("gate-open-before-lock");
                self.seq_close_all();
                let h = self.ctx.new_handle();
                self.gated("g3", "lock_file", true, Job::Open(h), |r| {
                    r.seq_open();
                    r.probe_all();
                    r.listing();
                });
                self.listing();
                self.probe_all();
            }
            3 => {
                // a destroy parked just before it asks for the lock; meanwhile an open wins
                self.round("gate-destroy-before-lock");
                self.ensure_owner();
                self.seq_close_all();
                self.gated("g4", "lock_file", true, Job::Destroy, |r| {
                    r.seq_open();
                    r.probe_all();
                    r.listing();
                });
                self.listing();
                self.probe_all();
                self.intruders();
                self.cleanup();
                return;
            }
            6 => {
                // close while a memtable flush is running and NOTHING else is scheduled: the lock
                // must stay held until that one task has ended
                self.round("gate-close-during-flush");
                if !self.ctx.small_mem {
                    return;
                }
                self.seq_close_all_but_one();
                self.ensure_owner();
                if self.held.is_empty() {
                    return;
                }
                const BG: &str = "raindb-tumtum";
                // let earlier background work settle, so that the next table created is the
                // flush of the next rotated memtable
                let _ = crate::common::wait_quiescent(&self.held[0].1, Duration::from_secs(20));
                self.ctx.gates.arm(BG, "create_table");
                let mut parked = false;
                for _ in 0..30 {
                    if !self.safe_to_write(BG, "create_table") {
                        break;
                    }
                    self.probe_all();
                }
                for _ in 0..40 {
                    if self.ctx.gates.is_parked(BG, "create_table") {
                        parked = true;
                        break;
                    }
                    std::thread::sleep(Duration::from_millis(5));
                }
                if !parked {
                    self.ctx.gates.disarm(BG, "create_table");
                    self.intruders();
                    return;
                }
                let (h, db) = self.held.remove(0);
                let ctx = Arc::clone(&self.ctx);
                let c = ctx.new_call();
                std::thread::scope(|s| {
                    let ctx2 = &ctx;
                    let th = std::thread::Builder::new()
                        .name("g8".to_string())
                        .spawn_scoped(s, move || ctx2.close(c, "g8", h, db))
                        .unwrap();
                    std::thread::sleep(Duration::from_millis(30));
                    // the owner is closing, its flush is suspended at the creation of the table
                    self.seq_open();
                    self.probe_all();
                    ctx.gates.disarm(BG, "create_table");
                    ctx.gates.release(BG);
                    let _ = th.join();
                });
                self.seq_open();
                self.probe_all();
            }
            5 => {
                // close while a table compaction with a memtable flush inside its loop is running:
                // the lock must stay held until that background work has stopped
                self.round("gate-close-during-compaction");
                if !self.ctx.small_mem {
                    return;
                }
                self.seq_close_all_but_one();
                self.ensure_owner();
                if self.held.is_empty() {
                    return;
                }
                const BG: &str = "raindb-tumtum";
                self.ctx.gates.arm(BG, "compact_loop");
                let mut parked = false;
                for _ in 0..80 {
                    // a key below all probe keys in every memtable: the level-0 tables overlap,
                    // so compacting them is a merge and not a trivial move
                    if !self.safe_to_write(BG, "compact_loop") {
                        break;
                    }
                    let _ = self.held[0].1.put(
                        WriteOptions::default(),
                        b"pa".to_vec(),
                        self.ctx.val(0),
                    );
                    if !self.safe_to_write(BG, "compact_loop") {
                        break;
                    }
                    self.probe_all();
                }
                // (give a compaction that is just starting the time to reach the gate)
                for _ in 0..40 {
                    if self.ctx.gates.is_parked(BG, "compact_loop") {
                        parked = true;
                        break;
                    }
                    std::thread::sleep(Duration::from_millis(5));
                }
                if !parked {
                    self.ctx.gates.disarm(BG, "compact_loop");
                    self.intruders();
                    return;
                }
                // rotate the memtable once more while the compaction is parked (no further writes
                // after that: a second rotation would wait for the parked thread)
                for _ in 0..12 {
                    let has_imm = self.held[0]
                        .1
                        .verif_try_state(Duration::from_secs(5))
                        .map(|d| d.has_imm)
                        .unwrap_or(true);
                    if std::env::var("LOCKFMT_DEBUG").is_ok() {
                        eprintln!("parked at compact_loop, has_imm={}", has_imm);
                    }
                    if has_imm {
                        break;
                    }
                    self.probe_all();
                }
                // the second table the background thread creates from now on is the compaction's
                // output (the first one is the flush of the rotated memtable)
                self.ctx.gates.arm_nth(BG, "create_table", 1);
                let (h, db) = self.held.remove(0);
                let ctx = Arc::clone(&self.ctx);
                let c = ctx.new_call();
                std::thread::scope(|s| {
                    let ctx2 = &ctx;
                    let th = std::thread::Builder::new()
                        .name("g7".to_string())
                        .spawn_scoped(s, move || ctx2.close(c, "g7", h, db))
                        .unwrap();
                    std::thread::sleep(Duration::from_millis(30));
                    // the owner is closing while its compaction is suspended in the merge loop:
                    // the lock must still be held
                    self.seq_open();
                    ctx.gates.release(BG);
                    let t0 = Instant::now();
                    while !ctx.gates.is_parked(BG, "create_table")
                        && !th.is_finished()
                        && t0.elapsed() < Duration::from_secs(3)
                    {
                        std::thread::sleep(Duration::from_millis(2));
                    }
                    if std::env::var("LOCKFMT_DEBUG").is_ok() {
                        eprintln!(
                            "close-during-compaction: parked2={} closed={} waited={:?}",
                            ctx.gates.is_parked(BG, "create_table"),
                            th.is_finished(),
                            t0.elapsed()
                        );
                    }
                    // the owner is still closing and its compaction is still running
                    self.seq_open();
                    self.probe_all();
                    ctx.gates.disarm(BG, "create_table");
                    ctx.gates.release(BG);
                    let _ = th.join();
                });
                self.seq_open();
                self.probe_all();
            }
            7 => {
                // destroy parked at its LAST step - the removal of the (by then empty) root
                // directory, after LOCK was unlinked and the lock released: an open in that window
                // creates a new database, which the resumed destroy must leave alone
                self.round("gate-destroy-before-rmdir");
                self.ensure_owner();
                self.seq_close_all();
                self.gated("g7", "remove_root", false, Job::Destroy, |r| {
                    r.seq_open();
                    r.probe_all();
                });
                self.probe_all();
                self.intruders();
                self.probe_all();
                self.cleanup();
                return;
            }
            9 => {
                // no database yet (destroyed): an open is parked right after it found CURRENT
                // missing, i.e. before it initialises the new database - it must be holding the
                // lock by then: another open in the window has to fail and must not be overwritten
                self.round("gate-open-found-no-current");
                self.seq_close_all();
                self.seq_destroy();
                let h = self.ctx.new_handle();
                self.gated("g9", "current_missing", false, Job::Open(h), |r| {
                    r.seq_open();
                    // (with the small memtable: enough to have a table flushed and recorded)
                    for _ in 0..8 {
                        r.probe_all();
                    }
                    r.listing();
                });
                self.listing();
                self.probe_all();
                // whatever the parked opener did when it went on: what the owner of the window
                // wrote has to be there after a close and reopen
                self.seq_close_all();
                self.seq_open();
                self.probe_all();
                self.intruders();
                self.probe_all();
                self.cleanup();
                return;
            }
            _ => {
                // an open that has finished its pre-lock work is parked; a destroy runs up to the
                // unlink of LOCK; the open continues; the destroy continues
                self.round("gate-open-inside-destroy");
                self.ensure_owner();
                self.seq_close_all();
                let h = self.ctx.new_handle();
                self.gated("g5", "lock_file", true, Job::Open(h), |r| {
                    r.gated("g6", "remove_lock", false, Job::Destroy, |r2| {
                        r2.ungate("g5");
                        // give the open time to run to its end while the destroy is parked
                        let t0 = Instant::now();
                        while t0.elapsed() < Duration::from_millis(30) {
                            std::thread::sleep(Duration::from_millis(1));
                        }
                    });
                });
                self.probe_all();
                self.seq_open();
                self.probe_all();
                self.intruders();
                self.cleanup();
                return;
            }
        }
        self.intruders();
    }
}

// ---------------------------------------------------------------------------------------------
// command
// ---------------------------------------------------------------------------------------------

fn end_line() -> Value {
    json!({"e": "End", "i": 0})
}

pub fn cmd(m: &HashMap<String, String>) -> i32 {
    let out = PathBuf::from(
        m.get("out")
            .cloned()
            .unwrap_or_else(|| "/verif/out/c17/run".into()),
    );
    std::fs::create_dir_all(&out).unwrap();
    let out = out.canonicalize().unwrap();
    let mut seed0: u64 = crate::arg_of(m, "seed", 1);
    let mut runs: u64 = crate::arg_of(m, "runs", 2);
    let mut rounds: u64 = crate::arg_of(m, "rounds", 30);
    let mut scripts: u64 = crate::arg_of(m, "scripts", 6);
    let mut gates: u64 = crate::arg_of(m, "gates", 1);
    let per_file: u64 = crate::arg_of(m, "per-file", 2);
    let deadline = Duration::from_secs(crate::arg_of(m, "deadline", 90));
    let mut fs_kind: String = crate::arg_of(m, "fs", "mixed".to_string());
    let mut script_arg: Option<String> = m.get("script").cloned();
    if let Some(p) = m.get("replay") {
        let rp: Value = serde_json::from_str(&std::fs::read_to_string(p).expect("replay file")).unwrap();
        seed0 = rp["seed"].as_u64().unwrap_or(seed0);
        runs = 1;
        rounds = rp["rounds"].as_u64().unwrap_or(rounds);
        scripts = rp["scripts"].as_u64().unwrap_or(scripts);
        gates = rp["gates"].as_u64().unwrap_or(gates);
        fs_kind = rp["fs"].as_str().unwrap_or("mixed").to_string();
        if let Some(t) = rp["script"].as_str() {
            if !t.is_empty() {
                script_arg = Some(t.to_string());
            }
        }
    }
    let dbs = out.join("dbs");
    std::fs::create_dir_all(&dbs).unwrap();

    let results: Arc<Mutex<Vec<Value>>> = Arc::new(Mutex::new(vec![]));
    let mut chunk = 0u64;
    let mut run_no = 0u64;
    let mut seed = seed0;
    while seed < seed0 + runs {
        let log = Log::new();
        let path = out.join(format!("trace_{:04}.ndjson", chunk));
        let mut in_file = 0;
        while seed < seed0 + runs && in_file < per_file {
            in_file += 1;
            run_no += 1;
            let this_seed = seed;
            seed += 1;
            let mut rng = StdRng::seed_from_u64(this_seed.wrapping_mul(0x9E3779B97F4A7C15) ^ 0xC17);
            let use_tmp = match fs_kind.as_str() {
                "os" => false,
                "tmp" => true,
                _ => this_seed % 2 == 1,
            };
            let small_mem = rng.gen_bool(0.5);
            let rpath = out.join(format!("replay_{}.json", this_seed));
            let replay = json!({"driver": "lockfmt", "seed": this_seed, "rounds": rounds,
                                "scripts": scripts, "gates": gates,
                                "script": script_arg.clone().unwrap_or_default(),
                                "fs": if use_tmp { "tmp" } else { "os" }});
            std::fs::write(&rpath, serde_json::to_string(&replay).unwrap()).unwrap();

            // the disk-backed filesystem under test, wrapped by the pass-through gate layer
            let gatesv = Gates::new();
            let mut tmp_keep: Option<Arc<TmpFileSystem>> = None;
            let run_dir = dbs.join(format!("run{}", this_seed));
            let _ = std::fs::remove_dir_all(&run_dir);
            std::fs::create_dir_all(&run_dir).unwrap();
            let (inner, db_path, real_root): (Arc<dyn FileSystem>, String, PathBuf) = if use_tmp {
                let t = Arc::new(TmpFileSystem::new(Some(&run_dir)));
                let root = t.get_root_path().join("db");
                tmp_keep = Some(Arc::clone(&t));
                (t, "db".to_string(), root)
            } else {
                let root = run_dir.join("db");
                (
                    Arc::new(OsFileSystem::new()),
                    root.to_string_lossy().to_string(),
                    root,
                )
            };
            let fs: Arc<dyn FileSystem> = Arc::new(GateFs {
                inner,
                gates: Arc::clone(&gatesv),
                root: PathBuf::from(&db_path),
            });

            // watchdog: on a hang write what there is and leave with code 3
            let first_event = log.len();
            let dog = {
                let log2 = Arc::clone(&log);
                let path2 = path.clone();
                let out2 = out.clone();
                let results2 = Arc::clone(&results);
                let rpath2 = rpath.clone();
                let dbs2 = dbs.clone();
                CallDog::start(
                    deadline,
                    Box::new(move |c, t, op, what| {
                        log2.emit("Hang", json!({"c": c, "t": t, "op": op, "what": what}));
                        let mut lines = log2.snapshot();
                        let n = lines.len();
                        lines.push(end_line());
                        let _ = crate::trace::write_ndjson(&path2, &lines);
                        let mut res = results2.lock().clone();
                        res.push(json!({"seed": this_seed, "status": "hang", "detail": what,
                            "trace": path2.to_string_lossy(), "replay": rpath2.to_string_lossy(),
                            "events": n - first_event, "rounds": 0}));
                        let _ = std::fs::write(
                            out2.join("results.json"),
                            serde_json::to_string_pretty(&json!({"runs": res, "aborted": true})).unwrap(),
                        );
                        let _ = std::fs::remove_dir_all(&dbs2);
                        std::process::exit(3);
                    }),
                )
            };

            let ctx = Arc::new(Ctx {
                log: Arc::clone(&log),
                dog: Arc::clone(&dog),
                gates: Arc::clone(&gatesv),
                fs,
                db_path: db_path.clone(),
                real_root,
                small_mem,
                seed: this_seed,
                next_call: AtomicU64::new(1),
                next_handle: AtomicI64::new(1),
                next_key: AtomicI64::new(1),
            });
            raindb::verif::install(
                &db_path,
                Arc::new(GateObserver {
                    gates: Arc::clone(&gatesv),
                    log: Arc::clone(&log),
                    tids: Mutex::new(HashMap::new()),
                }),
            );
            let tag = format!(
                "{}{}",
                if use_tmp { "tmpfs" } else { "osfs" },
                if small_mem { "+smallmem" } else { "" }
            );
            log.emit(
                "Reset",
                json!({"run": run_no, "seed": this_seed, "tag": tag, "nk": 0, "driver": "lockfmt"}),
            );
            let mut run = Run {
                ctx: Arc::clone(&ctx),
                rng,
                held: vec![],
                rounds: 0,
                parked: HashMap::new(),
            };
            // (a) sequential scripts
            if let Some(txt) = &script_arg {
                // "--script 0o,1o,2d,0o": agent 0..2, o = open (or close if it holds a handle),
                // d = destroy; e.g. a call sequence read off a TLC behaviour of RainLock
                let steps: Vec<(usize, u8)> = txt
                    .split(',')
                    .filter_map(|t| {
                        let t = t.trim();
                        let a = t.chars().next()?.to_digit(10)? as usize;
                        let op = if t.ends_with('d') { 1 } else { 0 };
                        if a < 3 { Some((a, op)) } else { None }
                    })
                    .collect();
                run.round("script-given");
                run.script(&steps);
            }
            run.canonical_script();
            for _ in 0..scripts {
                run.random_script();
            }
            // (c) forced schedules, (b) races, interleaved
            let mut plan: Vec<usize> = vec![];
            for _ in 0..gates {
                plan.extend(0..10usize);
            }
            let mut kinds: Vec<Option<usize>> = plan.into_iter().map(Some).collect();
            kinds.extend((0..rounds).map(|_| None));
            kinds.shuffle(&mut run.rng);
            for k in kinds {
                match k {
                    Some(g) => run.gated_round(g),
                    None => run.race_round(),
                }
            }
            // leave: close everything; the final destroy must find the database unowned
            run.round("final");
            run.seq_close_all();
            run.seq_destroy();
            let nrounds = run.rounds;
            drop(run);
            dog.stop.store(true, Ordering::Relaxed);
            raindb::verif::clear(&db_path);
            drop(ctx);
            drop(tmp_keep);
            let _ = std::fs::remove_dir_all(&run_dir);
            crate::common::take_panics();
            results.lock().push(json!({"seed": this_seed, "status": "ok",
                "trace": path.to_string_lossy(), "replay": rpath.to_string_lossy(),
                "events": log.len() - first_event, "rounds": nrounds, "tag": tag}));
        }
        let mut lines = log.snapshot();
        lines.push(end_line());
        crate::trace::write_ndjson(&path, &lines).unwrap();
        chunk += 1;
    }
    let _ = std::fs::remove_dir_all(&dbs);
    let res = results.lock().clone();
    std::fs::write(
        out.join("results.json"),
        serde_json::to_string_pretty(&json!({"runs": res, "aborted": false})).unwrap(),
    )
    .unwrap();
    0
}
