//! Trace sink: one totally ordered ndjson stream fed by hook events (through an `Observer`),
//! by the recording filesystem and by the drivers themselves.

use parking_lot::Mutex;
use raindb::verif::{Observer, Val};
use serde_json::{json, Map, Value};
use std::io::Write;
use std::sync::Arc;

use crate::universe::Universe;

pub struct SinkState {
    pub next: u64,
    pub lines: Vec<Value>,
    /// run number, bumped by `reset`
    pub run: u64,
}

/// The global event sequence of one harness run.
pub struct TraceSink {
    state: Mutex<SinkState>,
    pub universe: Arc<Universe>,
    /// when false, entry lists of table files / memtables are not kept in events
    pub keep: Mutex<bool>,
}

pub fn thread_label() -> String {
    let t = std::thread::current();
    match t.name() {
        Some(n) if n.starts_with("raindb-") => "bg".to_string(),
        Some(n) => n.to_string(),
        None => "anon".to_string(),
    }
}

impl TraceSink {
    pub fn new(universe: Arc<Universe>) -> Arc<Self> {
        Arc::new(TraceSink {
            state: Mutex::new(SinkState {
                next: 1,
                lines: vec![],
                run: 0,
            }),
            universe,
            keep: Mutex::new(true),
        })
    }

    /// Append one event; returns its sequence number.
    pub fn emit(&self, name: &str, fields: Map<String, Value>) -> u64 {
        self.emit_as(&thread_label(), name, fields)
    }

    /// Append one event on behalf of the thread with the given label.
    pub fn emit_as(&self, label: &str, name: &str, mut fields: Map<String, Value>) -> u64 {
        // TLC's JSON module cannot read null
        fn scrub(v: &mut Value) {
            match v {
                Value::Null => *v = json!(0),
                Value::Array(a) => a.iter_mut().for_each(scrub),
                Value::Object(o) => o.values_mut().for_each(scrub),
                _ => {}
            }
        }
        fields.values_mut().for_each(scrub);
        let mut st = self.state.lock();
        let i = st.next;
        st.next += 1;
        fields.insert("i".into(), json!(i));
        fields.insert("t".into(), json!(label));
        fields.insert("e".into(), json!(name));
        st.lines.push(Value::Object(fields));
        i
    }

    pub fn emit_json(&self, name: &str, v: Value) -> u64 {
        match v {
            Value::Object(m) => self.emit(name, m),
            _ => self.emit(name, Map::new()),
        }
    }

    pub fn len(&self) -> usize {
        self.state.lock().lines.len()
    }

    pub fn take(&self) -> Vec<Value> {
        let mut st = self.state.lock();
        std::mem::take(&mut st.lines)
    }

    pub fn snapshot(&self) -> Vec<Value> {
        self.state.lock().lines.clone()
    }

    pub fn write_to(&self, path: &std::path::Path) -> std::io::Result<usize> {
        let lines = self.snapshot();
        write_ndjson(path, &lines)?;
        Ok(lines.len())
    }
}

pub fn write_ndjson(path: &std::path::Path, lines: &[Value]) -> std::io::Result<()> {
    if let Some(p) = path.parent() {
        std::fs::create_dir_all(p)?;
    }
    fn scrub(v: &mut Value) {
        match v {
            Value::Null => *v = json!(0),
            Value::Array(a) => a.iter_mut().for_each(scrub),
            Value::Object(o) => o.values_mut().for_each(scrub),
            _ => {}
        }
    }
    let mut f = std::io::BufWriter::new(std::fs::File::create(path)?);
    for l in lines {
        let mut l = l.clone();
        scrub(&mut l);
        serde_json::to_writer(&mut f, &l)?;
        f.write_all(b"\n")?;
    }
    f.flush()
}

/// Converts hook values to JSON, mapping user keys and values to ids of the universe.
pub struct Conv<'a> {
    pub u: &'a Universe,
}

impl<'a> Conv<'a> {
    pub fn val(&self, name: &str, v: &Val) -> Value {
        match v {
            Val::Null => json!(0),
            Val::U(x) => json!(x),
            Val::B(b) => json!(b),
            Val::S(s) => json!(s),
            Val::Bytes(b) => {
                if name == "key" {
                    json!(self.u.key_id(b))
                } else {
                    json!(self.u.value_id(b))
                }
            }
            Val::IKey(k, s, o) => json!([self.u.key_id(k), s, o]),
            Val::Entry(k, s, o, v) => {
                let vid = if *o == 1 { self.u.value_id(v) } else { 0 };
                json!([self.u.key_id(k), s, o, vid])
            }
            Val::List(l) => Value::Array(l.iter().map(|x| self.val(name, x)).collect()),
            Val::Map(m) => {
                let mut o = Map::new();
                for (k, x) in m {
                    if *k == "ents" {
                        // entry lists: a list when the table could be read back, otherwise absent
                        match x {
                            Val::List(_) => {
                                o.insert("ents".into(), self.val(k, x));
                                o.insert("entsok".into(), json!(true));
                            }
                            _ => {
                                o.insert("ents".into(), json!([]));
                                o.insert("entsok".into(), json!(false));
                            }
                        }
                        continue;
                    }
                    o.insert((*k).to_string(), self.val(k, x));
                }
                Value::Object(o)
            }
        }
    }
}

/// The observer installed into raindb: forwards events into the sink.
pub struct SinkObserver {
    /// version captures of gets that have not been logged (yet): thread label -> fields.
    /// A capture is only logged if background work starts before the get is done, because only
    /// then can the pinned version differ from the current one; see `event`.
    pub lazy_gets: Mutex<std::collections::HashMap<String, (Map<String, Value>, bool)>>,
    pub bg_active: std::sync::atomic::AtomicBool,
    pub sink: Arc<TraceSink>,
    pub want_contents: bool,
    /// optional scheduling controller
    pub ctl: Option<Arc<dyn Controller>>,
    /// events that are not recorded (to keep traces small)
    pub mute: Vec<&'static str>,
}

/// Scheduling controller interface (implemented by the `sched` driver).
pub trait Controller: Send + Sync {
    fn sched_point(&self, name: &'static str);
    fn about_to_wait(&self, which: &'static str);
    fn woke(&self, which: &'static str);
    fn bg_idle(&self);
    fn on_event(&self, _name: &'static str) {}
}

impl Observer for SinkObserver {
    fn event(&self, name: &'static str, fields: Vec<(&'static str, Val)>) {
        if let Some(c) = &self.ctl {
            c.on_event(name);
        }
        if self.mute.contains(&name) {
            return;
        }
        let conv = Conv {
            u: &self.sink.universe,
        };
        let mut m = Map::new();
        for (k, v) in &fields {
            m.insert((*k).to_string(), conv.val(k, v));
        }
        // All three hooks below fire while the database mutex is held, so they are serialised.
        match name {
            "GetCapture" => {
                if self.bg_active.load(std::sync::atomic::Ordering::SeqCst) {
                    self.lazy_gets.lock().insert(thread_label(), (Map::new(), true));
                } else {
                    self.lazy_gets.lock().insert(thread_label(), (m, false));
                    return;
                }
            }
            "GetDone" => {
                let e = self.lazy_gets.lock().remove(&thread_label());
                match e {
                    Some((_, true)) => {}
                    _ => return,
                }
            }
            "BgEnd" => {
                self.bg_active
                    .store(false, std::sync::atomic::Ordering::SeqCst);
            }
            "BgBegin" => {
                self.bg_active
                    .store(true, std::sync::atomic::Ordering::SeqCst);
                let mut lazy = self.lazy_gets.lock();
                for (label, (fields, logged)) in lazy.iter_mut() {
                    if !*logged {
                        self.sink.emit_as(label, "GetCapture", fields.clone());
                        *logged = true;
                    }
                }
            }
            _ => {}
        }
        self.sink.emit(name, m);
    }

    fn sched_point(&self, name: &'static str) {
        if let Some(c) = &self.ctl {
            c.sched_point(name);
        }
    }

    fn about_to_wait(&self, which: &'static str) {
        if let Some(c) = &self.ctl {
            c.about_to_wait(which);
        }
    }

    fn woke(&self, which: &'static str) {
        if let Some(c) = &self.ctl {
            c.woke(which);
        }
    }

    fn bg_idle(&self) {
        if let Some(c) = &self.ctl {
            c.bg_idle();
        }
    }

    fn wants_table_contents(&self) -> bool {
        self.want_contents
    }
}
