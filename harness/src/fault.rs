//! `fault` driver: the same short workload is executed once per (position, mode) with one
//! injected filesystem failure: the i-th faultable call (create, write/append, rename, remove,
//! open-for-read, size, list) fails, either only that call (transient) or that call and every
//! later one (sticky). Each run is traced and judged on its own: every call result, the values
//! read after every step, and - after the fault is disarmed and the database reopened - the final
//! contents.

use rand::rngs::StdRng;
use rand::{Rng, SeedableRng};
use serde_json::{json, Value};
use std::sync::Arc;
use std::time::Duration;

use crate::common::*;
use crate::hist::{Op, Session, ValSpec, ROOT};
use crate::simfs::{FaultMode, SimFs};
use crate::trace::TraceSink;
use crate::universe::Universe;

/// `--read-faults`: read calls are faultable operations too
pub static READ_FAULTS: std::sync::atomic::AtomicBool = std::sync::atomic::AtomicBool::new(false);

static CURRENT_SINK: parking_lot::Mutex<Option<Arc<TraceSink>>> = parking_lot::Mutex::new(None);

/// The sink of the execution that is running right now (for the watchdog).
pub fn current_sink() -> Option<Arc<TraceSink>> {
    CURRENT_SINK.lock().clone()
}

pub struct FaultPlan {
    pub seed: u64,
    pub opts: OptSet,
    pub nkeys: usize,
    pub ops: Vec<Op>,
}

pub fn make_plan(seed: u64, nops: usize, large: bool, reopen_heavy: bool) -> FaultPlan {
    let mut rng = StdRng::seed_from_u64(seed ^ 0x51ed270b);
    let opts = OptSet {
        memtable: *[300usize, 500, 900].get(rng.gen_range(0..3)).unwrap(),
        file: *[300u64, 700, 2000].get(rng.gen_range(0..3)).unwrap(),
        block: *[64usize, 256, 4096].get(rng.gen_range(0..3)).unwrap(),
        reuse: rng.gen_bool(0.5),
    };
    let mut opts = opts;
    if reopen_heavy {
        opts.reuse = true;
    }
    let nkeys = rng.gen_range(3..=6);
    let mut vid = 1;
    let mut ops = vec![];
    let mut val = |rng: &mut StdRng| {
        let len = if large && rng.gen_bool(0.15) {
            rng.gen_range(33_000..40_000)
        } else {
            rng.gen_range(20..120)
        };
        let v = ValSpec {
            vid,
            len,
            comp: rng.gen_bool(0.5),
        };
        vid += 1;
        v
    };
    for _ in 0..nops {
        let r = rng.gen_range(0..100);
        let k = rng.gen_range(1..=nkeys as i64);
        if r < 55 {
            ops.push(Op::Put { k, v: val(&mut rng) });
        } else if r < 67 {
            ops.push(Op::Del { k });
        } else if r < 78 {
            let n = rng.gen_range(2..=3);
            let b = (0..n)
                .map(|_| {
                    let k = rng.gen_range(1..=nkeys as i64);
                    if rng.gen_bool(0.8) {
                        (k, Some(val(&mut rng)))
                    } else {
                        (k, None)
                    }
                })
                .collect();
            ops.push(Op::Batch { ops: b });
        } else if r < 85 {
            ops.push(Op::Flush);
        } else if r < 92 {
            ops.push(Op::Compact { lo: None, hi: None });
        } else {
            ops.push(Op::Reopen { opts: opts.clone() });
        }
        if reopen_heavy && rng.gen_bool(0.15) {
            // a reopen followed at once by a write that spans log blocks: whatever the reopened
            // log writer believes about its position in the (possibly reused) file matters now
            // (a small write first, so that the log is not empty and - with reuse_log_files -
            // is appended to again after the reopen)
            let k0 = rng.gen_range(1..=nkeys as i64);
            let mut v0 = val(&mut rng);
            v0.len = rng.gen_range(20..60);
            ops.push(Op::Put { k: k0, v: v0 });
            ops.push(Op::Reopen { opts: opts.clone() });
            let k = rng.gen_range(1..=nkeys as i64);
            let mut v = val(&mut rng);
            v.len = rng.gen_range(33_000..40_000);
            v.comp = false;
            ops.push(Op::Put { k, v });
        }
    }
    FaultPlan {
        seed,
        opts,
        nkeys,
        ops,
    }
}

pub struct FaultOutcome {
    pub lines: Vec<Value>,
    pub total_ops: u64,
    pub fired: u64,
    pub status: String,
    /// (ordinal, "class/file kind") of every faultable call of the reference run
    pub classes: Vec<(u64, String)>,
    /// per table file of the reference run: the ordinals of its last five writes (last data
    /// block, filter block, metaindex, index, footer - the part `TableBuilder::finalize` writes)
    pub table_tails: Vec<Vec<u64>>,
}

/// Execute the plan with at most one injected fault.
pub fn run_fault(
    plan: &FaultPlan,
    fault: Option<(u64, bool)>,
    wd: &Arc<Watchdog>,
    run_no: u64,
    record_classes: bool,
) -> FaultOutcome {
    let u = Arc::new(Universe::plain(plan.nkeys));
    let sink = TraceSink::new(Arc::clone(&u));
    *CURRENT_SINK.lock() = Some(Arc::clone(&sink));
    let fs = SimFs::new(ROOT);
    fs.attach(Some(Arc::clone(&sink)));
    fs.record_oplog(record_classes);
    fs.set_read_faults(READ_FAULTS.load(std::sync::atomic::Ordering::Relaxed));
    raindb::verif::install(
        ROOT,
        Arc::new(crate::trace::SinkObserver {
            sink: Arc::clone(&sink),
            want_contents: false,
            ctl: None,
            lazy_gets: parking_lot::Mutex::new(Default::default()),
            bg_active: std::sync::atomic::AtomicBool::new(false),
            mute: vec!["GetCapture", "GetDone", "IterNew", "IterDrop", "IterDropped"],
        }),
    );
    take_panics();
    let (idx, sticky) = fault.unwrap_or((u64::MAX, false));
    sink.emit_json(
        "Reset",
        json!({"run": run_no, "seed": plan.seed, "nk": u.n(), "driver": "fault",
               "fault": fault.is_some(), "idx": if fault.is_some() { idx as i64 } else { -1 },
               "sticky": sticky,
               "tag": if fault.is_some() { format!("{}:{}", idx, sticky) } else { "ref".to_string() }}),
    );
    if fault.is_some() {
        fs.set_fault(FaultMode::At { index: idx, sticky });
    }
    let mut sess = Session {
        opens: vec![],
        fs: fs.clone(),
        sink: Arc::clone(&sink),
        u: Arc::clone(&u),
        db: None,
        snaps: vec![],
        iters: vec![],
        opts: plan.opts.clone(),
        wd: Arc::clone(wd),
        scan_limit: 10_000,
        walk_rng: None,
        open_matrix: false,
        opened_ok: 0,
    };
    let mut status = "ok".to_string();
    let mut errors_seen = 0;
    let opened = sess.open(&plan.opts).is_ok();
    if opened {
        sess.observe();
        for op in &plan.ops {
            let before = sink.len();
            sess.apply(op);
            if sess.db.is_none() {
                // a reopen failed (allowed under a fault): go to the final phase
                errors_seen += 1;
                break;
            }
            // let background work (and its errors) surface before judging further calls
            if let Some(db) = sess.db.as_ref() {
                let _ = wd.call("quiesce", || wait_quiescent(db, Duration::from_secs(20)));
            }
            sess.observe();
            // count calls that reported an error; stop soon after the first one so that the set
            // of failed writes stays small
            let failed = sink.snapshot()[before..]
                .iter()
                .any(|l| l["e"] == json!("Ret") && l["ok"] == json!(false));
            if failed {
                errors_seen += 1;
            }
            if errors_seen >= 3 {
                break;
            }
            if peek_panics().iter().any(|p| p.thread == "bg") {
                status = "bgpanic".into();
                break;
            }
        }
    }
    // final phase: the fault goes away, clean close, reopen, read everything back
    let fired = fs.fault_fired();
    let total_ops = fs.op_counter();
    fs.set_fault(FaultMode::Off);
    sink.emit_json("Disarm", json!({"fired": fired}));
    if status == "bgpanic" {
        for p in peek_panics() {
            sink.emit_json(
                "Panic",
                json!({"thread": p.thread, "msg": p.message, "loc": p.location}),
            );
        }
        std::mem::forget(sess.db.take());
    } else {
        sess.close();
        match sess.open(&plan.opts) {
            Ok(()) => {
                sess.observe_final();
                sess.close();
            }
            Err(_) => {
                status = "reopenfail".into();
            }
        }
    }
    raindb::verif::clear(ROOT);
    let table_tails: Vec<Vec<u64>> = if record_classes {
        let mut by_path: std::collections::BTreeMap<String, Vec<u64>> = Default::default();
        for o in fs.oplog().iter() {
            let (kind, _) = crate::simfs::classify(
                std::path::Path::new(ROOT),
                std::path::Path::new(&o.path),
            );
            if o.class == "write" && kind == "table" {
                by_path.entry(o.path.clone()).or_default().push(o.index);
            }
        }
        by_path
            .into_values()
            .map(|v| v[v.len().saturating_sub(5)..].to_vec())
            .collect()
    } else {
        vec![]
    };
    let classes = if record_classes {
        fs.oplog()
            .iter()
            .map(|o| {
                let (kind, _) = crate::simfs::classify(
                    std::path::Path::new(ROOT),
                    std::path::Path::new(&o.path),
                );
                (o.index, format!("{}/{}", o.class, kind))
            })
            .collect()
    } else {
        vec![]
    };
    take_panics();
    FaultOutcome {
        lines: sink.take(),
        total_ops,
        fired,
        status,
        classes,
        table_tails,
    }
}
