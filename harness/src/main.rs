//! rainverif: drives the real raindb (built with --cfg raindb_verif) and records ndjson traces
//! for validation against the TLA+ specifications in /verif/spec.

mod common;
mod corrupt;
mod crash;
mod fault;
mod filterfmt;
mod iterfmt;
mod hist;
mod lockfmt;
mod logfmt;
mod sched;
mod simfs;
mod tablefmt;
mod trace;
mod universe;

use rand::rngs::StdRng;
use rand::{Rng, SeedableRng};
use serde_json::json;
use std::collections::HashMap;
use std::path::PathBuf;
use std::sync::Arc;
use std::time::Duration;

use common::*;
use trace::TraceSink;
use universe::Universe;

pub fn arg_of<T: std::str::FromStr>(m: &HashMap<String, String>, k: &str, d: T) -> T {
    m.get(k).and_then(|v| v.parse().ok()).unwrap_or(d)
}

fn parse_args() -> (String, HashMap<String, String>) {
    let mut args = std::env::args().skip(1);
    let cmd = args.next().unwrap_or_else(|| "help".into());
    let mut m = HashMap::new();
    let rest: Vec<String> = args.collect();
    let mut i = 0;
    while i < rest.len() {
        let a = &rest[i];
        if let Some(k) = a.strip_prefix("--") {
            if i + 1 < rest.len() && !rest[i + 1].starts_with("--") {
                m.insert(k.to_string(), rest[i + 1].clone());
                i += 2;
            } else {
                m.insert(k.to_string(), "true".into());
                i += 1;
            }
        } else {
            i += 1;
        }
    }
    (cmd, m)
}

fn arg<T: std::str::FromStr>(m: &HashMap<String, String>, k: &str, d: T) -> T {
    m.get(k).and_then(|v| v.parse().ok()).unwrap_or(d)
}

fn hist_cfg_for(seed: u64, m: &HashMap<String, String>) -> hist::HistCfg {
    let mut rng = StdRng::seed_from_u64(seed.wrapping_mul(0x2545F4914F6CDD1D) ^ 77);
    let profile = match m.get("profile").map(|s| s.as_str()) {
        Some(p) => p.to_string(),
        None => match rng.gen_range(0..10) {
            0..=5 => "mixed".to_string(),
            6..=7 => "hot".to_string(),
            _ => "fill".to_string(),
        },
    };
    let small = rng.gen_bool(0.8);
    let opts = if small {
        hist::small_opts(&mut rng)
    } else {
        hist::random_opts(&mut rng)
    };
    let mut opts = opts;
    if let Some(mt) = m.get("memtable").and_then(|v| v.parse().ok()) {
        opts.memtable = mt;
    }
    if let Some(b) = m.get("block").and_then(|v| v.parse().ok()) {
        opts.block = b;
    }
    if let Some(f) = m.get("file").and_then(|v| v.parse().ok()) {
        opts.file = f;
    }
    let mut cfg = hist::HistCfg {
        seed,
        nkeys: arg(m, "nkeys", rng.gen_range(3..=12)),
        nops: arg(m, "nops", 60),
        opts,
        profile,
        adversarial_keys: rng.gen_bool(0.7),
        big_values: rng.gen_bool(0.3),
        max_snaps: arg(m, "max-snaps", 3),
        max_iters: arg(m, "max-iters", 2),
        bias_snap: m.contains_key("snap-bias"),
        bias_compact: m.contains_key("compact-bias"),
        bias_reopen: m.contains_key("reopen-bias"),
        bias_seek: m.contains_key("seek-bias"),
        descriptors: m.contains_key("descriptors"),
        walks: m.contains_key("walks"),
        early_reopen: m.contains_key("early-reopen"),
        giant_values: m.contains_key("giant-values"),
        jitter: arg(m, "jitter", 0),
        jitter_point: m.get("jitter-point").cloned().unwrap_or_default(),
        jitter_us: arg(m, "jitter-us", 0),
        cache_cap: arg(m, "cache-cap", 0),
    };
    if cfg.profile == "trivial" {
        // (the prologue wants a memtable that does not rotate by itself and at least 4 keys)
        cfg.nkeys = cfg.nkeys.max(6);
        cfg.opts.memtable = cfg.opts.memtable.max(2500);
    }
    if m.contains_key("giant-keys") {
        // (the giant universe has at most six keys)
        cfg.nkeys = cfg.nkeys.min(6);
    }
    if cfg.profile == "straddle" {
        // (the prologue builds its layout with exactly these sizes)
        cfg.nkeys = cfg.nkeys.max(11);
        cfg.opts.memtable = 100_000;
        cfg.opts.block = 256;
        cfg.opts.file = 1024;
        cfg.max_snaps = cfg.max_snaps.max(2);
    }
    if m.contains_key("small-caches") {
        // (drawn last: the other settings of a seed stay what they are without the flag)
        cfg.cache_cap = *[2usize, 2, 3, 4, 8].get(rng.gen_range(0..5)).unwrap();
    }
    cfg
}

fn cmd_hist(m: &HashMap<String, String>) -> i32 {
    let out = PathBuf::from(m.get("out").cloned().unwrap_or_else(|| "out/hist".into()));
    std::fs::create_dir_all(&out).unwrap();
    let seed0: u64 = arg(m, "seed", 1);
    let runs: u64 = arg(m, "runs", 10);
    let per_file: u64 = arg(m, "per-file", 5);
    let deadline = Duration::from_secs(arg(m, "deadline", 180));
    let replay_file = m.get("replay").cloned();

    let results: Arc<parking_lot::Mutex<Vec<serde_json::Value>>> =
        Arc::new(parking_lot::Mutex::new(vec![]));
    let mut chunk = 0u64;
    let mut run_no = 0u64;
    let mut seeds: Vec<u64> = (seed0..seed0 + runs).collect();
    // --replay <file>: one recorded / generated history; --replay-list <file>: one per line
    let mut fixed_list: Vec<hist::Replay> = vec![];
    if let Some(p) = replay_file {
        fixed_list.push(
            serde_json::from_str(&std::fs::read_to_string(&p).expect("replay file")).unwrap(),
        );
    }
    if let Some(p) = m.get("replay-list") {
        for line in std::fs::read_to_string(p).expect("replay list").lines() {
            if !line.trim().is_empty() {
                fixed_list.push(serde_json::from_str(line).expect("replay line"));
            }
        }
    }
    if !fixed_list.is_empty() {
        seeds = fixed_list.iter().map(|r| r.cfg.seed).collect();
    }
    let mut idx = 0;
    while idx < seeds.len() {
        // one sink per output file
        let mut sink: Option<Arc<TraceSink>> = None;
        let path = out.join(format!("trace_{:04}.ndjson", chunk));
        let mut in_file = 0;
        let mut all_lines = vec![];
        while idx < seeds.len() && in_file < per_file {
            let seed = seeds[idx];
            let fixed: Option<&hist::Replay> = fixed_list.get(idx);
            idx += 1;
            in_file += 1;
            run_no += 1;
            let cfg = match fixed {
                Some(r) => r.cfg.clone(),
                None => hist_cfg_for(seed, m),
            };
            let u = Arc::new(match fixed {
                Some(r) => Universe::from_keys(r.keys.clone()),
                None => {
                    let mut rng = StdRng::seed_from_u64(seed ^ 0xabcdef);
                    if m.contains_key("giant-keys") {
                        Universe::giant(cfg.nkeys.min(6))
                    } else if cfg.adversarial_keys {
                        Universe::random(&mut rng, cfg.nkeys)
                    } else {
                        Universe::plain(cfg.nkeys)
                    }
                }
            });
            let s = TraceSink::new(Arc::clone(&u));
            sink = Some(Arc::clone(&s));
            // watchdog: on hang, dump what we have and exit(3)
            let s2 = Arc::clone(&s);
            let out2 = out.clone();
            let results2 = Arc::clone(&results);
            let path2 = path.clone();
            let prior = all_lines.clone();
            let cfg2 = cfg.clone();
            let wd = Watchdog::start(
                deadline,
                Box::new(move |what| {
                    s2.emit_json("Hang", json!({"what": what}));
                    let mut lines = prior.clone();
                    lines.extend(s2.snapshot());
                    lines.push(json!({"e": "End", "i": 0, "t": "main"}));
                    let _ = trace::write_ndjson(&path2, &lines);
                    let rp = hist::current_replay();
                    let rpath = out2.join(format!("replay_{}.json", cfg2.seed));
                    if let Some(rp) = rp {
                        let _ = std::fs::write(&rpath, serde_json::to_string(&rp).unwrap());
                    }
                    let mut res = results2.lock().clone();
                    res.push(json!({
                        "seed": cfg2.seed, "status": "hang", "detail": what,
                        "trace": path2.to_string_lossy(), "replay": rpath.to_string_lossy(),
                        "panics": peek_panics(),
                    }));
                    let _ = std::fs::write(
                        out2.join("results.json"),
                        serde_json::to_string_pretty(&json!({"runs": res, "aborted": true}))
                            .unwrap(),
                    );
                    std::process::exit(3);
                }),
            );
            let outcome = hist::run_hist(&cfg, fixed, &s, &u, &wd, run_no);
            wd.stop();
            let rpath = out.join(format!("replay_{}.json", cfg.seed));
            std::fs::write(&rpath, serde_json::to_string(&outcome.replay).unwrap()).unwrap();
            let mut r = serde_json::to_value(&outcome.result).unwrap();
            r["trace"] = json!(path.to_string_lossy());
            r["replay"] = json!(rpath.to_string_lossy());
            r["cfg"] = serde_json::to_value(&cfg).unwrap();
            results.lock().push(r);
            all_lines.extend(s.take());
        }
        let _ = sink;
        all_lines.push(json!({"e": "End", "i": 0, "t": "main"}));
        trace::write_ndjson(&path, &all_lines).unwrap();
        chunk += 1;
    }
    let res = results.lock().clone();
    std::fs::write(
        out.join("results.json"),
        serde_json::to_string_pretty(&json!({"runs": res, "aborted": false})).unwrap(),
    )
    .unwrap();
    0
}

fn cmd_crash(m: &HashMap<String, String>) -> i32 {
    let out = PathBuf::from(m.get("out").cloned().unwrap_or_else(|| "out/crash".into()));
    std::fs::create_dir_all(&out).unwrap();
    let seed0: u64 = arg(m, "seed", 1);
    let runs: u64 = arg(m, "runs", 2);
    let ccfg = crash::CrashCfg {
        torn: m.contains_key("torn"),
        every: arg(m, "every", 1),
        both_reuse: m.contains_key("both-reuse"),
        gen2_every: arg(m, "gen2-every", 0),
        threads: arg(m, "threads", 2),
    };
    let mut results = vec![];
    for (idx, seed) in (seed0..seed0 + runs).enumerate() {
        let mut cfg = hist_cfg_for(seed, m);
        // crash workloads: writes, flushes, compactions, reopens; no long-lived read views
        cfg.max_snaps = 0;
        cfg.max_iters = 0;
        cfg.nops = arg(m, "nops", 40);
        if m.contains_key("large") {
            cfg.big_values = true;
        }
        let mut rng = StdRng::seed_from_u64(seed ^ 0xabcdef);
        let u = Arc::new(if m.contains_key("giant-keys") {
            cfg.nkeys = cfg.nkeys.min(6);
            Universe::giant(cfg.nkeys)
        } else if cfg.adversarial_keys {
            Universe::random(&mut rng, cfg.nkeys)
        } else {
            Universe::plain(cfg.nkeys)
        });
        let wd = Watchdog::start(
            Duration::from_secs(arg(m, "deadline", 120)),
            Box::new(move |what| {
                eprintln!("hang in main crash workload: {}", what);
                std::process::exit(4);
            }),
        );
        let (mut lines, outcome, stats) = crash::run_crash(&cfg, &ccfg, &u, &wd, idx as u64 + 1);
        wd.stop();
        lines.push(json!({"e": "End", "i": 0, "t": "main"}));
        let path = out.join(format!("trace_{:04}.ndjson", idx));
        trace::write_ndjson(&path, &lines).unwrap();
        let rpath = out.join(format!("replay_{}.json", cfg.seed));
        let mut rp = serde_json::to_value(&outcome.replay).unwrap();
        rp["driver"] = json!("crash");
        std::fs::write(&rpath, serde_json::to_string(&rp).unwrap()).unwrap();
        let mut r = serde_json::to_value(&outcome.result).unwrap();
        r["trace"] = json!(path.to_string_lossy());
        r["replay"] = json!(rpath.to_string_lossy());
        r["cfg"] = serde_json::to_value(&cfg).unwrap();
        r["crash"] = stats;
        results.push(r);
    }
    std::fs::write(
        out.join("results.json"),
        serde_json::to_string_pretty(&json!({"runs": results, "aborted": false})).unwrap(),
    )
    .unwrap();
    0
}

fn cmd_corrupt(m: &HashMap<String, String>) -> i32 {
    let out = PathBuf::from(m.get("out").cloned().unwrap_or_else(|| "out/corrupt".into()));
    std::fs::create_dir_all(&out).unwrap();
    let seed0: u64 = arg(m, "seed", 1);
    let runs: u64 = arg(m, "runs", 1);
    let mut results = vec![];
    for (idx, seed) in (seed0..seed0 + runs).enumerate() {
        let mut cfg = hist_cfg_for(seed, m);
        cfg.max_snaps = 0;
        cfg.max_iters = 0;
        cfg.nops = arg(m, "nops", 25);
        cfg.nkeys = cfg.nkeys.min(6);
        cfg.big_values = false;
        let mut rng = StdRng::seed_from_u64(seed ^ 0xabcdef);
        let u = Arc::new(if cfg.adversarial_keys {
            Universe::random(&mut rng, cfg.nkeys)
        } else {
            Universe::plain(cfg.nkeys)
        });
        let wd = Watchdog::start(
            Duration::from_secs(arg(m, "deadline", 120)),
            Box::new(move |what| {
                eprintln!("hang in main corrupt workload: {}", what);
                std::process::exit(4);
            }),
        );
        let (mut lines, outcome, stats) = corrupt::run_corrupt(
            &cfg,
            &u,
            &wd,
            idx as u64 + 1,
            arg(m, "max-probes", 3000),
            arg(m, "threads", 2),
        );
        wd.stop();
        lines.push(json!({"e": "End", "i": 0, "t": "main"}));
        let path = out.join(format!("trace_{:04}.ndjson", idx));
        trace::write_ndjson(&path, &lines).unwrap();
        let rpath = out.join(format!("replay_{}.json", cfg.seed));
        let mut rp = serde_json::to_value(&outcome.replay).unwrap();
        rp["driver"] = json!("corrupt");
        std::fs::write(&rpath, serde_json::to_string(&rp).unwrap()).unwrap();
        let mut r = serde_json::to_value(&outcome.result).unwrap();
        r["trace"] = json!(path.to_string_lossy());
        r["replay"] = json!(rpath.to_string_lossy());
        r["cfg"] = serde_json::to_value(&cfg).unwrap();
        r["corrupt"] = stats;
        results.push(r);
    }
    std::fs::write(
        out.join("results.json"),
        serde_json::to_string_pretty(&json!({"runs": results, "aborted": false})).unwrap(),
    )
    .unwrap();
    0
}

fn cmd_fault(m: &HashMap<String, String>) -> i32 {
    let out = PathBuf::from(m.get("out").cloned().unwrap_or_else(|| "out/fault".into()));
    std::fs::create_dir_all(&out).unwrap();
    let seed0: u64 = arg(m, "seed", 1);
    let runs: u64 = arg(m, "runs", 1);
    let nops: usize = arg(m, "nops", 25);
    let max_pos: u64 = arg(m, "positions", 100);
    let large = m.contains_key("large");
    let reopen_heavy = m.contains_key("reopen-heavy");
    let read_faults = m.contains_key("read-faults");
    fault::READ_FAULTS.store(read_faults, std::sync::atomic::Ordering::Relaxed);
    // block cache / table cache of two entries: compaction inputs and read paths have to OPEN
    // their tables (open-for-read and size calls become fault positions of compactions)
    let small_caches = m.contains_key("small-caches");
    common::set_cache_cap(if small_caches { 2 } else { 0 });
    let only: Option<(u64, bool)> = m
        .get("idx")
        .and_then(|i| i.parse().ok())
        .map(|i| (i, m.contains_key("sticky")));
    // shared with the watchdog: on a hang it dumps what there is (the trace of the running
    // execution with a Hang event, the results so far) and ends the process
    let results: Arc<parking_lot::Mutex<Vec<serde_json::Value>>> = Arc::new(parking_lot::Mutex::new(vec![]));
    let shared_lines: Arc<parking_lot::Mutex<Vec<serde_json::Value>>> =
        Arc::new(parking_lot::Mutex::new(vec![]));
    let chunk_no = Arc::new(std::sync::atomic::AtomicU64::new(0));
    let mut chunk = 0;
    let mut run_no = 0u64;
    for seed in seed0..seed0 + runs {
        let plan = fault::make_plan(seed, nops, large, reopen_heavy);
        let hang_info = Arc::new(parking_lot::Mutex::new(String::new()));
        let hi2 = Arc::clone(&hang_info);
        let out2 = out.clone();
        let (res2, lines2, chunk2) = (
            Arc::clone(&results),
            Arc::clone(&shared_lines),
            Arc::clone(&chunk_no),
        );
        let (nops2, large2, rh2, rf2) = (nops, large, reopen_heavy, read_faults);
        let wd = Watchdog::start(
            Duration::from_secs(arg(m, "deadline", 180)),
            Box::new(move |what| {
                let info = hi2.lock().clone();
                let _ = std::fs::write(
                    out2.join("hang.json"),
                    serde_json::to_string(&json!({"what": what, "run": info})).unwrap(),
                );
                // the running execution: everything logged so far + a Hang event
                let mut lines = lines2.lock().clone();
                if let Some(sink) = fault::current_sink() {
                    sink.emit_json("Hang", json!({"what": what}));
                    lines.extend(sink.snapshot());
                }
                lines.push(json!({"e": "End", "i": 0, "t": "main"}));
                let c = chunk2.load(std::sync::atomic::Ordering::SeqCst);
                let tpath = out2.join(format!("trace_{:04}.ndjson", c));
                let _ = trace::write_ndjson(&tpath, &lines);
                let parts: Vec<&str> = info.split_whitespace().collect();
                let (seed, idx, sticky) = (
                    parts.get(1).and_then(|x| x.parse::<u64>().ok()).unwrap_or(0),
                    parts.get(3).and_then(|x| x.parse::<u64>().ok()).unwrap_or(0),
                    parts.get(5).map(|x| *x == "true").unwrap_or(false),
                );
                let rpath = out2.join(format!("replay_{}_{}_{}.json", seed, idx, sticky));
                let _ = std::fs::write(
                    &rpath,
                    serde_json::to_string(&json!({"driver": "fault", "seed": seed, "nops": nops2,
                        "large": large2, "reopen_heavy": rh2, "read_faults": rf2, "small_caches": small_caches, "idx": idx,
                        "sticky": sticky}))
                    .unwrap(),
                );
                let mut res = res2.lock().clone();
                res.push(json!({"seed": 0, "wseed": seed, "idx": idx, "sticky": sticky,
                    "status": "hang", "fired": 1, "events": lines.len(),
                    "trace": tpath.to_string_lossy(), "replay": rpath.to_string_lossy(),
                    "nops": nops2, "large": large2, "reopen_heavy": rh2, "read_faults": rf2, "small_caches": small_caches,
                    "panics": Vec::<String>::new()}));
                let _ = std::fs::write(
                    out2.join("results.json"),
                    serde_json::to_string_pretty(&json!({"runs": res, "aborted": true})).unwrap(),
                );
                std::process::exit(3);
            }),
        );
        // reference run: how many faultable calls are there, and of which class
        let reference = fault::run_fault(&plan, None, &wd, 0, true);
        let n = reference.total_ops;
        let mut positions: Vec<u64> = vec![];
        if let Some((i, _)) = only {
            positions.push(i);
        } else if n <= max_pos {
            positions = (0..n).collect();
        } else {
            let step = n as f64 / max_pos as f64;
            let mut x = 0.0;
            while (x as u64) < n {
                positions.push(x as u64);
                x += step;
            }
            // stratified: the first, the last and one occurrence in between of every
            // (call class, file kind) pair - e.g. the size query on a write-ahead log happens only
            // when a log is reopened for appending and would hardly ever be hit by even spacing
            let mut by_class: std::collections::BTreeMap<String, Vec<u64>> = Default::default();
            for (i, c) in &reference.classes {
                by_class.entry(c.clone()).or_default().push(*i);
            }
            for (_, occ) in by_class {
                positions.push(occ[0]);
                positions.push(occ[occ.len() - 1]);
                positions.push(occ[(occ.len() * 5 / 8).min(occ.len() - 1)]);
            }
            // ... and for every table file one of the writes of its FINAL part (what
            // TableBuilder::finalize writes after the last data block), a different one per file;
            // all of them for the last two files (usually compaction outputs)
            let nt = reference.table_tails.len();
            for (ti, tail) in reference.table_tails.iter().enumerate() {
                if tail.is_empty() {
                    continue;
                }
                if ti + 2 >= nt {
                    positions.extend(tail.iter().cloned());
                } else {
                    positions.push(tail[ti % tail.len()]);
                }
            }
            positions.sort_unstable();
            positions.dedup();
        }
        let mut lines: Vec<serde_json::Value> = vec![];
        let mut in_chunk = 0;
        let modes: Vec<bool> = match only {
            Some((_, s)) => vec![s],
            None => vec![false, true],
        };
        for &idx in &positions {
            for &sticky in &modes {
                run_no += 1;
                *hang_info.lock() = format!("seed {} idx {} sticky {}", seed, idx, sticky);
                let o = fault::run_fault(&plan, Some((idx, sticky)), &wd, run_no, false);
                let rpath = out.join(format!("replay_{}_{}_{}.json", seed, idx, sticky));
                if o.status != "ok" || only.is_some() {
                    std::fs::write(
                        &rpath,
                        serde_json::to_string(&json!({"driver": "fault", "seed": seed, "nops": nops,
                            "large": large, "reopen_heavy": reopen_heavy, "read_faults": read_faults, "small_caches": small_caches, "idx": idx, "sticky": sticky}))
                        .unwrap(),
                    )
                    .unwrap();
                }
                results.lock().push(json!({"seed": run_no, "wseed": seed, "idx": idx, "sticky": sticky,
                    "status": o.status, "fired": o.fired, "events": o.lines.len(),
                    "trace": out.join(format!("trace_{:04}.ndjson", chunk)).to_string_lossy(),
                    "replay": rpath.to_string_lossy(), "nops": nops, "large": large, "reopen_heavy": reopen_heavy, "read_faults": read_faults, "small_caches": small_caches,
                    "panics": Vec::<String>::new()}));
                lines.extend(o.lines);
                *shared_lines.lock() = lines.clone();
                in_chunk += 1;
                if in_chunk >= 25 {
                    lines.push(json!({"e": "End", "i": 0, "t": "main"}));
                    trace::write_ndjson(&out.join(format!("trace_{:04}.ndjson", chunk)), &lines)
                        .unwrap();
                    lines.clear();
                    shared_lines.lock().clear();
                    in_chunk = 0;
                    chunk += 1;
                    chunk_no.store(chunk as u64, std::sync::atomic::Ordering::SeqCst);
                }
            }
        }
        if in_chunk > 0 {
            lines.push(json!({"e": "End", "i": 0, "t": "main"}));
            trace::write_ndjson(&out.join(format!("trace_{:04}.ndjson", chunk)), &lines).unwrap();
            chunk += 1;
            chunk_no.store(chunk as u64, std::sync::atomic::Ordering::SeqCst);
            shared_lines.lock().clear();
        }
        wd.stop();
        results.lock().push(json!({"seed": 0, "wseed": seed, "status": "reference", "total_ops": n,
                            "classes": reference.classes.iter().map(|c| c.1.clone()).collect::<std::collections::BTreeSet<_>>()}));
    }
    std::fs::write(
        out.join("results.json"),
        serde_json::to_string_pretty(&json!({"runs": results.lock().clone(), "aborted": false})).unwrap(),
    )
    .unwrap();
    0
}

fn main() {
    install_panic_hook();
    let (cmd, m) = parse_args();
    if m.contains_key("loud") {
        set_quiet_panics(false);
    }
    let code = match cmd.as_str() {
        "hist" => cmd_hist(&m),
        "crash" => cmd_crash(&m),
        "fault" => cmd_fault(&m),
        "corrupt" => cmd_corrupt(&m),
        "sched" => sched::cmd(&m),
        "live" => sched::cmd_live(&m),
        "logfmt" => logfmt::cmd(&m),
        "lockfmt" => lockfmt::cmd(&m),
        "tablefmt" => tablefmt::cmd(&m),
        "filterfmt" => filterfmt::cmd(&m),
        "iterfmt" => iterfmt::cmd(&m),
        _ => {
            eprintln!("usage: rainverif <hist> [--seed N --runs N --out DIR ...]");
            2
        }
    };
    std::process::exit(code);
}
