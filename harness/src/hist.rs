//! `hist` driver: single-client histories over put/delete/batch/get/scan/snapshot/iterator/
//! compact_range/flush/reopen on SimFs with tiny sizes; every step is followed by a full
//! observation of the visible state at the latest sequence, at every live snapshot and through
//! every live iterator.

use rand::rngs::StdRng;
use rand::{Rng, SeedableRng};
use raindb::{Batch, RainDBError, RainDbIterator, ReadOptions, Snapshot, WriteOptions, DB};
use serde::{Deserialize, Serialize};
use serde_json::{json, Value};
use std::sync::Arc;
use std::time::Duration;

use crate::common::*;
use crate::simfs::SimFs;
use crate::trace::TraceSink;
use crate::universe::{SizeClass, Universe, TINY_BASE};

pub const ROOT: &str = "/simdb";

#[derive(Clone, Debug, Serialize, Deserialize)]
pub struct ValSpec {
    pub vid: i64,
    pub len: usize,
    pub comp: bool,
}

impl ValSpec {
    pub fn bytes(&self) -> Vec<u8> {
        if self.vid >= TINY_BASE && self.vid < TINY_BASE + 100 {
            Universe::tiny_value((self.vid - TINY_BASE) as usize)
        } else {
            Universe::make_value(self.vid, self.len, self.comp)
        }
    }
}

#[derive(Clone, Debug, Serialize, Deserialize)]
pub enum Op {
    Put { k: i64, v: ValSpec },
    Del { k: i64 },
    Batch { ops: Vec<(i64, Option<ValSpec>)> },
    Snap,
    Release { idx: usize },
    IterNew { snap: Option<usize> },
    IterDrop { idx: usize },
    IterWalk { idx: usize, moves: Vec<(u8, i64)> },
    Compact { lo: Option<i64>, hi: Option<i64> },
    Flush,
    Reopen { opts: OptSet },
    Quiesce,
    ReadMiss { n: usize },
    Descr,
    /// n gets of one key
    ReadKey { k: i64, n: usize },
}

#[derive(Clone, Debug, Serialize, Deserialize)]
pub struct HistCfg {
    pub seed: u64,
    pub nkeys: usize,
    pub nops: usize,
    pub opts: OptSet,
    /// "mixed" | "hot" | "fill"
    pub profile: String,
    pub adversarial_keys: bool,
    pub big_values: bool,
    pub max_snaps: usize,
    pub max_iters: usize,
    #[serde(default)]
    pub bias_snap: bool,
    #[serde(default)]
    pub bias_compact: bool,
    #[serde(default)]
    pub bias_reopen: bool,
    /// more bursts of repeated reads (seek-triggered compactions)
    #[serde(default)]
    pub bias_seek: bool,
    #[serde(default)]
    pub descriptors: bool,
    #[serde(default)]
    pub walks: bool,
    /// force a reopen after the first few writes (before any flush), and another one a few
    /// operations later: recovery of a database whose first WAL was never recorded
    #[serde(default)]
    pub early_reopen: bool,
    /// per-mille probability that a thread of raindb sleeps for a random 0..600 microseconds at
    /// a point where it does not hold the database mutex (widens race windows; a legal schedule)
    /// now and then a value of 2.2 .. 3.2 MiB (above twice the iterator's read-sampling period)
    #[serde(default)]
    pub giant_values: bool,
    #[serde(default)]
    pub jitter: u64,
    /// restrict the jitter to one hook point ("" = all) and its maximal sleep in microseconds
    /// (0 = 600)
    #[serde(default)]
    pub jitter_point: String,
    #[serde(default)]
    pub jitter_us: u64,
    /// capacity in entries of the block cache and of the table cache (0 = raindb's defaults,
    /// which never evict in runs of this size): with 2..8 entries tables are evicted and reopened
    /// and blocks evicted and re-read all the time (RainCache's EvictTable / EvictBlock)
    #[serde(default)]
    pub cache_cap: usize,
}

#[derive(Clone, Debug, Serialize, Deserialize)]
pub struct Replay {
    pub driver: String,
    pub cfg: HistCfg,
    pub keys: Vec<Vec<u8>>,
    pub ops: Vec<Op>,
}

#[derive(Clone, Debug, Serialize)]
pub struct RunResult {
    pub seed: u64,
    pub status: String, // ok | hang | openfail
    pub detail: String,
    pub events: usize,
    pub ops: usize,
    pub panics: Vec<PanicRecord>,
    pub max_level: usize,
    pub max_files: usize,
    pub reopens: usize,
    pub compactions: usize,
}

type DbIter = Box<dyn RainDbIterator<Key = Vec<u8>, Error = RainDBError>>;

pub struct Session {
    pub opens: Vec<(usize, OptSet)>,
    pub fs: SimFs,
    pub sink: Arc<TraceSink>,
    pub u: Arc<Universe>,
    pub db: Option<DB>,
    pub snaps: Vec<Snapshot>,
    pub iters: Vec<DbIter>,
    pub opts: OptSet,
    pub wd: Arc<Watchdog>,
    pub scan_limit: usize,
    /// when set, every observation also walks a fresh iterator randomly (C04)
    pub walk_rng: Option<StdRng>,
    /// reopen with the option matrix: every other reopen of an existing database asks for
    /// `create_if_missing = false` (must succeed), every third one is preceded by an attempt with
    /// `error_if_exists = true` (refused by a correct raindb; whatever it does, the database must
    /// be what it was)
    pub open_matrix: bool,
    pub opened_ok: usize,
}

pub fn random_opts(rng: &mut StdRng) -> OptSet {
    let memtable = *[300usize, 600, 1000, 2500, 8000, 60_000, 4 << 20]
        .get(rng.gen_range(0..7))
        .unwrap();
    let file = *[400u64, 900, 2000, 6000, 40_000, 2 << 20]
        .get(rng.gen_range(0..6))
        .unwrap();
    let block = *[16usize, 64, 200, 1024, 4096, 65536]
        .get(rng.gen_range(0..6))
        .unwrap();
    OptSet {
        memtable,
        file,
        block,
        reuse: rng.gen_bool(0.5),
    }
}

pub fn small_opts(rng: &mut StdRng) -> OptSet {
    OptSet {
        memtable: *[300usize, 500, 800, 1200].get(rng.gen_range(0..4)).unwrap(),
        file: *[300u64, 600, 1000, 2000].get(rng.gen_range(0..4)).unwrap(),
        block: *[16usize, 64, 256, 4096].get(rng.gen_range(0..4)).unwrap(),
        reuse: rng.gen_bool(0.5),
    }
}

impl Session {
    pub fn emit(&self, name: &str, v: Value) -> u64 {
        self.sink.emit_json(name, v)
    }

    pub fn open(&mut self, opts: &OptSet) -> Result<(), String> {
        self.opts = opts.clone();
        self.opens.push((self.fs.journal_len(), opts.clone()));
        let nth = self.opens.len();
        if self.open_matrix && self.opened_ok > 0 && nth % 3 == 2 {
            // an open that must be refused (the database exists); if it is not refused it is an
            // ordinary open followed by a close
            self.emit("Open", json!({"opts": opts.json(), "probe": "error_if_exists"}));
            let mut o = opts.to_options(ROOT, &self.fs);
            o.error_if_exists = true;
            let r = self.wd.call("open", || {
                std::panic::catch_unwind(std::panic::AssertUnwindSafe(|| DB::open(o)))
            });
            match r {
                Ok(Ok(db)) => {
                    self.emit("OpenRet", json!({"ok": true}));
                    self.db = Some(db);
                    self.close();
                }
                Ok(Err(e)) => {
                    self.emit("OpenRefused", json!({"err": e.to_string()}));
                }
                Err(_) => {
                    self.emit("OpenRet", json!({"ok": false, "err": "panic"}));
                }
            }
        }
        self.emit("Open", json!({"opts": opts.json()}));
        let mut o = opts.to_options(ROOT, &self.fs);
        if self.open_matrix && self.opened_ok > 0 && nth % 2 == 1 {
            o.create_if_missing = false;
        }
        let r = self.wd.call("open", || {
            std::panic::catch_unwind(std::panic::AssertUnwindSafe(|| DB::open(o)))
        });
        match r {
            Ok(Ok(db)) => {
                self.db = Some(db);
                self.opened_ok += 1;
                self.emit("OpenRet", json!({"ok": true}));
                Ok(())
            }
            Ok(Err(e)) => {
                self.emit("OpenRet", json!({"ok": false, "err": e.to_string()}));
                Err(e.to_string())
            }
            Err(_) => {
                self.emit("OpenRet", json!({"ok": false, "err": "panic"}));
                Err("panic in open".into())
            }
        }
    }

    pub fn close(&mut self) {
        // API contract: iterators and snapshots are released before the database is closed
        let n = self.iters.len();
        for _ in 0..n {
            let it = self.iters.pop();
            self.wd.call("iter drop", || drop(it));
        }
        if let Some(db) = self.db.as_ref() {
            for s in self.snaps.drain(..) {
                db.release_snapshot(s);
            }
        }
        self.snaps.clear();
        if let Some(db) = self.db.take() {
            self.emit("Close", json!({}));
            self.wd.call("close", || {
                let _ = std::panic::catch_unwind(std::panic::AssertUnwindSafe(|| drop(db)));
            });
            self.emit("CloseRet", json!({}));
        }
    }

    fn write(&self, kind: &str, ops: Vec<(i64, Option<ValSpec>)>) {
        let db = self.db.as_ref().unwrap();
        let jops: Vec<Value> = ops
            .iter()
            .map(|(k, v)| match v {
                Some(v) => json!([k, 1, v.vid]),
                None => json!([k, 0, 0]),
            })
            .collect();
        self.emit("Call", json!({"op": kind, "ops": jops}));
        let mut batch = Batch::new();
        for (k, v) in &ops {
            match v {
                Some(v) => {
                    batch.add_put(self.u.key(*k).clone(), v.bytes());
                }
                None => {
                    batch.add_delete(self.u.key(*k).clone());
                }
            }
        }
        let r = self.wd.call(kind, || {
            std::panic::catch_unwind(std::panic::AssertUnwindSafe(|| {
                if kind == "put" {
                    let (k, v) = &ops[0];
                    db.put(
                        WriteOptions::default(),
                        self.u.key(*k).clone(),
                        v.as_ref().unwrap().bytes(),
                    )
                } else if kind == "del" {
                    db.delete(WriteOptions::default(), self.u.key(ops[0].0).clone())
                } else {
                    db.apply(WriteOptions::default(), batch)
                }
            }))
        });
        match r {
            Ok(Ok(())) => self.emit("Ret", json!({"ok": true})),
            Ok(Err(e)) => self.emit("Ret", json!({"ok": false, "err": e.to_string()})),
            Err(_) => self.emit("Ret", json!({"ok": false, "err": "panic"})),
        };
    }

    /// Observe the full visible state at the latest sequence and at every live snapshot and
    /// through every live iterator.
    pub fn observe(&mut self) {
        self.observe_with(false)
    }

    pub fn observe_final(&mut self) {
        self.observe_with(true)
    }

    pub fn observe_with(&mut self, is_final: bool) {
        let db = self.db.as_ref().unwrap();
        let u = Arc::clone(&self.u);
        let limit = self.scan_limit;
        let mut views: Vec<Option<&Snapshot>> = vec![None];
        for s in &self.snaps {
            views.push(Some(s));
        }
        for (vi, view) in views.iter().enumerate() {
            let (gets, errs) = self.wd.call("get", || get_all(db, &u, *view));
            // scans at snapshots do not fill the block cache, scans at the latest state do
            let ro = ReadOptions {
                fill_cache: vi == 0,
                snapshot: view.cloned(),
            };
            let (fwd, bwd) = self.wd.call("scan", || match db.new_iterator(ro) {
                Ok(mut it) => {
                    let f = iter_forward(&mut it, &u, limit);
                    let b = iter_backward(&mut it, &u, limit);
                    (f, b)
                }
                Err(e) => (Err(e.to_string()), Err(e.to_string())),
            });
            let at: i64 = match view {
                Some(s) => s.verif_sequence_number() as i64,
                None => -1,
            };
            let _ = vi;
            if let Some(rng) = self.walk_rng.as_mut() {
                let n = rng.gen_range(8..40);
                let nk = u.n() as i64;
                let moves: Vec<(u8, i64)> = (0..n)
                    .map(|i| {
                        let m = if i == 0 {
                            rng.gen_range(0..3)
                        } else {
                            match rng.gen_range(0..12) {
                                0 => 0,
                                1 => 1,
                                2 | 3 => 2,
                                4..=7 => 3,
                                _ => 4,
                            }
                        };
                        (m as u8, rng.gen_range(1..=nk))
                    })
                    .collect();
                let ro = ReadOptions {
                    fill_cache: true,
                    snapshot: view.cloned(),
                };
                let mut steps = vec![];
                self.wd.call("freshwalk", || {
                    if let Ok(mut it) = db.new_iterator(ro) {
                        for (m, arg) in &moves {
                            let code = match m {
                                0 => it.seek_to_first().map(|_| ()),
                                1 => it.seek_to_last().map(|_| ()),
                                2 => it.seek(u.key(*arg)).map(|_| ()),
                                3 => {
                                    if it.is_valid() {
                                        it.next();
                                    }
                                    it.take_error().map_or(Ok(()), Err)
                                }
                                _ => {
                                    if it.is_valid() {
                                        it.prev();
                                    }
                                    it.take_error().map_or(Ok(()), Err)
                                }
                            };
                            let pos = if code.is_err() {
                                [-1, -1]
                            } else if it.is_valid() {
                                let (k, v) = it.current().unwrap();
                                [u.key_id(k), u.value_id(v)]
                            } else {
                                [0, 0]
                            };
                            steps.push(json!([m, arg, pos[0], pos[1]]));
                        }
                    }
                });
                self.sink
                    .emit_json("FreshWalk", json!({"at": at, "steps": steps}));
            }
            self.emit(
                "Obs",
                json!({
                    "at": at,
                    "gets": gets,
                    "fwd": scan_json(&fwd),
                    "bwd": scan_json(&bwd),
                    "fwdok": fwd.is_ok(),
                    "bwdok": bwd.is_ok(),
                    "final": is_final,
                    "errs": errs.len(),
                }),
            );
        }
        let wd = Arc::clone(&self.wd);
        let mut outs = vec![];
        for (i, it) in self.iters.iter_mut().enumerate() {
            let (f, b) = wd.call("iterscan", || {
                let f = iter_forward(&mut **it, &u, limit);
                let b = iter_backward(&mut **it, &u, limit);
                (f, b)
            });
            outs.push(json!({"idx": i, "fwd": scan_json(&f), "bwd": scan_json(&b),
                             "fwdok": f.is_ok(), "bwdok": b.is_ok()}));
        }
        for o in outs {
            self.emit("IterObs", o);
        }
    }

    pub fn quiesce(&mut self) -> bool {
        let db = self.db.as_ref().unwrap();
        let d = self
            .wd
            .call("quiesce", || wait_quiescent(db, Duration::from_secs(30)));
        match d {
            Some(d) => {
                let listing = self.fs.disk().listing();
                let mut v = dump_json(&d, &self.u, listing, ROOT);
                v["pins"] = json!(self.iters.len());
                v["nsnaps"] = json!(self.snaps.len());
                // the same layout as the PUBLIC descriptors report it (C10 is stated about them)
                match self.wd.call("get_descriptor", || crate::common::descriptor_view(db)) {
                    Ok((nfl, sst)) => {
                        v["nfl"] = json!(nfl);
                        v["sst"] = json!(sst);
                        v["descr"] = json!("ok");
                    }
                    Err(e) => {
                        v["nfl"] = json!([]);
                        v["sst"] = json!([]);
                        v["descr"] = json!(e);
                    }
                }
                self.emit("Dump", v);
                true
            }
            None => {
                self.emit("Hang", json!({"what": "quiesce"}));
                false
            }
        }
    }

    pub fn apply(&mut self, op: &Op) {
        match op {
            Op::Put { k, v } => self.write("put", vec![(*k, Some(v.clone()))]),
            Op::Del { k } => self.write("del", vec![(*k, None)]),
            Op::Batch { ops } => self.write("batch", ops.clone()),
            Op::Snap => {
                let db = self.db.as_ref().unwrap();
                let s = self.wd.call("snapshot", || db.get_snapshot());
                self.snaps.push(s);
            }
            Op::Release { idx } => {
                if *idx < self.snaps.len() {
                    let s = self.snaps.remove(*idx);
                    let db = self.db.as_ref().unwrap();
                    self.wd.call("release", || db.release_snapshot(s));
                }
            }
            Op::IterNew { snap } => {
                let db = self.db.as_ref().unwrap();
                let ro = ReadOptions {
                    fill_cache: self.iters.len() % 2 == 0,
                    snapshot: snap.and_then(|i| self.snaps.get(i).cloned()),
                };
                if let Ok(it) = self.wd.call("new_iterator", || db.new_iterator(ro)) {
                    self.iters.push(Box::new(it));
                    self.emit("IterKeep", json!({}));
                }
            }
            Op::IterDrop { idx } => {
                if *idx < self.iters.len() {
                    let it = self.iters.remove(*idx);
                    self.wd.call("iter drop", || drop(it));
                }
            }
            Op::IterWalk { idx, moves } => {
                if *idx < self.iters.len() {
                    let u = Arc::clone(&self.u);
                    let wd = Arc::clone(&self.wd);
                    let it = &mut self.iters[*idx];
                    let mut steps = vec![];
                    wd.call("iterwalk", || {
                        for (m, arg) in moves {
                            let code = match m {
                                0 => it.seek_to_first().map(|_| ()),
                                1 => it.seek_to_last().map(|_| ()),
                                2 => it.seek(u.key(*arg)).map(|_| ()),
                                3 => {
                                    if it.is_valid() {
                                        it.next();
                                    }
                                    it.take_error().map_or(Ok(()), Err)
                                }
                                _ => {
                                    if it.is_valid() {
                                        it.prev();
                                    }
                                    it.take_error().map_or(Ok(()), Err)
                                }
                            };
                            let pos = if code.is_err() {
                                [-1, -1]
                            } else if it.is_valid() {
                                let (k, v) = it.current().unwrap();
                                [u.key_id(k), u.value_id(v)]
                            } else {
                                [0, 0]
                            };
                            steps.push(json!([m, arg, pos[0], pos[1]]));
                        }
                    });
                    self.emit("IterWalk", json!({"idx": idx, "steps": steps}));
                }
            }
            Op::Compact { lo, hi } => {
                let db = self.db.as_ref().unwrap();
                self.emit("CompactCall", json!({"lo": lo, "hi": hi}));
                let lo_b = lo.map(|k| self.u.key(k).clone());
                let hi_b = hi.map(|k| self.u.key(k).clone());
                self.wd.call("compact_range", || {
                    let _ = std::panic::catch_unwind(std::panic::AssertUnwindSafe(|| {
                        db.compact_range(lo_b.as_deref()..hi_b.as_deref())
                    }));
                });
                self.emit("CompactRet", json!({}));
            }
            Op::Flush => {
                let db = self.db.as_ref().unwrap();
                self.emit("FlushCall", json!({}));
                let r = self.wd.call("flush", || db.verif_force_flush());
                self.emit("FlushRet", json!({"ok": r.is_ok()}));
            }
            Op::Reopen { opts } => {
                self.close();
                let _ = self.open(opts);
            }
            Op::Quiesce => {
                self.quiesce();
            }
            Op::Descr => {
                // every descriptor kind, including an invalid level
                let db = self.db.as_ref().unwrap();
                self.emit("DescrCall", json!({}));
                let mut ok = 0;
                self.wd.call("get_descriptor", || {
                    for level in 0..8 {
                        if db
                            .get_descriptor(raindb::db::DatabaseDescriptor::NumFilesAtLevel(level))
                            .is_ok()
                        {
                            ok += 1;
                        }
                    }
                    if db
                        .get_descriptor(raindb::db::DatabaseDescriptor::SSTables)
                        .is_ok()
                    {
                        ok += 1;
                    }
                    if db
                        .get_descriptor(raindb::db::DatabaseDescriptor::Stats)
                        .is_ok()
                    {
                        ok += 1;
                    }
                });
                self.emit("DescrRet", json!({"ok": ok}));
            }
            Op::ReadKey { k, n } => {
                let db = self.db.as_ref().unwrap();
                let u = Arc::clone(&self.u);
                self.wd.call("readmiss", || {
                    for _ in 0..*n {
                        let _ = get_id(db, &u, *k, None);
                    }
                });
            }
            Op::ReadMiss { n } => {
                // repeated reads (also of absent keys) provoke seek-triggered compactions
                let db = self.db.as_ref().unwrap();
                let u = Arc::clone(&self.u);
                self.wd.call("readmiss", || {
                    for i in 0..*n {
                        let k = (i % u.n()) as i64 + 1;
                        let _ = get_id(db, &u, k, None);
                    }
                });
                // ... aimed reads: one key inside the recorded range of ONE table file, often
                // enough to use up that file's seek allowance when it does not hold the key (or
                // holds an older version only): seek-triggered compaction of exactly that file -
                // a trivial move if nothing overlaps it one level down
                if let Some(d) = db.verif_try_state(Duration::from_secs(5)) {
                    let mut cands: Vec<(i64, i64)> = vec![];
                    for lvl in d.levels.iter().take(6) {
                        for f in lvl.iter() {
                            cands.push((u.key_id(&f.smallest.0), u.key_id(&f.largest.0)));
                        }
                    }
                    if !cands.is_empty() {
                        let (lo, hi) = cands[*n % cands.len()];
                        if lo >= 1 && hi >= lo {
                            let k = lo + ((*n / 7) as i64) % (hi - lo + 1);
                            self.wd.call("readmiss", || {
                                for _ in 0..130 {
                                    let _ = get_id(db, &u, k, None);
                                }
                            });
                        }
                    }
                }
                // ... and freshly positioned iterators charge the files they read from through
                // read sampling (every new iterator samples the first entries it parses): n
                // iterators positioned on ONE key (the key depends on n)
                let hot = u.key((*n % u.n()) as i64 + 1).clone();
                self.wd.call("scan", || {
                    for _ in 0..*n {
                        if let Ok(mut it) = db.new_iterator(ReadOptions {
                            fill_cache: true,
                            snapshot: None,
                        }) {
                            let _ = it.seek(&hot);
                            if it.is_valid() {
                                it.next();
                            }
                        }
                    }
                });
            }
        }
    }
}

struct GenState {
    /// profile "local": keys are drawn around a slowly moving cursor, so that memtables (and the
    /// level-0 files they become) cover narrow, staircase-like overlapping key ranges
    cursor: i64,
    dir: i64,
    next_vid: i64,
    nsnaps: usize,
    niters: usize,
    iter_snapless: usize,
    /// the previous operation wrote a giant value (it is still in the write-ahead log)
    just_giant: bool,
    /// batches generated so far (every 7th is empty, every 7th + 2 has one operation)
    nbatches: usize,
}

fn gen_value(rng: &mut StdRng, g: &mut GenState, cfg: &HistCfg, memtable: usize) -> ValSpec {
    if cfg.giant_values && rng.gen_bool(0.06) {
        let vid = g.next_vid;
        g.next_vid += 1;
        g.just_giant = true;
        return ValSpec {
            vid,
            len: rng.gen_range(2_300_000..3_300_000),
            comp: false,
        };
    }
    let class = Universe::pick_size(rng, memtable, cfg.big_values);
    match class {
        SizeClass::Tiny(i) => ValSpec {
            vid: TINY_BASE + i as i64,
            len: 0,
            comp: false,
        },
        c => {
            let (vid, bytes) = Universe::fresh_value(rng, &mut g.next_vid, c);
            ValSpec {
                vid,
                len: bytes.len(),
                comp: bytes[1] == 0x5A,
            }
        }
    }
}

/// Profile "trivial": every run starts with the recipe for an automatic TRIVIAL MOVE - keys
/// k2 < k4 flushed first (nothing overlaps: the table is pushed down to level 2), then k1 < k3
/// written and the database reopened without log reuse (recovery writes them as a level-0 table
/// over an empty level 1), then enough reads of k2 - which the level-0 table
/// spans but does not hold - to use up its seek allowance: the level-0 table is compacted alone
/// into the empty level 1, i.e. moved.  Then a reopen (the manifest has to replay the move),
/// another round one level further down, and the usual random operations.
const TRIVIAL_PROLOGUE: usize = 16;

/// Profile "straddle": every run starts with the recipe for a user key whose versions STRADDLE
/// two files of level 1 next to a file whose compaction is grown by the input expansion:
///   level 2:  P = [d .. h]            (first flush: nothing overlaps, pushed down)
///   level 1:  [h(big)]                (second flush: overlaps P)
///   level 0:  [c e(big) g k@old | snapshot | k@new z]   (third flush)
///   compact a..c : level 0 + level 1 merged into level 1 with 1 KiB files: the outputs roll over
///                  after g and between the two versions of k (the snapshot keeps the older one):
///                  F = [c..g]  G = [h..k@new]  G' = [k@old..z]
///   compact c..d : picks F; its parent P reaches h, so the expansion pulls G in; G' has to follow
///                  (boundary file) or k@new sinks below k@old.
/// Needs block 256, file 1024 and a memtable that never fills (forced by the caller).
const STRADDLE_PROLOGUE: usize = 15;

fn straddle_prologue(i: usize, g: &mut GenState, cfg: &HistCfg) -> Op {
    let n = cfg.nkeys as i64;
    // c d e g h k z spread over the universe (nkeys >= 11 is forced by the caller)
    let (c, d, e, gk, h, k, z) = (2, 3, 4, 6, 7, 9, n);
    let mut small = |g: &mut GenState| {
        g.next_vid += 1;
        ValSpec { vid: g.next_vid - 1, len: 12, comp: true }
    };
    let big = |g: &mut GenState| {
        g.next_vid += 1;
        ValSpec { vid: g.next_vid - 1, len: 1500, comp: false }
    };
    match i {
        0 => Op::Put { k: d, v: small(g) },
        1 => Op::Put { k: h, v: small(g) },
        2 => Op::Flush,
        3 => Op::Put { k: h, v: big(g) },
        4 => Op::Flush,
        5 => Op::Put { k: c, v: small(g) },
        6 => Op::Put { k: e, v: big(g) },
        7 => Op::Put { k: gk, v: small(g) },
        8 => Op::Put { k, v: small(g) },
        9 => {
            g.nsnaps += 1;
            Op::Snap
        }
        10 => Op::Put { k, v: small(g) },
        11 => Op::Put { k: z, v: small(g) },
        12 => Op::Flush,
        13 => Op::Compact { lo: Some(1), hi: Some(c) },
        _ => Op::Compact { lo: Some(c), hi: Some(d) },
    }
}

fn trivial_prologue(i: usize, rng: &mut StdRng, g: &mut GenState, cfg: &HistCfg, cur: &OptSet) -> Op {
    let n = cfg.nkeys as i64;
    // four keys spread over the universe (at least 4 keys: nkeys >= 4 is forced by the caller)
    let k1 = 1;
    let k2 = (n / 3).max(2);
    let k3 = (2 * n / 3).max(k2 + 1);
    let k4 = n.max(k3 + 1).min(n);
    let mut put = |k: i64, g: &mut GenState| {
        g.next_vid += 1;
        Op::Put {
            k,
            v: ValSpec {
                vid: g.next_vid - 1,
                len: 24,
                comp: true,
            },
        }
    };
    match i {
        0 => put(k2, g),
        1 => put(k4.max(k3), g),
        2 => Op::Flush,
        3 => Op::Quiesce,
        4 => put(k1, g),
        5 => put(k3, g),
        // (a memtable flushed by a running database is pushed down as far as nothing overlaps;
        // the table that RECOVERY writes from a log always goes to level 0)
        6 => {
            let mut o = cur.clone();
            o.reuse = false;
            Op::Reopen { opts: o }
        }
        7 => Op::Quiesce,
        8 => Op::ReadKey { k: k2, n: 130 },
        9 => Op::Quiesce,
        10 => {
            let mut o = cur.clone();
            o.reuse = rng.gen_bool(0.5);
            Op::Reopen { opts: o }
        }
        11 => Op::Quiesce,
        12 => Op::ReadKey { k: k2, n: 130 },
        13 => Op::Quiesce,
        14 => {
            let mut o = cur.clone();
            o.reuse = rng.gen_bool(0.5);
            Op::Reopen { opts: o }
        }
        _ => Op::Quiesce,
    }
}

fn gen_key(rng: &mut StdRng, g: &mut GenState, cfg: &HistCfg) -> i64 {
    let n = cfg.nkeys as i64;
    if cfg.profile == "local" && rng.gen_bool(0.9) {
        if g.cursor == 0 {
            // first use: start anywhere, drift up or down (a descending staircase leaves the
            // OLDER files at the higher keys)
            g.cursor = rng.gen_range(1..=n);
            g.dir = if rng.gen_bool(0.5) { 1 } else { -1 };
        }
        if rng.gen_bool(0.25) {
            g.cursor += g.dir;
            if g.cursor > n {
                g.cursor = 1;
            }
            if g.cursor < 1 {
                g.cursor = n;
            }
        }
        return (g.cursor + rng.gen_range(-1..=1)).clamp(1, n);
    }
    if cfg.profile == "hot" && rng.gen_bool(0.7) {
        rng.gen_range(1..=2.min(n))
    } else {
        rng.gen_range(1..=n)
    }
}

fn gen_op(rng: &mut StdRng, g: &mut GenState, cfg: &HistCfg, cur: &OptSet) -> Op {
    if g.just_giant {
        // every other giant value is followed at once by a close and reopen: the value has to
        // come back from the write-ahead log
        g.just_giant = false;
        if rng.gen_bool(0.5) {
            g.nsnaps = 0;
            g.niters = 0;
            let mut o = cur.clone();
            o.reuse = rng.gen_bool(0.5);
            return Op::Reopen { opts: o };
        }
    }
    let mut r = rng.gen_range(0..100);
    if cfg.bias_snap && rng.gen_bool(0.12) {
        r = rng.gen_range(66..83);
    }
    if cfg.bias_compact && rng.gen_bool(0.12) {
        r = rng.gen_range(83..91);
    }
    if cfg.bias_reopen && rng.gen_bool(0.08) {
        r = 92;
    }
    if cfg.bias_seek && rng.gen_bool(0.08) {
        r = 94;
    }
    if cfg.profile == "local" && rng.gen_bool(0.12) {
        r = 89;
    }
    let fill = cfg.profile == "fill";
    if r < 46 || (fill && r < 70) {
        Op::Put {
            k: gen_key(rng, g, cfg),
            v: gen_value(rng, g, cfg, cur.memtable),
        }
    } else if r < 58 {
        Op::Del {
            k: gen_key(rng, g, cfg),
        }
    } else if r < 66 {
        let n = rng.gen_range(2..=5);
        g.nbatches += 1;
        // an empty batch (consumes no sequence number) and a one-operation batch now and then
        let n = match g.nbatches % 7 {
            3 => 0,
            5 => 1,
            _ => n,
        };
        let ops = (0..n)
            .map(|_| {
                let k = gen_key(rng, g, cfg);
                if rng.gen_bool(0.75) {
                    (k, Some(gen_value(rng, g, cfg, cur.memtable)))
                } else {
                    (k, None)
                }
            })
            .collect();
        Op::Batch { ops }
    } else if r < 71 {
        if g.nsnaps < cfg.max_snaps {
            g.nsnaps += 1;
            Op::Snap
        } else {
            g.nsnaps -= 1;
            Op::Release {
                idx: rng.gen_range(0..=g.nsnaps),
            }
        }
    } else if r < 74 {
        if g.nsnaps > 0 {
            g.nsnaps -= 1;
            Op::Release {
                idx: rng.gen_range(0..=g.nsnaps),
            }
        } else {
            Op::Quiesce
        }
    } else if r < 78 {
        if g.niters < cfg.max_iters {
            g.niters += 1;
            // iterators on snapshots would dangle if the snapshot were released first; the
            // generator only creates snapshot-less long-lived iterators
            g.iter_snapless += 1;
            Op::IterNew { snap: None }
        } else {
            g.niters -= 1;
            Op::IterDrop {
                idx: rng.gen_range(0..=g.niters),
            }
        }
    } else if r < 80 {
        if g.niters > 0 {
            g.niters -= 1;
            Op::IterDrop {
                idx: rng.gen_range(0..=g.niters),
            }
        } else {
            Op::Quiesce
        }
    } else if r < 83 {
        if g.niters > 0 {
            let n = rng.gen_range(3..12);
            let moves = (0..n)
                .map(|_| {
                    let m = rng.gen_range(0..10);
                    let m = match m {
                        0 => 0,
                        1 => 1,
                        2 | 3 => 2,
                        4..=6 => 3,
                        _ => 4,
                    };
                    (m as u8, rng.gen_range(1..=cfg.nkeys as i64))
                })
                .collect();
            Op::IterWalk {
                idx: rng.gen_range(0..g.niters),
                moves,
            }
        } else {
            Op::Quiesce
        }
    } else if r < 88 {
        let n = cfg.nkeys as i64;
        let a = rng.gen_range(1..=n);
        let b = rng.gen_range(1..=n);
        let (a, b) = (a.min(b), a.max(b));
        match rng.gen_range(0..4) {
            0 => Op::Compact { lo: None, hi: None },
            1 => Op::Compact {
                lo: None,
                hi: Some(b),
            },
            2 => Op::Compact {
                lo: Some(a),
                hi: None,
            },
            _ => Op::Compact {
                lo: Some(a),
                hi: Some(b),
            },
        }
    } else if r < 91 {
        Op::Flush
    } else if r < 94 {
        g.nsnaps = 0;
        g.niters = 0;
        let mut o = if cfg.opts.memtable <= 2500 {
            small_opts(rng)
        } else {
            random_opts(rng)
        };
        if rng.gen_bool(0.4) {
            o = cur.clone();
            o.reuse = rng.gen_bool(0.5);
        }
        Op::Reopen { opts: o }
    } else if r < 96 {
        Op::ReadMiss {
            n: rng.gen_range(50..300),
        }
    } else if r < 98 && cfg.descriptors {
        Op::Descr
    } else {
        Op::Quiesce
    }
}

static CURRENT_REPLAY: parking_lot::Mutex<Option<Replay>> = parking_lot::Mutex::new(None);

pub fn current_replay() -> Option<Replay> {
    CURRENT_REPLAY.lock().clone()
}

pub struct HistOutcome {
    pub result: RunResult,
    pub replay: Replay,
    pub fs: SimFs,
    /// (journal length when the open started, options) for every open of the run
    pub opens: Vec<(usize, OptSet)>,
}

/// Execute a history. If `fixed_ops` is given it is replayed, otherwise operations are generated
/// from the seed.
pub fn run_hist(
    cfg: &HistCfg,
    fixed: Option<&Replay>,
    sink: &Arc<TraceSink>,
    u: &Arc<Universe>,
    wd: &Arc<Watchdog>,
    run_no: u64,
) -> HistOutcome {
    let mut rng = StdRng::seed_from_u64(cfg.seed ^ 0x9e3779b97f4a7c15);
    let fs = SimFs::new(ROOT);
    fs.attach(Some(Arc::clone(sink)));
    crate::common::JITTER_PERMILLE.store(cfg.jitter, std::sync::atomic::Ordering::SeqCst);
    crate::common::JITTER_MAX_US.store(
        if cfg.jitter_us == 0 { 600 } else { cfg.jitter_us },
        std::sync::atomic::Ordering::SeqCst,
    );
    *crate::common::JITTER_POINT.lock() = cfg.jitter_point.clone();
    crate::common::set_cache_cap(cfg.cache_cap);
    install_observer(ROOT, sink, true);
    take_panics();
    let first_event = sink.len();
    sink.emit_json(
        "Reset",
        json!({"run": run_no, "seed": cfg.seed, "nk": u.n(), "driver": "hist", "tag": ""}),
    );
    let mut sess = Session {
        opens: vec![],
        fs: fs.clone(),
        sink: Arc::clone(sink),
        u: Arc::clone(u),
        db: None,
        snaps: vec![],
        iters: vec![],
        opts: cfg.opts.clone(),
        wd: Arc::clone(wd),
        scan_limit: 10_000,
        walk_rng: if cfg.walks {
            Some(StdRng::seed_from_u64(cfg.seed ^ 0x77a1c))
        } else {
            None
        },
        open_matrix: true,
        opened_ok: 0,
    };
    let mut ops_done: Vec<Op> = vec![];
    let mut g = GenState {
        cursor: 0,
        dir: 1,
        next_vid: 1,
        nsnaps: 0,
        niters: 0,
        iter_snapless: 0,
        just_giant: false,
        nbatches: 0,
    };
    let mut status = "ok".to_string();
    let mut detail = String::new();
    let mut max_level = 0;
    let mut max_files = 0;
    let mut reopens = 0;
    if let Err(e) = sess.open(&cfg.opts) {
        status = "openfail".into();
        detail = e;
    } else {
        if std::panic::catch_unwind(std::panic::AssertUnwindSafe(|| sess.observe())).is_err() {
            status = "clientpanic".into();
            detail = format!("client call panicked after open during {}", sess.wd.current());
            sess.wd.leave();
        }
        let nops = if status == "ok" { fixed.map_or(cfg.nops, |r| r.ops.len()) } else { 0 };
        let early_at = rng.gen_range(1..4usize);
        let early_gap = rng.gen_range(2..9usize);
        for i in 0..nops {
            let op = match fixed {
                Some(r) => r.ops[i].clone(),
                None => {
                    if cfg.early_reopen && (i == early_at || i == early_at + early_gap) {
                        g.nsnaps = 0;
                        g.niters = 0;
                        let mut o = sess.opts.clone();
                        o.reuse = rng.gen_bool(0.7);
                        Op::Reopen { opts: o }
                    } else if cfg.early_reopen && i < early_at {
                        Op::Put {
                            k: gen_key(&mut rng, &mut g, cfg),
                            v: ValSpec {
                                vid: {
                                    g.next_vid += 1;
                                    g.next_vid - 1
                                },
                                len: 12,
                                comp: true,
                            },
                        }
                    } else if cfg.profile == "trivial" && i < TRIVIAL_PROLOGUE {
                        trivial_prologue(i, &mut rng, &mut g, cfg, &sess.opts)
                    } else if cfg.profile == "straddle" && i < STRADDLE_PROLOGUE {
                        straddle_prologue(i, &mut g, cfg)
                    } else {
                        gen_op(&mut rng, &mut g, cfg, &sess.opts)
                    }
                }
            };
            ops_done.push(op.clone());
            *CURRENT_REPLAY.lock() = Some(Replay {
                driver: "hist".into(),
                cfg: cfg.clone(),
                keys: u.keys.clone(),
                ops: ops_done.clone(),
            });
            if let Op::Reopen { .. } = op {
                reopens += 1;
            }
            // a panic of the code under test inside a client call is an observation (the call did
            // not return), not a crash of the driver: the run ends here, nothing is dropped
            let stepped = std::panic::catch_unwind(std::panic::AssertUnwindSafe(|| {
                sess.apply(&op);
                if sess.db.is_some() {
                    sess.observe();
                }
            }));
            if stepped.is_err() {
                status = "clientpanic".into();
                detail = format!("client call panicked at op {} during {}", i, sess.wd.current());
                sess.wd.leave();
                break;
            }
            if sess.db.is_none() {
                status = "openfail".into();
                detail = format!("reopen failed at op {}", i);
                break;
            }
            if let Some(d) = sess
                .db
                .as_ref()
                .unwrap()
                .verif_try_state(Duration::from_secs(20))
            {
                for (l, files) in d.levels.iter().enumerate() {
                    if !files.is_empty() && l > max_level {
                        max_level = l;
                    }
                }
                let nf: usize = d.levels.iter().map(|f| f.len()).sum();
                max_files = max_files.max(nf);
            }
            let bg_panic = peek_panics().iter().any(|p| p.thread == "bg");
            if bg_panic {
                status = "bgpanic".into();
                detail = format!("background thread panicked at op {}", i);
                break;
            }
        }
        if status == "ok" {
            // final quiescent dump with everything released, then a clean reopen
            let fin = std::panic::catch_unwind(std::panic::AssertUnwindSafe(|| {
                let n = sess.iters.len();
                for _ in 0..n {
                    let it = sess.iters.pop();
                    drop(it);
                }
                if let Some(db) = sess.db.as_ref() {
                    for s in sess.snaps.drain(..) {
                        db.release_snapshot(s);
                    }
                }
                sess.quiesce();
                let o = sess.opts.clone();
                sess.close();
                if sess.open(&o).is_ok() {
                    sess.observe();
                    sess.quiesce();
                    true
                } else {
                    false
                }
            }));
            match fin {
                Ok(true) => {}
                Ok(false) => {
                    status = "openfail".into();
                    detail = "final reopen failed".into();
                }
                Err(_) => {
                    status = "clientpanic".into();
                    detail = format!("client call panicked in the final phase during {}", sess.wd.current());
                    sess.wd.leave();
                }
            }
        }
    }
    let panics = peek_panics();
    // a panic raised by the DRIVER's own code (its source paths are relative, raindb's - a path
    // dependency - absolute) is a defect of the machinery, never an observation about raindb
    if let Some(p) = panics.iter().find(|p| p.location.starts_with("src/")) {
        eprintln!("driver defect: panic in the harness at {}: {}", p.location, p.message);
        std::process::exit(2);
    }
    let during = if status == "clientpanic" { sess.wd.current() } else { String::new() };
    for p in &panics {
        sink.emit_json(
            "Panic",
            json!({"thread": p.thread, "msg": p.message, "loc": p.location,
                   "during": if p.thread == "bg" { "" } else { during.as_str() }}),
        );
    }
    if status == "bgpanic" || status == "clientpanic" {
        // the database cannot be closed any more (Drop would wait for the dead worker): leak it
        let n = sess.iters.len();
        for _ in 0..n {
            std::mem::forget(sess.iters.pop());
        }
        std::mem::forget(sess.snaps.drain(..).collect::<Vec<_>>());
        std::mem::forget(sess.db.take());
    } else {
        sess.close();
    }
    raindb::verif::clear(ROOT);
    let compactions = 0;
    HistOutcome {
        result: RunResult {
            seed: cfg.seed,
            status,
            detail,
            events: sink.len() - first_event,
            ops: ops_done.len(),
            panics: take_panics(),
            max_level,
            max_files,
            reopens,
            compactions,
        },
        replay: Replay {
            driver: "hist".into(),
            cfg: cfg.clone(),
            keys: u.keys.clone(),
            ops: ops_done,
        },
        fs,
        opens: sess.opens.clone(),
    }
}
