SPECIFICATION Spec
CONSTANTS
  Entries <- MCEntries3
  NK = 3
  NC = 3
  MaxS = 6
  MaxOps = 5
  Bug_NoReseekOnDirectionChange = FALSE
  Bug_TombstoneNotRemembered = FALSE
  Bug_PrevIgnoresSnapshot = FALSE
  Bug_PrevStopsAtOldestVersion = FALSE
INVARIANTS CursorOK
CHECK_DEADLOCK FALSE
