--------------------------- MODULE RainManual_Gen ---------------------------
(***************************************************************************)
(* Behaviour generator for spec -> implementation replay of RainManual      *)
(* (see RainConc_Gen): `sch` names the process of every step; TLC in         *)
(* simulation mode prints one line per complete behaviour; `sched            *)
(* --schedules` replays it with the cast "manual": c1, c2 call               *)
(* compact_range, wr writes until the memtable rotates, the worker parks at  *)
(* every point where it does not hold the database mutex.                    *)
(***************************************************************************)
EXTENDS MC_RainManual, Sequences, Json

VARIABLE sch

GenInit == Init /\ sch = <<>>

GenNext ==
  \/ \E m \in Callers : (CStart(m) \/ CLoop(m) \/ CWake(m) \/ CExit(m)) /\ sch' = Append(sch, m)
  \/ (WRotate \/ WRoom \/ WWake) /\ sch' = Append(sch, WR)
  \/ (BRecv \/ BBegin \/ BReq1 \/ BMergeFlush \/ BMergeFlushDone \/ BInstall \/ BFin \/ BEnd)
     /\ sch' = Append(sch, BG)

GenSpec == GenInit /\ [][GenNext]_<<vars, sch>>

Emit == AllDone => PrintT(<<"@@SCHED", ToJson(sch)>>)
=============================================================================
