SPECIFICATION FairSpec
CONSTANTS
  Writers = {"w1", "w2", "w3"}
  NWrites = 5
  Trigger = 2
  Slowdown = 3
  Stop = 5
  Bug_NoRescheduleForLevel0 = FALSE
  Bug_FlushDoesNotWake = FALSE
  Bug_RotateDoesNotSchedule = FALSE
  Bug_StopBelowTrigger = FALSE
  Bug_EmptyMemtableFull = FALSE
INVARIANTS SchedSane NoLostWaiter WorkIsScheduled Level0Bounded
PROPERTIES EveryWriteReturns WorkerRests
CHECK_DEADLOCK TRUE
