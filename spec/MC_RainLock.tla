---------------------------- MODULE MC_RainLock ----------------------------
EXTENDS RainLock

\* safety-only configurations may identify states that differ by a renaming of the processes
ProcSymmetry == Permutations(Procs)
=============================================================================
