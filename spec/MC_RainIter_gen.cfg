SPECIFICATION GenSpec
CONSTANTS
  Entries <- MCEntries
  NK = 2
  NC = 2
  MaxS = 5
  MaxOps = 4
  Bug_NoReseekOnDirectionChange = FALSE
  Bug_TombstoneNotRemembered = FALSE
  Bug_PrevIgnoresSnapshot = FALSE
  Bug_PrevStopsAtOldestVersion = FALSE
INVARIANTS CursorOK EmitAll
VIEW GenView
CHECK_DEADLOCK FALSE
