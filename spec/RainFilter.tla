------------------------------ MODULE RainFilter ------------------------------
(***************************************************************************)
(* C14 - filters never hide a key that is present.                          *)
(*                                                                         *)
(* The filter block of a table holds one filter per RANGE of file offsets   *)
(* (real range 2048 bytes).  The builder                                    *)
(* (src/tables/filter_block_builder.rs) is driven with the protocol         *)
(*      (StartBlock(offset) AddKey* )* Finish                               *)
(* and collects the keys of all data blocks that START inside one range     *)
(* into the filter of that range: StartBlock(off) emits filters - the       *)
(* pending keys first, then empty ones - while  off div Range  exceeds the  *)
(* number of filters emitted so far; Finish emits the pending keys.  The    *)
(* reader (src/tables/filter_block.rs) consults filter number               *)
(* off div Range  for a data block starting at off.                         *)
(*                                                                         *)
(* The filter policy (Bloom) is abstracted: a filter IS the set of keys it  *)
(* was created from, and the only thing assumed about the policy is         *)
(*      k \in F  =>  PolicyMatch(F, k)             ("no false negatives");  *)
(* false positives are an arbitrary constant relation FalsePos.  The        *)
(* property is monotone in FalsePos, so FalsePos = {} (the exact policy)    *)
(* is the worst case; the harness runs the real builder with exactly such   *)
(* an exact policy.                                                         *)
(*                                                                         *)
(* Part 1: pure operators (also used by RainTable_Trace).                   *)
(* Part 2: the protocol state machine and the property NoFalseNegative.     *)
(***************************************************************************)
EXTENDS Naturals, Sequences, FiniteSets, TLC

CONSTANTS
  FRange,       \* bytes of file offset covered by one filter
  FKeys,        \* key ids
  FSteps,       \* possible distances between the starts of consecutive data blocks
  FMaxOff,      \* bound on block offsets
  FMaxBlocks,   \* bound on the number of StartBlock calls
  FalsePos,     \* set of <<key set, key>>: keys the policy reports although they are not in the set
  \* named deviations (each must give a counterexample)
  Bug_ReaderIndexOffByOne,        \* reader consults filter (off div Range) + 1
  Bug_NoFlushAtFinish,            \* Finish drops the pending keys (and writes an empty filter for their range)
  Bug_FilterAssignedToNextRange   \* StartBlock emits while idx >= #filters: a block's keys land one range late

---------------------------------------------------------------------------
(* PART 1: builder and reader as functions *)

FilterIndex(off, range) == off \div range

NewBuilder == [filters |-> <<>>, pending |-> {}]

\* FilterBlockBuilder::generate_filter: with no pending key an EMPTY filter is pushed
FbEmit(b) == [filters |-> Append(b.filters, b.pending), pending |-> {}]

RECURSIVE FbEmitUntil(_, _)
FbEmitUntil(b, n) == IF Len(b.filters) >= n THEN b ELSE FbEmitUntil(FbEmit(b), n)

\* notify_new_data_block(off):  while off / RANGE > filters.len() { generate_filter() }
FbStart(b, off, range) ==
  LET idx == FilterIndex(off, range) IN
  FbEmitUntil(b, IF Bug_FilterAssignedToNextRange THEN idx + 1 ELSE idx)

FbAdd(b, k) == [b EXCEPT !.pending = @ \cup {k}]

\* finalize: if !keys.is_empty() { generate_filter() }
\* Bug_NoFlushAtFinish: the pending keys are dropped but the filter of their range is still written
\* (empty).  NOTE (found by TLC): dropping the pending keys WITHOUT writing a filter for the last
\* range is not a false negative - the reader answers "may match" for a filter index beyond the
\* filters it has - it only loses the filter's benefit; FiltersExact / FilterCountOK see that variant.
FbFinish(b) ==
  IF b.pending = {} THEN b
  ELSE IF Bug_NoFlushAtFinish THEN FbEmit([b EXCEPT !.pending = {}])
  ELSE FbEmit(b)

\* blocks: sequence of [off, keys (a set)] in protocol order
RECURSIVE FbFold(_, _, _, _)
FbFold(b, blocks, i, range) ==
  IF i > Len(blocks) THEN b
  ELSE LET b1 == IF i = 1 /\ blocks[i].off = 0 THEN b      \* implicit first block (see Part 2)
                 ELSE FbStart(b, blocks[i].off, range)
           b2 == [b1 EXCEPT !.pending = @ \cup blocks[i].keys] IN
       FbFold(b2, blocks, i + 1, range)

\* the filters (sequence of key sets) the design builder produces for a block sequence
FiltersOf(blocks, range) == FbFinish(FbFold(NewBuilder, blocks, 1, range)).filters

\* the one assumption about the policy
PolicyMatch(F, k) == k \in F \/ <<F, k>> \in FalsePos

\* FilterBlockReader::key_may_match
MayMatch(filters, off, k, range) ==
  IF Len(filters) = 0 THEN TRUE                       \* no filters: force the disk read
  ELSE LET idx == FilterIndex(off, range) + (IF Bug_ReaderIndexOffByOne THEN 1 ELSE 0) IN
       IF idx >= Len(filters) THEN TRUE               \* index error is ignored: force the disk read
       ELSE IF filters[idx + 1] = {} THEN FALSE       \* an empty filter matches nothing
       ELSE PolicyMatch(filters[idx + 1], k)

\* C14 for a finished filter block
NoFalseNegativeIn(filters, blocks, range) ==
  \A i \in 1..Len(blocks) : \A k \in blocks[i].keys : MayMatch(filters, blocks[i].off, k, range)

\* keys for which MayMatch must answer TRUE at offset off: the keys of every block at that offset
MustMatchKeys(blocks, off) == UNION {blocks[i].keys : i \in {j \in 1..Len(blocks) : blocks[j].off = off}}

---------------------------------------------------------------------------
(* PART 2: the protocol.  The first data block starts at offset 0 without a StartBlock call (this  *)
(* is how TableBuilder uses the builder; an explicit StartBlock(0) changes nothing).               *)

VARIABLES
  fb,        \* builder: [filters, pending]
  fblocks,   \* ghost: the data blocks so far, [off, keys]
  fdone      \* Finish was called

fvars == <<fb, fblocks, fdone>>

LastOff == fblocks[Len(fblocks)].off

FInit ==
  /\ fb = NewBuilder
  /\ fblocks = <<[off |-> 0, keys |-> {}]>>
  /\ fdone = FALSE

FStartBlock ==
  /\ ~fdone /\ Len(fblocks) <= FMaxBlocks
  /\ \E d \in FSteps :
       LET off == LastOff + d IN
       /\ off <= FMaxOff
       /\ fb' = FbStart(fb, off, FRange)
       /\ fblocks' = Append(fblocks, [off |-> off, keys |-> {}])
  /\ UNCHANGED fdone

FAddKey ==
  /\ ~fdone
  /\ \E k \in FKeys :
       /\ k \notin fblocks[Len(fblocks)].keys
       /\ fb' = FbAdd(fb, k)
       /\ fblocks' = [fblocks EXCEPT ![Len(fblocks)].keys = @ \cup {k}]
  /\ UNCHANGED fdone

FFinish ==
  /\ ~fdone
  /\ fb' = FbFinish(fb)
  /\ fdone' = TRUE
  /\ UNCHANGED fblocks

FNext == FStartBlock \/ FAddKey \/ FFinish

FSpec == FInit /\ [][FNext]_fvars

---------------------------------------------------------------------------
(* properties *)

\* C14: every key added while a block was current may match at that block's offset
NoFalseNegative ==
  fdone => NoFalseNegativeIn(fb.filters, fblocks, FRange)

\* why it works: while building, exactly the filters of the ranges below the current block's range
\* have been emitted, so the pending keys all belong to blocks of the current range
PendingRangeOK ==
  ~fdone => /\ Len(fb.filters) = FilterIndex(LastOff, FRange)
            /\ fb.pending = UNION {fblocks[i].keys :
                                     i \in {j \in 1..Len(fblocks) :
                                              FilterIndex(fblocks[j].off, FRange) = Len(fb.filters)}}

\* the state machine and the fold used by the trace specification agree
FoldAgrees ==
  fdone => fb.filters = FiltersOf(fblocks, FRange)

\* a filter holds exactly the keys of the blocks that start in its range (so the exact policy has no
\* false positive either: a key is never smeared over a neighbouring range)
FiltersExact ==
  fdone => \A r \in 1..Len(fb.filters) :
              fb.filters[r] = UNION {fblocks[i].keys :
                                       i \in {j \in 1..Len(fblocks) :
                                                FilterIndex(fblocks[j].off, FRange) = r - 1}}

\* every block that holds a key has a filter for its range (the reader's "index beyond the filters ->
\* may match" rule is never needed for a block with keys)
FilterCountOK ==
  fdone => \A i \in 1..Len(fblocks) :
              fblocks[i].keys # {} => FilterIndex(fblocks[i].off, FRange) < Len(fb.filters)
=============================================================================
