SPECIFICATION Spec
CONSTANTS
  Procs = {p1, p2, p3, p4}
  None = None
  Bug_LockAfterRecovery = FALSE
  Bug_ReleaseBeforeBgStops = FALSE
  Bug_DestroyIgnoresLock = FALSE
  Bug_OpenTruncatesOnFailure = FALSE
  Bug_UnlinkLockAfterRelease = FALSE
  Bug_DestroyWipesAfterRelease = FALSE
SYMMETRY ProcSymmetry
INVARIANTS TypeOK OneOwner IntruderFailsCleanly OnlyOwnerWrites AtMostOneWinner
CHECK_DEADLOCK TRUE
