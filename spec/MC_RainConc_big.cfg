SPECIFICATION FairSpec
CONSTANTS
  Writers <- MCWriters
  Readers <- MCReaders
  SnapReaders <- MCSnapReaders
  BatchOf <- MCBatchOf
  RKey = 1
  MemCap = 1
  Bug_GetLoadsMemAfterUnlock = FALSE
  Bug_PublishEarly = FALSE
  Bug_NoNotify = FALSE
  Bug_SnapshotUnlocked = FALSE
  MaxFaults = 1
  AnyPrefix = TRUE
  Bug_FollowersToldOk = FALSE
  Bug_RejectedFollowerDone = FALSE
  Bug_FailedRoomStaysQueued = FALSE
INVARIANTS Linearizable BatchAtomic SeqSane OwnResult StickyError
PROPERTIES AllWritersReturn BgQuiesces
CHECK_DEADLOCK FALSE
