------------------------------ MODULE RainConc ------------------------------
(***************************************************************************)
(* Threads, the database mutex and the condition variables of raindb:       *)
(* writers with group commit, readers (plain get and snapshot read), the    *)
(* background flush thread.  One action per critical section of             *)
(* DB::apply_changes / DB::get / DB::get_snapshot /                         *)
(* CompactionWorker::compaction_task (DESIGN.md section 2.2); the unlocked  *)
(* parts (WAL append, per-entry memtable insertion, table build) are        *)
(* separate steps so that every interleaving with them is explored.         *)
(*                                                                         *)
(* Files are abstracted away: a version is the set of entries flushed so    *)
(* far.  Entries are sequence numbers; hist[s] is the user key written at   *)
(* sequence s (values are identified with their sequence number).           *)
(***************************************************************************)
EXTENDS Naturals, Sequences, FiniteSets, TLC

CONSTANTS
  Writers,     \* set of writer threads
  Readers,     \* set of reader threads (each does one read of RKey)
  BatchOf,     \* writer -> sequence of user keys it writes in ONE batch
  RKey,        \* key the readers look at
  SnapReaders, \* subset of Readers that read through a snapshot taken in a first step
  MemCap,      \* memtable capacity in entries
  \* named deviations
  Bug_GetLoadsMemAfterUnlock,  \* DB::get loads the memtable pointer after releasing the mutex
  Bug_PublishEarly,            \* sequence published before the memtable insert
  Bug_NoNotify,                \* finishing leader / worker does not wake waiters
  Bug_SnapshotUnlocked,        \* snapshot sequence read without the mutex, mid-group allowed
  MaxFaults,   \* how many WAL appends may fail (0 = no I/O failures)
  AnyPrefix,   \* TRUE: a leader takes ANY non-empty prefix of the queue as its group (size limit,
               \* synchronous-writer rule, forced-compaction writers cut groups anywhere);
               \* FALSE: everybody queued
  Bug_FollowersToldOk,         \* followers of a failed group commit are told Ok
  Bug_RejectedFollowerDone,    \* the first writer NOT taken into the group is marked done with it
  Bug_FailedRoomStaysQueued    \* a write refused by make_room_for_write returns without leaving the queue

BG == "bg"
Procs == Writers \cup Readers \cup {BG}

VARIABLES
  lock,      \* holder of the database mutex or "none"
  pc,        \* per process
  queue,     \* writer queue
  done,      \* writer -> its work was done by a group leader
  seq,       \* published sequence number
  hist,      \* ghost: hist[s] = user key of the entry with sequence s (commit order)
  grpEnds,   \* ghost: set of sequence numbers at which a group commit ends
  memId, memC, \* active memtable id; contents of every memtable id
  imm,       \* id of the immutable memtable or 0
  ver,       \* entries in table files
  turnWait, bgWait, \* processes parked on the writer / background condition variables
  bgSched, chan,
  grp,       \* leader -> the group it is committing (sequence of writers)
  rd,        \* reader locals
  nextMem,
  res,       \* writer -> "none" | "ok" | "err": what apply_changes returns to it
  bad,       \* sticky error state of the database (maybe_bad_database_state)
  faults,    \* WAL append failures so far
  dead,      \* ghost: sequence numbers handed to groups whose WAL append failed (never applied)
  wseq,      \* ghost: writer -> first sequence number of its batch, 0 = never in a group
  gok        \* leader -> its group's write succeeded

fvars == <<res, bad, faults, dead, wseq, gok>>
vars == <<lock, pc, queue, done, seq, hist, grpEnds, memId, memC, imm, ver, turnWait, bgWait,
          bgSched, chan, grp, rd, nextMem, fvars>>

KeyOfSeq(s) == hist[s]
Newest(S, k, sn) ==
  LET C == {s \in S : hist[s] = k /\ s <= sn} IN
  IF C = {} THEN 0 ELSE CHOOSE x \in C : \A y \in C : y <= x
Abs(k, sn) == Newest((1..Len(hist)) \ dead, k, sn)

RECURSIVE Flatten(_)
Flatten(ws) == IF ws = <<>> THEN <<>> ELSE BatchOf[Head(ws)] \o Flatten(Tail(ws))

Init ==
  /\ lock = "none"
  /\ pc = [p \in Procs |-> IF p = BG THEN "idle" ELSE "start"]
  /\ queue = <<>> /\ done = [w \in Writers |-> FALSE] /\ seq = 0 /\ hist = <<>> /\ grpEnds = {0}
  /\ memId = 1 /\ memC = [i \in 1..6 |-> {}] /\ imm = 0 /\ ver = {}
  /\ turnWait = {} /\ bgWait = {} /\ bgSched = FALSE /\ chan = 0
  /\ grp = [w \in Writers |-> <<>>] /\ nextMem = 2
  /\ rd = [r \in Readers |-> [call |-> 0, sq |-> 0, im |-> 0, vr |-> {}, mm |-> 0, res |-> 0,
                              ret |-> 0, snap |-> 0]]
  /\ res = [w \in Writers |-> "none"] /\ bad = FALSE /\ faults = 0 /\ dead = {}
  /\ wseq = [w \in Writers |-> 0] /\ gok = [w \in Writers |-> TRUE]

Acquire(p) == lock = "none" /\ lock' = p
Goto(p, l) == pc' = [pc EXCEPT ![p] = l]

---------------------------------------------------------------------------
(* writers: DB::apply_changes *)

WEnq(w) ==
  /\ pc[w] = "start" /\ Acquire(w) /\ queue' = Append(queue, w) /\ Goto(w, "turn")
  /\ UNCHANGED <<done, seq, hist, grpEnds, memId, memC, imm, ver, turnWait, bgWait, bgSched,
                 chan, grp, rd, nextMem, fvars>>

WTurn(w) ==
  /\ pc[w] = "turn" /\ lock = w
  /\ IF done[w] THEN /\ lock' = "none" /\ Goto(w, "ret") /\ UNCHANGED turnWait
     ELSE IF Head(queue) = w THEN /\ Goto(w, "room") /\ UNCHANGED <<lock, turnWait>>
     ELSE /\ lock' = "none" /\ turnWait' = turnWait \cup {w} /\ Goto(w, "turnwait")
  /\ UNCHANGED <<queue, done, seq, hist, grpEnds, memId, memC, imm, ver, bgWait, bgSched, chan,
                 grp, rd, nextMem, fvars>>

WTurnWake(w) ==
  /\ pc[w] = "turnwait" /\ w \notin turnWait /\ Acquire(w) /\ Goto(w, "turn")
  /\ UNCHANGED <<queue, done, seq, hist, grpEnds, memId, memC, imm, ver, turnWait, bgWait,
                 bgSched, chan, grp, rd, nextMem, fvars>>

\* make_room_for_write
WRoom(w) ==
  /\ pc[w] = "room" /\ lock = w
  /\ IF bad
     THEN \* sticky error: the write is refused; the writer leaves the queue (it is the head),
          \* wakes the next head and returns the error
          /\ res' = [res EXCEPT ![w] = "err"]
          /\ IF Bug_FailedRoomStaysQueued
             THEN UNCHANGED <<queue, turnWait>>
             ELSE /\ queue' = Tail(queue)
                  /\ turnWait' = IF Tail(queue) = <<>> THEN turnWait ELSE turnWait \ {Head(Tail(queue))}
          /\ lock' = "none" /\ Goto(w, "ret")
          /\ UNCHANGED <<memId, memC, imm, bgWait, bgSched, chan, nextMem, bad, faults, dead, wseq, gok>>
     ELSE IF Cardinality(memC[memId]) < MemCap
     THEN /\ Goto(w, "group")
          /\ UNCHANGED <<lock, queue, turnWait, memId, memC, imm, bgWait, bgSched, chan, nextMem, fvars>>
     ELSE IF imm # 0
     THEN /\ lock' = "none" /\ bgWait' = bgWait \cup {w} /\ Goto(w, "roomwait")
          /\ UNCHANGED <<queue, turnWait, memId, memC, imm, bgSched, chan, nextMem, fvars>>
     ELSE /\ imm' = memId /\ memId' = nextMem /\ nextMem' = nextMem + 1
          /\ IF bgSched THEN UNCHANGED <<bgSched, chan>> ELSE bgSched' = TRUE /\ chan' = chan + 1
          /\ UNCHANGED <<lock, pc, queue, turnWait, memC, bgWait, fvars>>
  /\ UNCHANGED <<done, seq, hist, grpEnds, ver, grp, rd>>

WRoomWake(w) ==
  /\ pc[w] = "roomwait" /\ w \notin bgWait /\ Acquire(w) /\ Goto(w, "room")
  /\ UNCHANGED <<queue, done, seq, hist, grpEnds, memId, memC, imm, ver, turnWait, bgWait,
                 bgSched, chan, grp, rd, nextMem, fvars>>

\* build_group_commit_batch: a prefix of the queue; sequence numbers assigned; unlock
RECURSIVE FirstSeqs(_, _, _)
FirstSeqs(ws, base, f) ==   \* f extended with writer -> first sequence of its batch
  IF ws = <<>> THEN f
  ELSE FirstSeqs(Tail(ws), base + Len(BatchOf[Head(ws)]), [f EXCEPT ![Head(ws)] = base + 1])

WGroup(w) ==
  /\ pc[w] = "group" /\ lock = w
  /\ \E n \in 1..Len(queue) :
       /\ AnyPrefix \/ n = Len(queue)
       /\ LET g == SubSeq(queue, 1, n) IN
          /\ grp' = [grp EXCEPT ![w] = g]
          /\ hist' = hist \o Flatten(g)
          /\ grpEnds' = grpEnds \cup {Len(hist) + Len(Flatten(g))}
          /\ wseq' = FirstSeqs(g, Len(hist), wseq)
          /\ seq' = IF Bug_PublishEarly THEN Len(hist) + Len(Flatten(g)) ELSE seq
  /\ gok' = [gok EXCEPT ![w] = TRUE]
  /\ lock' = "none" /\ Goto(w, "wal")
  /\ UNCHANGED <<queue, done, memId, memC, imm, ver, turnWait, bgWait, bgSched, chan, rd, nextMem,
                 res, bad, faults, dead>>

\* unlocked: the WAL append of the whole group; it may fail (then nothing reaches the memtable)
WWal(w) ==
  /\ pc[w] = "wal"
  /\ \/ /\ Goto(w, "ins") /\ UNCHANGED <<faults, dead, gok>>
     \/ /\ faults < MaxFaults
        /\ faults' = faults + 1
        /\ gok' = [gok EXCEPT ![w] = FALSE]
        /\ dead' = dead \cup ((Len(hist) - Len(Flatten(grp[w])) + 1)..Len(hist))
        /\ Goto(w, "pub")
  /\ UNCHANGED <<lock, queue, done, seq, hist, grpEnds, memId, memC, imm, ver, turnWait, bgWait,
                 bgSched, chan, grp, rd, nextMem, res, bad, wseq>>

\* unlocked: memtable inserts one entry per step
WIns(w) ==
  /\ pc[w] = "ins"
  /\ LET n == Len(Flatten(grp[w]))
         base == Len(hist) - n
         have == Cardinality({s \in memC[memId] : s > base}) IN
     IF have < n
     THEN /\ memC' = [memC EXCEPT ![memId] = @ \cup {base + have + 1}] /\ UNCHANGED pc
     ELSE /\ Goto(w, "pub") /\ UNCHANGED memC
  /\ UNCHANGED <<lock, queue, done, seq, hist, grpEnds, memId, imm, ver, turnWait, bgWait,
                 bgSched, chan, grp, rd, nextMem, fvars>>

\* re-lock: record a failure as the sticky error, publish the sequence, pop the group, hand the
\* group's result to the followers, wake the next head, return the own result
WPub(w) ==
  /\ pc[w] = "pub" /\ lock = "none"
  /\ seq' = Len(hist)
  /\ bad' = (bad \/ ~gok[w])
  /\ LET n0 == Len(grp[w])
         extra == Bug_RejectedFollowerDone /\ Len(queue) > n0
         n == IF extra THEN n0 + 1 ELSE n0
         followers == {queue[i] : i \in 2..n}
         rest == SubSeq(queue, n + 1, Len(queue))
         r == IF gok[w] THEN "ok" ELSE "err" IN
     /\ queue' = rest
     /\ done' = [x \in Writers |-> done[x] \/ x \in followers]
     /\ res' = [x \in Writers |-> IF x = w THEN r
                                  ELSE IF x \in followers
                                  THEN (IF Bug_FollowersToldOk THEN "ok" ELSE r)
                                  ELSE res[x]]
     /\ turnWait' = IF Bug_NoNotify THEN turnWait
                    ELSE turnWait \ (followers \cup (IF rest = <<>> THEN {} ELSE {Head(rest)}))
  /\ lock' = "none" /\ Goto(w, "ret")
  /\ UNCHANGED <<hist, grpEnds, memId, memC, imm, ver, bgWait, bgSched, chan, grp, rd, nextMem,
                 faults, dead, wseq, gok>>

---------------------------------------------------------------------------
(* readers: DB::get, optionally through a snapshot taken earlier (DB::get_snapshot) *)

RCall(r) ==
  /\ pc[r] = "start"
  /\ rd' = [rd EXCEPT ![r].call = seq]
  /\ Goto(r, IF r \in SnapReaders THEN "snap" ELSE "cap")
  /\ UNCHANGED <<lock, queue, done, seq, hist, grpEnds, memId, memC, imm, ver, turnWait, bgWait,
                 bgSched, chan, grp, nextMem, fvars>>

\* get_snapshot: the published sequence under the mutex
RSnap(r) ==
  /\ pc[r] = "snap"
  /\ lock = "none" \/ Bug_SnapshotUnlocked
  /\ rd' = [rd EXCEPT ![r].snap = IF Bug_SnapshotUnlocked THEN Len(hist) ELSE seq]
  /\ Goto(r, "cap")
  /\ UNCHANGED <<lock, queue, done, seq, hist, grpEnds, memId, memC, imm, ver, turnWait, bgWait,
                 bgSched, chan, grp, nextMem, fvars>>

\* lock; capture sequence, immutable memtable, version (and the memtable); unlock
RCap(r) ==
  /\ pc[r] = "cap" /\ lock = "none"
  /\ rd' = [rd EXCEPT ![r].sq = IF r \in SnapReaders THEN rd[r].snap ELSE seq,
                      ![r].im = imm, ![r].vr = ver,
                      ![r].mm = IF Bug_GetLoadsMemAfterUnlock THEN 0 ELSE memId]
  /\ Goto(r, "mem")
  /\ UNCHANGED <<lock, queue, done, seq, hist, grpEnds, memId, memC, imm, ver, turnWait, bgWait,
                 bgSched, chan, grp, nextMem, fvars>>

\* unlocked: memtable, immutable memtable, version
RMem(r) ==
  /\ pc[r] = "mem"
  /\ LET m == IF Bug_GetLoadsMemAfterUnlock THEN memId ELSE rd[r].mm
         a == Newest(memC[m], RKey, rd[r].sq)
         b == IF rd[r].im = 0 THEN 0 ELSE Newest(memC[rd[r].im], RKey, rd[r].sq)
         c == Newest(rd[r].vr, RKey, rd[r].sq)
         rres == IF a # 0 THEN a ELSE IF b # 0 THEN b ELSE c IN
     rd' = [rd EXCEPT ![r].res = rres, ![r].ret = seq]
  /\ Goto(r, "ret")
  /\ UNCHANGED <<lock, queue, done, seq, hist, grpEnds, memId, memC, imm, ver, turnWait, bgWait,
                 bgSched, chan, grp, nextMem, fvars>>

---------------------------------------------------------------------------
(* background thread: compaction_task / compact_memtable *)

BRecv ==
  /\ pc[BG] = "idle" /\ chan > 0 /\ chan' = chan - 1 /\ Goto(BG, "b1")
  /\ UNCHANGED <<lock, queue, done, seq, hist, grpEnds, memId, memC, imm, ver, turnWait, bgWait,
                 bgSched, grp, rd, nextMem, fvars>>

BBegin ==
  /\ pc[BG] = "b1" /\ lock = "none"
  /\ IF imm # 0 THEN lock' = "none" /\ Goto(BG, "build") ELSE lock' = BG /\ Goto(BG, "bend")
  /\ UNCHANGED <<queue, done, seq, hist, grpEnds, memId, memC, imm, ver, turnWait, bgWait,
                 bgSched, chan, grp, rd, nextMem, fvars>>

\* table built without the mutex; then under the mutex: install the version, drop the imm
BBuild ==
  /\ pc[BG] = "build" /\ Acquire(BG)
  /\ ver' = ver \cup memC[imm] /\ imm' = 0 /\ Goto(BG, "bend")
  /\ UNCHANGED <<queue, done, seq, hist, grpEnds, memId, memC, turnWait, bgWait, bgSched, chan,
                 grp, rd, nextMem, fvars>>

BEnd ==
  /\ pc[BG] = "bend" /\ lock = BG
  /\ bgWait' = IF Bug_NoNotify THEN bgWait ELSE {}
  /\ IF imm # 0 THEN bgSched' = TRUE /\ chan' = chan + 1 ELSE bgSched' = FALSE /\ UNCHANGED chan
  /\ lock' = "none" /\ Goto(BG, "idle")
  /\ UNCHANGED <<queue, done, seq, hist, grpEnds, memId, memC, imm, ver, turnWait, grp, rd,
                 nextMem, fvars>>

WriterStep(w) ==
  WEnq(w) \/ WTurn(w) \/ WTurnWake(w) \/ WRoom(w) \/ WRoomWake(w) \/ WGroup(w) \/ WWal(w)
  \/ WIns(w) \/ WPub(w)
ReaderStep(r) == RCall(r) \/ RSnap(r) \/ RCap(r) \/ RMem(r)
BgStep == BRecv \/ BBegin \/ BBuild \/ BEnd

Next == (\E w \in Writers : WriterStep(w)) \/ (\E r \in Readers : ReaderStep(r)) \/ BgStep

Spec == Init /\ [][Next]_vars
FairSpec == Spec /\ (\A w \in Writers : WF_vars(WriterStep(w))) /\ WF_vars(BgStep)
                 /\ (\A r \in Readers : WF_vars(ReaderStep(r)))

---------------------------------------------------------------------------
(* PROPERTIES *)

\* C05: a completed read returns the value at some sequence between the published sequence at
\* its call and at its return (snapshot readers: exactly at the snapshot)
Linearizable ==
  \A r \in Readers : pc[r] = "ret" =>
     IF r \in SnapReaders THEN rd[r].res = Abs(RKey, rd[r].snap)
     ELSE \E s \in rd[r].call..rd[r].ret : rd[r].res = Abs(RKey, s)

\* C06: every sequence a reader can capture is the end of a group commit, and what it sees at
\* that sequence contains every entry of every batch <= it and nothing above it
\* (ends of CLIENT batches: a group commit must end where a batch ends - the published sequence
\* never points inside a client's batch even if a group were cut there)
BatchEnds == {0} \cup {wseq[w] + Len(BatchOf[w]) - 1 : w \in {x \in Writers : wseq[x] # 0}}
BatchAtomic ==
  /\ seq \in grpEnds /\ seq \in BatchEnds
  /\ \A r \in SnapReaders : pc[r] \in {"cap", "mem", "ret"} =>
        rd[r].snap \in grpEnds /\ rd[r].snap \in BatchEnds

SeqSane == seq <= Len(hist)

\* C05 (last clause) / C08: a writer that returned got the outcome of its OWN batch: Ok exactly
\* when the batch was applied - once, completely, and published - and an error exactly when
\* nothing of it was
SeqsOf(w) == IF wseq[w] = 0 THEN {} ELSE wseq[w]..(wseq[w] + Len(BatchOf[w]) - 1)
OwnResult ==
  \A w \in Writers : pc[w] = "ret" =>
     /\ res[w] \in {"ok", "err"}
     /\ res[w] = "ok" => /\ wseq[w] # 0 /\ SeqsOf(w) \cap dead = {}
                         /\ \A s \in SeqsOf(w) : s <= seq
     /\ res[w] = "err" => SeqsOf(w) \subseteq dead
\* an error is sticky: once a group commit failed no later write is accepted
StickyError == bad => \A w \in Writers : pc[w] \notin {"group", "wal", "ins", "pub"}

\* C09
AllWritersReturn == <>(\A w \in Writers : pc[w] = "ret")
BgQuiesces == []<>(~bgSched)
=============================================================================
