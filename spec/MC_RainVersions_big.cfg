SPECIFICATION Spec
CONSTANTS
  Readers <- MCReaders3
  MaxVer = 6
  ReleaseTriggersPass = FALSE
  Bug_LookBeforeLock = FALSE
  Bug_FailedReadNoRelease = FALSE
  Bug_CompactionNoRelease = FALSE
  Bug_PassIgnoresHolders = FALSE
INVARIANTS TypeOK NothingHeldDeleted RefsExact NoLeakedVersion ExactWhenQuiet
CHECK_DEADLOCK FALSE
