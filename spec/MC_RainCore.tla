---------------------------- MODULE MC_RainCore ----------------------------
EXTENDS RainCore
CONSTANT MaxFiles
\* hist and nextPin ids are ghosts / names: hide them from the fingerprint
MCView == <<seq, [i \in 1..Len(hist) |-> hist[i]], mem, imm, immOn, immDone, files, cur,
            {[mem |-> p.mem, imm |-> p.imm, ver |-> p.ver, seq |-> p.seq] : p \in pins},
            snaps, pending, comp, disk, nextFile, curWal, logWal, gcDue, immWal>>
MCBound == nextFile <= MaxFiles
=============================================================================
