---------------------------- MODULE MC_RainCore ----------------------------
EXTENDS RainCore
CONSTANT MaxFiles
\* hist and nextPin ids are ghosts / names: hide them from the fingerprint
MCView == <<seq, [i \in 1..Len(hist) |-> hist[i]], mem, imm, immOn, immDone, files, cur,
            {[mem |-> p.mem, imm |-> p.imm, ver |-> p.ver, seq |-> p.seq] : p \in pins},
            snaps, pending, comp, disk, nextFile, curWal, logWal, gcDue, immWal>>
MCBound == nextFile <= MaxFiles
\* a directed configuration: the clients write keys 1 2 3 1 2 3 in this order (every flush /
\* compaction choice in between is still explored)
MCScript == <<1, 2, 3, 1, 2, 3>>
\* ---- refinement: the LSM machine implements the key-value service (RainKV.tla)
KVStore(s) == [k \in Keys |-> Get(k, s)]
KV == INSTANCE RainKV WITH
        KVKeys <- 1..NK,
        store  <- KVStore(seq),
        count  <- seq,
        frozen <- [i \in 1..Len(snaps) |-> KVStore(snaps[i])],
        views  <- {[id |-> p.id, map |-> [k \in Keys |-> PinGet(p, k)]] : p \in pins}
ImplementsKV == KV!KVSpec
\* a second directed configuration: 1 2 | 1 2 3 (snapshot) 3 - a parent file [1..2] two levels down,
\* then a memtable whose compaction output can be cut into [1] [2 3'] [3]: key 3 straddles two files
MCScript2 == <<1, 2, 1, 2, 3, 3>>
MCScripted2 == \A i \in 1..Len(hist) : hist[i][1] = MCScript2[i]
MCScripted == \A i \in 1..Len(hist) : hist[i][1] = MCScript[i]
=============================================================================
