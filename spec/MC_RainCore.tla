---------------------------- MODULE MC_RainCore ----------------------------
EXTENDS RainCore
CONSTANT MaxFiles
\* hist and nextPin ids are ghosts / names: hide them from the fingerprint
MCView == <<seq, [i \in 1..Len(hist) |-> hist[i]], mem, imm, immOn, immDone, files, cur,
            {[mem |-> p.mem, imm |-> p.imm, ver |-> p.ver, seq |-> p.seq] : p \in pins},
            snaps, pending, comp, disk, nextFile, curWal, logWal, gcDue, immWal>>
MCBound == nextFile <= MaxFiles
\* a directed configuration: the clients write keys 1 2 3 1 2 3 in this order (every flush /
\* compaction choice in between is still explored)
MCScript == <<1, 2, 3, 1, 2, 3>>
MCScripted == \A i \in 1..Len(hist) : hist[i][1] = MCScript[i]
=============================================================================
