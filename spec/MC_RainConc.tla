---------------------------- MODULE MC_RainConc ----------------------------
EXTENDS RainConc
MCWriters == {"w1", "w2", "w3"}
MCReaders == {"r1", "r2"}
MCSnapReaders == {"r2"}
\* w1 writes a two-key batch, w2 and w3 single puts
MCBatchOf == [w \in MCWriters |-> IF w = "w1" THEN <<1, 2>> ELSE IF w = "w2" THEN <<1>> ELSE <<2>>]
=============================================================================
