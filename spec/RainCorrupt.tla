----------------------------- MODULE RainCorrupt -----------------------------
(***************************************************************************)
(* Integrity protection of raindb's persistent files and what a single      *)
(* altered byte can do (property C15).                                     *)
(*                                                                         *)
(* A database image is abstracted to:                                      *)
(*   man : sequence of manifest records (edits), each a log record with a   *)
(*         header (crc, len, type) and a payload;                          *)
(*   wal : sequence of WAL records (batches), same record format;           *)
(*   tab : set of table files, each a set of blocks (data, index, footer).  *)
(* Integrity units (src/logs.rs, src/tables/table.rs, src/tables/footer.rs):*)
(*   log record : CRC over the PAYLOAD only; the length and type bytes of   *)
(*                the header are unprotected;                              *)
(*   table block: CRC over contents + compression type byte; the footer is  *)
(*                protected by its magic number only.                       *)
(* One `Corrupt` step damages one field of one unit; `Outcome` is what the  *)
(* readers make of it.  The abstract store is "the set of batch ids whose   *)
(* effects are served"; edits 1..NE each install the batches of one flush.  *)
(*                                                                         *)
(* NoInvention: after any single corruption every read either fails or      *)
(* serves exactly the batches that were written (for WAL damage: minus a    *)
(* subset of the batches in the damaged log).  With HeaderProtected = FALSE *)
(* (what the format does) and ExcludeTailHeader = FALSE TLC finds the       *)
(* residual cases that are listed as known findings: a damaged length byte  *)
(* (the record then seems to run past the end of the file) or a damaged     *)
(* type byte of the last record is indistinguishable from a torn tail.      *)
(***************************************************************************)
EXTENDS Naturals, Sequences, FiniteSets, TLC

CONSTANTS
  NE,               \* manifest edits after the initial record (each adds one table)
  NW,               \* records in the live write-ahead log
  HeaderProtected,  \* TRUE: a (hypothetical) format whose CRC covers length and type
  \* named deviations of the READERS
  Bug_NoBlockCrc,          \* table blocks are not verified
  Bug_ManifestSkipsDamaged,\* damaged manifest records are skipped like WAL records
  Bug_SpliceFragments,     \* an unfinished record is spliced with the next one
  Bug_OrphanNotNoticed,    \* a fragment that continues no record (type byte of a record in the
                           \* middle of the file turned into Middle / Last) is dropped WITHOUT
                           \* being counted as damage: the manifest reader goes on without the edit
  \* which fields the check may damage (the registered configuration excludes the header
  \* fields of the last record, which are reported as known findings)
  ExcludeTailHeader

VARIABLES hit   \* the damage: [file, unit, field]; file = "none" before the damage

Fields == {"crc", "len", "type", "payload"}
LogUnits(n) == 1..n

Damage ==
  {[file |-> "man", unit |-> u, field |-> f] : u \in LogUnits(NE + 1), f \in Fields}
  \cup {[file |-> "wal", unit |-> u, field |-> f] : u \in LogUnits(NW), f \in Fields}
  \cup {[file |-> "tab", unit |-> t, field |-> f] : t \in 1..NE, f \in {"block", "footer"}}

\* the residual cases: a damaged length (any record: the wrong extent may run past the end of
\* the file) and a damaged type byte of the last record look like a torn tail
Allowed(d) ==
  ~(ExcludeTailHeader /\ d.file \in {"man", "wal"}
    /\ \/ d.field = "len"
       \/ (d.field = "type" /\ d.unit = (IF d.file = "man" THEN NE + 1 ELSE NW)))

Init == hit = [file |-> "none", unit |-> 0, field |-> "none"]
Corrupt == hit.file = "none" /\ \E d \in Damage : Allowed(d) /\ hit' = d
Next == Corrupt
Spec == Init /\ [][Next]_hit

---------------------------------------------------------------------------
(* what a log reader delivers from n records when record u has field f damaged:
   a sequence of record ids, plus a flag "lost records before the end" *)

\* effect of the damage on the single record u as the reader sees it
\*  "ok"       delivered
\*  "dropped"  recognised as damaged and dropped (checksum mismatch, orphan fragment)
\*  "eof"      looks like the end of the log (length runs past the end of the file, or the type
\*             byte says First so that the record looks unfinished)
\*  "spliced"  delivered together with garbage
RecordFate(n, u, f) ==
  CASE f \in {"crc", "payload"} -> "dropped"
    [] HeaderProtected -> "dropped"
    \* a wrong extent inside the file fails the checksum; one that runs past the end of the file
    \* is taken for an unfinished record, i.e. the end of the log (the worse case is modelled)
    [] f = "len" -> "eof"
    [] f = "type" -> IF Bug_SpliceFragments THEN "spliced"
                     ELSE IF u = n THEN "eof" ELSE "droppedmid"
    [] OTHER -> "ok"

\* records delivered, and whether the reader noticed damage before the end
Delivered(n, u, fate) ==
  CASE fate = "ok" -> [ids |-> 1..n, noticed |-> FALSE, garbage |-> FALSE]
    [] fate = "eof" -> [ids |-> 1..(u - 1), noticed |-> FALSE, garbage |-> FALSE]
    [] fate = "spliced" -> [ids |-> (1..n) \ {u}, noticed |-> FALSE, garbage |-> TRUE]
    [] OTHER -> [ids |-> (1..n) \ {u}, noticed |-> ~(Bug_OrphanNotNoticed /\ fate = "droppedmid"),
                 garbage |-> FALSE]

---------------------------------------------------------------------------
(* the store served after opening the image: "error" or the set of batches.  Edit e (manifest
   record e+1) installs table e holding batch e; the WAL holds batches NE+1 .. NE+NW *)

AllBatches == 1..(NE + NW)

Err == [kind |-> "error", ids |-> {}]
Garbage == [kind |-> "garbage", ids |-> {}]
Store(S) == [kind |-> "store", ids |-> S]

Outcome ==
  IF hit.file = "none" THEN Store(AllBatches)
  ELSE IF hit.file = "man"
  THEN LET d == Delivered(NE + 1, hit.unit, RecordFate(NE + 1, hit.unit, hit.field)) IN
       IF d.garbage THEN Garbage
       ELSE IF d.noticed /\ ~Bug_ManifestSkipsDamaged THEN Err
       ELSE IF 1 \notin d.ids THEN Err     \* no usable manifest record
       ELSE Store({e - 1 : e \in d.ids \ {1}} \cup (NE + 1)..(NE + NW))
  ELSE IF hit.file = "wal"
  THEN LET d == Delivered(NW, hit.unit, RecordFate(NW, hit.unit, hit.field)) IN
       IF d.garbage THEN Garbage
       ELSE Store((1..NE) \cup {NE + w : w \in d.ids})
  ELSE \* a table block or footer
       IF hit.field = "footer" \/ ~Bug_NoBlockCrc THEN Err ELSE Garbage

\* C15
NoInvention ==
  \/ Outcome.kind = "error"
  \/ /\ Outcome.kind = "store"
     /\ IF hit.file # "none" /\ hit.file = "wal"
        THEN (1..NE) \subseteq Outcome.ids /\ Outcome.ids \subseteq AllBatches
        ELSE Outcome.ids = AllBatches
=============================================================================
