SPECIFICATION Spec
CONSTANTS
  NE = 3
  NW = 3
  HeaderProtected = FALSE
  Bug_NoBlockCrc = FALSE
  Bug_ManifestSkipsDamaged = FALSE
  Bug_SpliceFragments = FALSE
  Bug_OrphanNotNoticed = FALSE
  ExcludeTailHeader = TRUE
INVARIANTS NoInvention
CHECK_DEADLOCK FALSE
