SPECIFICATION Spec
CONSTANTS
  Block = 16
  Hdr = 3
  Lens <- MCLensFew
  Fillers <- MCNoFiller
  MaxRecs = 4
  MaxReopen = 2
  MaxStop = 2
  MaxTrunc = 1
  TruncAll = TRUE
  AllowEagerPad = TRUE
  Bug_TrailerThresholdOffByOne = FALSE
  Bug_NoOffsetRestoreOnReopen = FALSE
  Bug_ReaderSplicesFragments = FALSE
  Bug_ReaderStopsAfterPartial = FALSE
INVARIANTS TypeOK WriterPosition RoundTrip PrefixSafe ExpectedSane
CHECK_DEADLOCK FALSE
