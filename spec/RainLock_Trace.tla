--------------------------- MODULE RainLock_Trace ---------------------------
(***************************************************************************)
(* Trace validation of REAL runs of raindb's open / close (Drop) / destroy  *)
(* on one path of a disk-backed filesystem (harness driver `lockfmt`)       *)
(* against the lock discipline of RainLock (C17).                           *)
(*                                                                         *)
(* The calls are made by real threads, so the trace is a concurrent        *)
(* history: a Call line when a call starts, a Ret line when it has          *)
(* returned; the line order is the order of these instants (sequence       *)
(* numbers taken under one mutex in the harness).  The specification       *)
(* decides whether SOME placement of the calls' lock operations inside     *)
(* their call/return intervals explains every observed result.  The lock   *)
(* operations are the atomic steps of RainLock:                             *)
(*     open    : one try-lock; ok iff nobody holds the lock, then the       *)
(*               handle holds it until its close releases it                *)
(*     close   : one release                                                *)
(*     destroy : one try-lock, failing iff somebody holds the lock; if it   *)
(*               succeeds the destroy holds the lock for a while and lets   *)
(*               go (two steps)                                             *)
(* `confs` is the set of all configurations [own, ph] (who holds the lock,  *)
(* how far each pending call has got) that are consistent with everything   *)
(* seen so far; a Ret keeps the configurations in which that call could     *)
(* have produced the observed result.  If none is left the observation     *)
(* contradicts the lock discipline: a violation record is added to `viol`   *)
(* (violations ACCUMULATE, they never block the replay) and the replay      *)
(* continues with the observed result forced into the configurations.      *)
(*                                                                         *)
(* Forced schedules: `Gate` lines say that a pending call is parked at a    *)
(* known place (pre: before any of its lock operations; ~pre: after its     *)
(* try-lock has succeeded) and cannot move until the matching               *)
(* `Gate held=false` line.                                                  *)
(*                                                                         *)
(* A line that no action accepts is a defect of the machinery: the replay   *)
(* stops and the runner reports a tool error (@@REJECT), never a violation. *)
(***************************************************************************)
EXTENDS Naturals, Integers, Sequences, FiniteSets, TLC, Json, IOUtils, SequencesExt

Rec == ndJsonDeserialize(IOEnv.TRACE)

VARIABLES
  l,         \* next line of the trace
  viol,      \* accumulated violation records of the current run
  runInfo,   \* [run, seed, tag, seen, stale]: seen = background threads that have worked so far,
             \* stale = those that belong to an owner that has been replaced
  lastRound, \* kind of the scenario the current lines belong to
  pend,      \* pending lock calls: set of [c, op, h, line, frozen, sd]; sd = a destroy call
             \* was pending at some time during this call
  confs,     \* set of configurations [own : SUBSET Int, ph : [pending call ids -> phase],
             \* base : smallest probe key that must still be readable]
  held,      \* handles whose open returned ok and whose close has not returned: {[h, line, sd]}
             \* (sd: the open call overlapped a destroy call)
  nextKey,   \* 1 + largest probe key written
  lastList,  \* last directory listing
  listOk,    \* nothing that may change the files has returned since lastList was taken
  two        \* two handles are open at the same time (already reported)

vars == <<l, viol, runInfo, lastRound, pend, confs, held, nextKey, lastList, listOk, two>>

Ev == Rec[l]
IsEv(name) == l <= Len(Rec) /\ Rec[l].e = name

---------------------------------------------------------------------------
(* configurations and their closure under the lock operations of the pending calls *)

EmptyPh == [x \in {} |-> "n"]
Conf0 == [own |-> {}, ph |-> EmptyPh, base |-> 1]

\* phases: "n" nothing done yet, "h" (destroy) holds the lock, "ok" / "fl" all lock operations
\* done with success / failure
Movable(cf, P) == {p \in P : ~p.frozen /\ cf.ph[p.c] \in {"n", "h"}}

\* nk = the next probe key at the time of the step: a destroy that takes the lock removes every
\* key written so far
StepOf(cf, p, nk) ==
  LET ph == cf.ph[p.c] IN
  CASE p.op = "open" ->
         IF cf.own = {}
         THEN [cf EXCEPT !.own = {p.h}, !.ph[p.c] = "ok"]
         ELSE [cf EXCEPT !.ph[p.c] = "fl"]
    [] p.op = "close" ->
         [cf EXCEPT !.own = cf.own \ {p.h}, !.ph[p.c] = "ok"]
    [] p.op = "destroy" /\ ph = "n" ->
         IF cf.own = {}
         THEN [cf EXCEPT !.own = {0 - p.c}, !.ph[p.c] = "h", !.base = nk]
         ELSE [cf EXCEPT !.ph[p.c] = "fl"]
    [] OTHER ->   \* destroy, "h": let go
         [cf EXCEPT !.own = cf.own \ {0 - p.c}, !.ph[p.c] = "ok"]

Succs(cf, P, nk) == {StepOf(cf, p, nk) : p \in Movable(cf, P)}

RECURSIVE Reach(_, _, _, _)
Reach(seen, front, P, nk) ==
  IF front = {} THEN seen
  ELSE LET nxt == (UNION {Succs(cf, P, nk) : cf \in front}) \ seen IN
       Reach(seen \cup nxt, nxt, P, nk)

\* `confs` is kept closed: it is closed again after every line
Closure(S, P, nk) == Reach(S, S, P, nk)

\* forget a returned call
DropCall(cf, c) == [cf EXCEPT !.ph = [x \in (DOMAIN cf.ph) \ {c} |-> cf.ph[x]]]

\* the observed result of call p, imposed on a configuration regardless of the rules
Force(cf, p, won) ==
  [cf EXCEPT !.own = (cf.own \ {p.h, 0 - p.c}) \cup (IF won THEN {p.h} ELSE {}),
             !.ph = [x \in (DOMAIN cf.ph) \ {p.c} |-> cf.ph[x]]]

PendOf(c) == CHOOSE p \in pend : p.c = c
IsPending(c) == \E p \in pend : p.c = c

---------------------------------------------------------------------------
(* violation records *)

\* taint: a handle that was opened while a destroy call was in progress is open right now.  (At
\* the pinned commit destroy_database unlocks LOCK and then unlinks it, so such a handle may
\* hold its lock on an unlinked file; the field lets the runner tell consequences of that from
\* anything else.)
V(props, check, keys, at) ==
  <<[props |-> props, check |-> check, line |-> l, after |-> lastRound,
     taint |-> (\E x \in held : x.sd),
     detail |-> [keys |-> keys, at |-> at]]>>

C17(check, keys, at) == V(<<"C17">>, check, keys, at)
Info(check, keys, at) == V(<<"INFO">>, check, keys, at)

HeldNow(H, P) == {x.h : x \in H} \ {p.h : p \in {q \in P : q.op = "close"}}

\* report two simultaneously open handles once, when it begins
TwoCheck(H, P) ==
  IF Cardinality(HeldNow(H, P)) >= 2 /\ ~two
  THEN C17("TwoOwners", SetToSeq(HeldNow(H, P)), 0) ELSE <<>>

---------------------------------------------------------------------------
(* run boundaries *)

Fresh ==
  /\ pend' = {} /\ confs' = {Conf0} /\ held' = {} /\ nextKey' = 1
  /\ lastList' = <<>> /\ listOk' = FALSE /\ two' = FALSE /\ lastRound' = "none"

TraceInit ==
  /\ l = 1 /\ viol = <<>> /\ runInfo = [run |-> 0, seed |-> 0, tag |-> "", seen |-> {}, stale |-> {}]
  /\ lastRound = "none" /\ pend = {} /\ confs = {Conf0} /\ held = {} /\ nextKey = 1
  /\ lastList = <<>> /\ listOk = FALSE /\ two = FALSE

Report ==
  PrintT(<<"@@RUN", ToJson([run |-> runInfo.run, seed |-> runInfo.seed, tag |-> runInfo.tag,
                            lines |-> l, viol |-> viol])>>)

TReset ==
  /\ IsEv("Reset")
  /\ IF runInfo.run = 0 THEN TRUE ELSE Report
  /\ Fresh
  /\ l' = l + 1 /\ viol' = <<>>
  /\ runInfo' = [run |-> Ev.run, seed |-> Ev.seed, tag |-> Ev.tag, seen |-> {}, stale |-> {}]

TEnd ==
  /\ IsEv("End")
  /\ Report
  /\ PrintT(<<"@@END", l>>)
  /\ l' = l + 1
  /\ UNCHANGED <<viol, runInfo, lastRound, pend, confs, held, nextKey, lastList, listOk, two>>

TRound ==
  /\ IsEv("Round")
  /\ lastRound' = Ev.kind
  /\ l' = l + 1
  /\ UNCHANGED <<viol, runInfo, pend, confs, held, nextKey, lastList, listOk, two>>

---------------------------------------------------------------------------
(* calls *)

LockOps == {"open", "close", "destroy"}

TCall ==
  /\ IsEv("Call") /\ Ev.op \in LockOps
  /\ ~IsPending(Ev.c)
  /\ LET new == [c |-> Ev.c, op |-> Ev.op, h |-> Ev.h, line |-> l, frozen |-> FALSE,
                 seen |-> runInfo.seen,
                 sd |-> (Ev.op = "destroy" \/ \E q \in pend : q.op = "destroy")]
         P2 == (IF Ev.op = "destroy" THEN {[q EXCEPT !.sd = TRUE] : q \in pend} ELSE pend)
               \cup {new} IN
     /\ pend' = P2
     /\ confs' = Closure({[cf EXCEPT !.ph = (Ev.c :> "n") @@ cf.ph] : cf \in confs}, P2, nextKey)
  /\ l' = l + 1
  /\ UNCHANGED <<viol, runInfo, lastRound, held, nextKey, lastList, listOk, two>>

TProbeCall ==
  /\ IsEv("Call") /\ Ev.op = "probe"
  /\ nextKey' = IF Ev.k + 1 > nextKey THEN Ev.k + 1 ELSE nextKey
  /\ listOk' = FALSE
  /\ l' = l + 1
  /\ UNCHANGED <<viol, runInfo, lastRound, pend, confs, held, lastList, two>>

\* the running instance, used through handle h: the fresh key and every earlier key that no
\* destroy can have removed must be there with the right value
TProbeRet ==
  /\ IsEv("Ret") /\ Ev.op = "probe"
  /\ LET k == Ev.lo + Len(Ev.vals)
         Lost(b) == {j \in 1..Len(Ev.vals) : Ev.lo + j - 1 >= b /\ Ev.vals[j] # Ev.lo + j - 1}
         good == {cf \in confs : Lost(cf.base) = {}}
         maxb == CHOOSE b \in {cf.base : cf \in confs} : \A cf \in confs : b >= cf.base
         bad == ~Ev.ok \/ Ev.got # k \/ good = {} IN
     /\ viol' = viol \o (IF bad
                         THEN C17("OwnerDisturbed",
                                  <<Ev.h, k, Ev.got>> \o SetToSeq({Ev.lo + j - 1 : j \in Lost(maxb)}),
                                  maxb)
                         ELSE <<>>)
     \* what was read tells which of the possible pasts is the real one
     /\ confs' = IF good # {} THEN good ELSE confs
  /\ listOk' = FALSE
  /\ l' = l + 1
  /\ UNCHANGED <<runInfo, lastRound, pend, held, nextKey, lastList, two>>

\* ---- open

TOpenRet ==
  /\ IsEv("Ret") /\ Ev.op = "open" /\ IsPending(Ev.c)
  /\ LET p == PendOf(Ev.c)
         C1 == confs
         want == IF Ev.ok THEN "ok" ELSE "fl"
         C2 == {cf \in C1 : cf.ph[p.c] = want}
         \* an open that failed with something else than "lock is held" while a destroy was
         \* running: the destroy may have removed what the open had prepared; reported, not judged
         excused == ~Ev.ok /\ ~Ev.lockerr /\ p.sd
         legal == C2 # {}
         P2 == pend \ {p}
         H2 == IF Ev.ok THEN held \cup {[h |-> p.h, line |-> l, sd |-> p.sd]} ELSE held
         \* the other handle's open returned after this call had started: they raced
         raced == \E x \in held : x.line > p.line
         v1 == IF legal \/ excused THEN <<>>
               ELSE IF Ev.ok
               THEN C17(IF raced THEN "MoreThanOneWinner" ELSE "IntruderSucceeded",
                        <<p.h>> \o SetToSeq({x.h : x \in held}), p.line)
               ELSE C17("NoWinnerAfterClose", <<p.h>>, p.line)
         v2 == IF ~Ev.ok /\ ~Ev.lockerr THEN Info("OpenFailedNotByLock", <<p.h>>, p.line) ELSE <<>> IN
     /\ confs' = Closure(IF legal THEN {DropCall(cf, p.c) : cf \in C2}
                         ELSE {Force(cf, p, Ev.ok) : cf \in C1}, P2, nextKey)
     /\ pend' = P2
     /\ held' = H2
     /\ viol' = ((viol \o v1) \o v2) \o TwoCheck(H2, P2)
     /\ two' = (Cardinality(HeldNow(H2, P2)) >= 2)
     /\ listOk' = (listOk /\ ~Ev.ok /\ Ev.lockerr)
     \* every background thread that worked before this open was called belongs to an earlier
     \* owner: once this open has succeeded, that owner must have stopped
     /\ runInfo' = IF Ev.ok THEN [runInfo EXCEPT !.stale = @ \cup p.seen] ELSE runInfo
  /\ l' = l + 1
  /\ UNCHANGED <<lastRound, nextKey, lastList>>

\* ---- close (Drop): always returns; releases the lock somewhere inside its interval

TCloseRet ==
  /\ IsEv("Ret") /\ Ev.op = "close" /\ IsPending(Ev.c)
  /\ LET p == PendOf(Ev.c)
         C1 == confs
         C2 == {cf \in C1 : cf.ph[p.c] = "ok"}
         P2 == pend \ {p}
         H2 == {x \in held : x.h # p.h} IN
     /\ confs' = Closure(IF C2 # {} THEN {DropCall(cf, p.c) : cf \in C2}
                         ELSE {Force(cf, p, FALSE) : cf \in C1}, P2, nextKey)
     /\ pend' = P2
     /\ held' = H2
     /\ two' = (Cardinality(HeldNow(H2, P2)) >= 2)
  /\ listOk' = FALSE
  /\ l' = l + 1
  /\ UNCHANGED <<viol, runInfo, lastRound, nextKey, lastList>>

\* ---- destroy
\* ok                      : took the lock (nobody held it) and let go
\* error "lock is held"    : the try-lock failed, nothing was touched
\* any other error         : it may or may not have had the lock and may have deleted something:
\*                           reported (INFO), the contents are unknown from here on

TDestroyRet ==
  /\ IsEv("Ret") /\ Ev.op = "destroy" /\ IsPending(Ev.c)
  /\ LET p == PendOf(Ev.c)
         C1 == confs
         other == ~Ev.ok /\ ~Ev.lockerr
         C2 == IF Ev.ok THEN {cf \in C1 : cf.ph[p.c] = "ok"}
               ELSE IF Ev.lockerr THEN {cf \in C1 : cf.ph[p.c] = "fl"}
               ELSE {cf \in C1 : cf.ph[p.c] \in {"n", "ok", "fl"}}
         legal == C2 # {}
         P2 == pend \ {p}
         v1 == IF legal THEN <<>>
               ELSE IF Ev.ok
               THEN C17("DestroySucceededWhileOpen", SetToSeq({x.h : x \in held}), p.line)
               ELSE Info("DestroyRefusedUnowned", <<>>, p.line)
         v2 == IF other THEN Info("DestroyFailedNotByLock", <<>>, p.line) ELSE <<>>
         \* after an unexplained outcome the contents are unknown
         Unk(cf) == IF other \/ ~legal THEN [cf EXCEPT !.base = nextKey] ELSE cf IN
     /\ confs' = Closure(IF legal THEN {Unk(DropCall(cf, p.c)) : cf \in C2}
                         ELSE {Unk(Force(cf, p, FALSE)) : cf \in C1}, P2, nextKey)
     /\ pend' = P2
     /\ viol' = (viol \o v1) \o v2
     /\ listOk' = (listOk /\ ~Ev.ok /\ Ev.lockerr)
  /\ l' = l + 1
  /\ UNCHANGED <<runInfo, lastRound, held, nextKey, lastList, two>>

\* the driver removed the whole directory by hand; nothing is open, nothing is pending
TWipe ==
  /\ IsEv("Wipe")
  /\ pend = {} /\ held = {}
  /\ confs' = {[own |-> {}, ph |-> EmptyPh, base |-> nextKey]}
  /\ listOk' = FALSE /\ two' = FALSE
  /\ l' = l + 1
  /\ UNCHANGED <<viol, runInfo, lastRound, pend, held, nextKey, lastList>>

---------------------------------------------------------------------------
(* forced schedules *)

TGate ==
  /\ IsEv("Gate") /\ IsPending(Ev.c)
  /\ LET p == PendOf(Ev.c) IN
     IF Ev.held
     THEN LET C1 == confs
              C2 == IF Ev.pre THEN {cf \in C1 : cf.ph[p.c] = "n"}
                    ELSE {cf \in C1 : cf.ph[p.c] \in {"h", "ok"}}
              legal == C2 # {} IN
          /\ pend' = (pend \ {p}) \cup {[p EXCEPT !.frozen = TRUE]}
          \* a destroy that got as far as unlinking LOCK has had (or still has) the lock
          /\ confs' = IF legal THEN C2
                      ELSE IF Ev.pre THEN C1
                      ELSE {[cf EXCEPT !.own = cf.own \ {0 - p.c}, !.ph[p.c] = "ok", !.base = nextKey] : cf \in C1}
          /\ viol' = viol \o (IF legal \/ Ev.pre THEN <<>>
                              ELSE IF p.op = "destroy"
                              THEN C17("DestroySucceededWhileOpen", SetToSeq({x.h : x \in held}), p.line)
                              ELSE C17("IntruderSucceeded", <<p.h>>, p.line))
     ELSE /\ pend' = (pend \ {p}) \cup {[p EXCEPT !.frozen = FALSE]}
          /\ confs' = Closure(confs, (pend \ {p}) \cup {[p EXCEPT !.frozen = FALSE]}, nextKey)
          /\ UNCHANGED viol
  /\ l' = l + 1
  /\ UNCHANGED <<runInfo, lastRound, held, nextKey, lastList, listOk, two>>

---------------------------------------------------------------------------
(* observations of the directory: a failed intruder changes nothing *)

TListing ==
  /\ IsEv("Listing")
  /\ viol' = viol \o (IF listOk /\ Ev.files # lastList
                      THEN C17("OwnerDisturbed", <<0, 0, 0>>, Len(Ev.files)) ELSE <<>>)
  /\ lastList' = Ev.files
  /\ listOk' = TRUE
  /\ l' = l + 1
  /\ UNCHANGED <<runInfo, lastRound, pend, confs, held, nextKey, two>>

\* a background thread of the database begins or ends a piece of work (logged under the
\* database mutex).  The lock is "released in Drop after background work stops": a thread of an
\* owner that has been replaced must not be working any more
TBgWork ==
  /\ IsEv("BgWork")
  /\ viol' = viol \o (IF Ev.tid \in runInfo.stale
                      THEN C17("OldOwnerStillWorking", <<Ev.tid>>, 0) ELSE <<>>)
  /\ runInfo' = [runInfo EXCEPT !.seen = @ \cup {Ev.tid}, !.stale = @ \ {Ev.tid}]
  /\ l' = l + 1
  /\ UNCHANGED <<lastRound, pend, confs, held, nextKey, lastList, listOk, two>>

\* the code under test panicked inside a call: neither an error nor a success
TPanic ==
  /\ IsEv("Panic")
  /\ viol' = viol \o V(<<"C17", "C09">>, "Panic", <<Ev.c>>, 0)
  /\ l' = l + 1
  /\ UNCHANGED <<runInfo, lastRound, pend, confs, held, nextKey, lastList, listOk, two>>

THang ==
  /\ IsEv("Hang")
  /\ viol' = viol \o C17("Hang", <<Ev.c>>, 0)
  /\ l' = l + 1
  /\ UNCHANGED <<runInfo, lastRound, pend, confs, held, nextKey, lastList, listOk, two>>

---------------------------------------------------------------------------
TraceNext ==
  \/ TReset \/ TEnd \/ TRound \/ TCall \/ TProbeCall \/ TProbeRet
  \/ TOpenRet \/ TCloseRet \/ TDestroyRet \/ TWipe \/ TGate \/ TListing \/ THang \/ TBgWork \/ TPanic

TraceSpec == TraceInit /\ [][TraceNext]_vars

\* the whole file was consumed
TraceAccepted ==
  LET d == TLCGet("stats").diameter IN
  IF d = Len(Rec) + 1 THEN TRUE
  ELSE Print(<<"@@REJECT", ToJson([matched |-> d - 1, total |-> Len(Rec),
                                   next |-> IF d <= Len(Rec) THEN Rec[d] ELSE Rec[Len(Rec)]])>>, FALSE)
=============================================================================
