SPECIFICATION FairSpec
CONSTANTS
  Callers = {"c1", "c2", "c3"}
  Work = 3
  Rotations = 3
  Bug_HoldRequestAcrossMerge = FALSE
  Bug_NotifyOne = FALSE
  Bug_NoRescheduleAtEnd = FALSE
INVARIANTS LockOrder SchedSane NoLostWaiter
PROPERTIES EveryCallReturns WorkerComesBack
CHECK_DEADLOCK TRUE
