--------------------------- MODULE RainLog_Trace ---------------------------
(***************************************************************************)
(* Trace validation of runs of the REAL LogWriter / LogReader (harness      *)
(* driver `logfmt`, wrappers raindb::verif::VLogWriter / VLogReader on      *)
(* SimFs) against RainLog.  Property C12.                                   *)
(*                                                                         *)
(* The module keeps RainLog's own model of the file, built only from what   *)
(* was ASKED of the writer (Open / Append lengths / Close / Stop /          *)
(* Truncate) with RainLog's writer arithmetic (EmitOne / AppendAll /        *)
(* ReopenOffset / CutFile), and compares with what the real code DID:       *)
(*   after every Open and Append: the real writer's block offset and the    *)
(*     real file length                      -> check WriterPositionWrong   *)
(*   Layout: the physical records and trailers the harness parsed from the  *)
(*     raw bytes (type, payload length, checksum, zero trailer)             *)
(*                                           -> check LayoutWrong           *)
(*   Read: the records the real reader returned, identified byte for byte   *)
(*     by the harness (id of the appended payload it equals, 0 if none)     *)
(*     against RainLog's oracle Expected = the appended records that are    *)
(*     completely present, in order                                         *)
(*       -> InventedRecord (a returned record equals no appended payload)   *)
(*          RoundTripWrong (nothing cut, no writer died)                    *)
(*          PrefixWrong    (cut file / record abandoned between fragments)  *)
(*   Sweep: a compact form for pure enumeration: n consecutive record       *)
(*     lengths at one starting block offset, one case each (fresh file,     *)
(*     filler, one Append, Layout, Read).                                   *)
(* Violations ACCUMULATE in `viol` and are printed per run (@@RUN); a line  *)
(* that no action accepts stops the replay (@@REJECT): that is a defect of  *)
(* the machinery, never a property violation.                               *)
(* The model reader is cross-checked on the way: ReadOf(file) must equal    *)
(* the oracle, otherwise a MODEL violation (tool error) is reported.        *)
(***************************************************************************)
EXTENDS RainLog, Json, IOUtils

Rec == ndJsonDeserialize(IOEnv.TRACE)

\* constants of RainLog that only its own Init/Next use (a .cfg cannot hold a negative number)
TraceFillers == {-1}

VARIABLES
  l,        \* next line of the trace
  viol,     \* accumulated violation records of the current run
  lastEv,   \* name of the last event consumed
  runInfo,  \* [run, seed, tag] of the current run
  sc        \* scenario number inside the run (logged by Open{append:false} and Sweep)

traceVars == <<l, viol, lastEv, runInfo, sc>>
allVars == <<vars, traceVars>>

Ev == Rec[l]
IsEv(name) == l <= Len(Rec) /\ Rec[l].e = name

V(props, check, keys, at) ==
  <<[props |-> props, check |-> check, line |-> l, after |-> lastEv,
     detail |-> [keys |-> keys, at |-> at]]>>

Step(name) == l' = l + 1 /\ lastEv' = name

SameOffset(a, b) == a % Block = b % Block

LayoutOf(f) == [i \in 1..Len(f) |-> <<f[i].type, f[i].len>>]

GotOf(recs) == [i \in 1..Len(recs) |-> [id |-> IF recs[i].ok THEN recs[i].id ELSE 0,
                                        len |-> recs[i].len]]

Invented(got, app) ==
  {i \in 1..Len(got) : \/ got[i].id = 0 \/ got[i].id > Len(app)
                       \/ got[i].len # app[got[i].id].len}

FirstDiff(a, b) ==
  LET n == IF Len(a) < Len(b) THEN Len(a) ELSE Len(b)
      D == {i \in 1..n : a[i] # b[i]} IN
  IF D = {} THEN n + 1 ELSE CHOOSE i \in D : \A j \in D : i <= j

Min(S) == CHOOSE x \in S : \A y \in S : x <= y

\* judgement of one read result against the model file f with appended records app
ReadViol(f, app, recs, undisturbed, tagKeys) ==
  LET got  == GotOf(recs)
      exp  == ExpectedOf(f, app)
      s    == Scan(f)
      want == ReadOf(f, app)
      inv  == Invented(got, app)
      m == IF ~s.sync \/ want # exp
           THEN V(<<"MODEL">>, "ReaderModelDiffers", tagKeys, Len(want)) ELSE <<>>
      v == IF inv # {}
           THEN V(<<"C12">>, "InventedRecord",
                  tagKeys \o <<Min(inv), got[Min(inv)].len, Len(got), Len(exp)>>, Min(inv))
           ELSE IF got # exp
           THEN V(<<"C12">>, IF undisturbed THEN "RoundTripWrong" ELSE "PrefixWrong",
                  tagKeys \o <<Len(got), Len(exp)>>, FirstDiff(got, exp))
           ELSE <<>> IN
  m \o v

---------------------------------------------------------------------------
(* run boundaries *)

Fresh ==
  /\ file' = <<>> /\ woff' = 0 /\ fileLen' = 0 /\ wr' = "closed" /\ cur' = NoAppend
  /\ appended' = <<>> /\ base' = 0 /\ reopens' = 0 /\ stops' = 0 /\ truncated' = FALSE

TraceInit ==
  /\ file = <<>> /\ woff = 0 /\ fileLen = 0 /\ wr = "closed" /\ cur = NoAppend
  /\ appended = <<>> /\ base = 0 /\ reopens = 0 /\ stops = 0 /\ truncated = FALSE
  /\ l = 1 /\ viol = <<>> /\ lastEv = "none" /\ sc = 0
  /\ runInfo = [run |-> 0, seed |-> 0, tag |-> ""]

Report ==
  PrintT(<<"@@RUN", ToJson([run |-> runInfo.run, seed |-> runInfo.seed, tag |-> runInfo.tag,
                            lines |-> l, viol |-> viol])>>)

TReset ==
  /\ IsEv("Reset")
  /\ Ev.driver = "logfmt"
  /\ IF runInfo.run = 0 THEN TRUE ELSE Report
  /\ Fresh
  /\ l' = l + 1 /\ viol' = <<>> /\ lastEv' = "none" /\ sc' = 0
  /\ runInfo' = [run |-> Ev.run, seed |-> Ev.seed, tag |-> Ev.tag]

TEnd ==
  /\ IsEv("End")
  /\ Report
  /\ PrintT(<<"@@END", l>>)
  /\ l' = l + 1
  /\ UNCHANGED <<vars, viol, lastEv, runInfo, sc>>

---------------------------------------------------------------------------
(* the writer *)

PosViol(realWoff, realLen, modelWoff, modelLen, id) ==
  IF SameOffset(realWoff, modelWoff) /\ realLen = modelLen /\ realWoff \in 0..Block THEN <<>>
  ELSE V(<<"C12">>, "WriterPositionWrong", <<sc, id, realWoff, realLen, modelWoff, modelLen>>, sc)

\* LogWriter::new(.., false): a fresh file, a new scenario
TOpenNew ==
  /\ IsEv("Open") /\ ~Ev.append
  /\ file' = <<>> /\ fileLen' = 0 /\ woff' = 0 /\ wr' = "open" /\ cur' = NoAppend
  /\ appended' = <<>> /\ base' = 0 /\ reopens' = 0 /\ stops' = 0 /\ truncated' = FALSE
  /\ sc' = Ev.sc
  /\ viol' = viol \o (IF Ev.ok THEN <<>> ELSE V(<<"C12">>, "OpenFailed", <<Ev.sc>>, Ev.sc))
                  \o (IF Ev.ok /\ ~(Ev.woff = 0 /\ Ev.filelen = 0)
                      THEN V(<<"C12">>, "WriterPositionWrong", <<Ev.sc, 0, Ev.woff, Ev.filelen, 0, 0>>, Ev.sc)
                      ELSE <<>>)
  /\ Step("Open") /\ UNCHANGED runInfo

\* LogWriter::new(.., true)
TOpenAppend ==
  /\ IsEv("Open") /\ Ev.append
  /\ wr \in {"closed", "dead"} /\ ~truncated
  /\ wr' = "open" /\ woff' = ReopenOffset(fileLen) /\ reopens' = reopens + 1
  /\ viol' = viol \o (IF Ev.ok THEN PosViol(Ev.woff, Ev.filelen, ReopenOffset(fileLen), fileLen, 0)
                      ELSE V(<<"C12">>, "OpenFailed", <<sc>>, sc))
  /\ Step("Reopen")
  /\ UNCHANGED <<file, fileLen, cur, appended, base, stops, truncated, runInfo, sc>>

TAppend ==
  /\ IsEv("Append")
  /\ wr = "open" /\ Ev.id = Len(appended) + 1
  \* a writer may write the trailer of a block in which no header fits at once (RainLog.EagerPad)
  \* or at the start of the next append: adopt what the real writer did
  /\ LET r0 == AppendAll(file, woff, Ev.id, Ev.len, 1)
         r1 == PadTail(r0)
         r == IF Ev.ok /\ Ev.filelen_after = Total(r1.file) /\ Ev.filelen_after # Total(r0.file)
              THEN r1 ELSE r0
         n == Total(r.file) IN
     /\ file' = r.file /\ woff' = r.woff /\ fileLen' = n
     /\ appended' = Append(appended, [id |-> Ev.id, len |-> Ev.len])
     /\ viol' = viol \o (IF Ev.ok THEN PosViol(Ev.woff_after, Ev.filelen_after, r.woff, n, Ev.id)
                         ELSE V(<<"C12">>, "AppendFailed", <<sc, Ev.id, Ev.len>>, sc))
  /\ Step("Append")
  /\ UNCHANGED <<wr, cur, base, reopens, stops, truncated, runInfo, sc>>

TClose ==
  /\ IsEv("Close")
  /\ wr = "open"
  /\ wr' = "closed"
  /\ Step("Close")
  /\ UNCHANGED <<file, woff, fileLen, cur, appended, base, reopens, stops, truncated, viol, runInfo, sc>>

\* the writer of the last record died after its fragment number after_frag reached the file (the
\* harness cut the real file at the byte it computed; the model removes the later fragments)
TStop ==
  /\ IsEv("Stop")
  /\ wr = "open" /\ appended # <<>>
  /\ LET r == Len(appended)
         K == {i \in 1..Len(file) : IsFrag(file[i]) /\ file[i].rec = r /\ file[i].frag = Ev.after_frag
                                    /\ file[i].type \in {First, Middle}} IN
     /\ K # {}
     /\ LET k == CHOOSE i \in K : TRUE
            f == SubSeq(file, 1, k) IN
        /\ file' = f /\ fileLen' = Total(f)
        /\ viol' = viol \o (IF Ev.n = Total(f) THEN <<>>
                            ELSE V(<<"BIND">>, "StopOffsetDiffers", <<sc, Ev.n, Total(f)>>, sc))
  /\ wr' = "dead" /\ stops' = stops + 1
  /\ Step("Stop")
  /\ UNCHANGED <<woff, cur, appended, base, reopens, truncated, runInfo, sc>>

\* the file is cut to n bytes (cuts of one scenario come in descending order)
TTruncate ==
  /\ IsEv("Truncate")
  /\ wr \in {"closed", "dead"}
  \* the driver cuts the REAL file; if that is longer than what the model says was written, the
  \* writer put bytes on disk the format does not account for (reported, not blocking)
  /\ LET n == IF Ev.n > fileLen THEN fileLen ELSE Ev.n IN
     /\ file' = CutFile(file, n) /\ fileLen' = n
  /\ truncated' = TRUE /\ wr' = "dead"
  /\ viol' = viol \o (IF Ev.n > fileLen
                      THEN V(<<"C12">>, "FileLongerThanWritten", <<sc, Ev.n, fileLen>>, 0) ELSE <<>>)
  /\ Step("Truncate")
  /\ UNCHANGED <<woff, cur, appended, base, reopens, stops, runInfo, sc>>

---------------------------------------------------------------------------
(* observations *)

LayoutViol(f, items, zero, crc, flen, tagKeys) ==
  IF items = LayoutOf(f) /\ zero /\ crc /\ flen = Total(f) THEN <<>>
  ELSE V(<<"C12">>, "LayoutWrong", tagKeys \o <<flen, Total(f), FirstDiff(items, LayoutOf(f))>>,
         FirstDiff(items, LayoutOf(f)))

TLayout ==
  /\ IsEv("Layout")
  /\ viol' = viol \o LayoutViol(file, Ev.items, Ev.zero, Ev.crc, Ev.filelen, <<sc>>)
  /\ Step(lastEv)
  /\ UNCHANGED <<vars, runInfo, sc>>

TRead ==
  /\ IsEv("Read")
  /\ wr \in {"closed", "dead"}
  /\ viol' = viol \o ReadViol(file, appended, Ev.recs, ~truncated /\ stops = 0, <<sc, fileLen>>)
  /\ Step(lastEv)
  /\ UNCHANGED <<vars, runInfo, sc>>

\* enumeration: cases i = 1..n, record length from + i - 1 appended at block offset `off`
\* (off = 0: empty file; otherwise after one filler record of off - Hdr bytes)
SweepCase(i) ==
  LET b   == IF Ev.off = 0 THEN [file |-> <<>>, woff |-> 0]
             ELSE AppendAll(<<>>, 0, 1, Ev.off - Hdr, 1)
      app0 == IF Ev.off = 0 THEN <<>> ELSE <<[id |-> 1, len |-> Ev.off - Hdr]>>
      id  == Len(app0) + 1
      len == Ev.from + i - 1
      r0  == AppendAll(b.file, b.woff, id, len, 1)
      r1  == PadTail(r0)
      r   == IF Ev.flens[i] = Total(r1.file) /\ Ev.flens[i] # Total(r0.file) THEN r1 ELSE r0
      app == Append(app0, [id |-> id, len |-> len])
      n   == Total(r.file)
      tag == <<Ev.sc, Ev.off, len>>
      p == IF SameOffset(Ev.woffs[i], r.woff) /\ Ev.flens[i] = n /\ Ev.woffs[i] \in 0..Block THEN <<>>
           ELSE V(<<"C12">>, "WriterPositionWrong", tag \o <<Ev.woffs[i], Ev.flens[i], r.woff, n>>, Ev.sc)
      q == IF b.woff = Ev.off THEN <<>>
           ELSE V(<<"BIND">>, "SweepStartDiffers", tag \o <<b.woff>>, Ev.sc)
      y == LayoutViol(r.file, Ev.lays[i], Ev.zeros[i], Ev.crcs[i], Ev.flens[i], tag) IN
  ((q \o p) \o y) \o ReadViol(r.file, app, Ev.reads[i], TRUE, tag)

RECURSIVE SweepViol(_, _)
SweepViol(i, acc) ==
  IF i > Ev.n THEN acc
  ELSE LET v == SweepCase(i) IN
       \* keep the report small: at most 4 violation records per Sweep line
       SweepViol(i + 1, IF Len(acc) < 4 THEN acc \o v ELSE acc)

TSweep ==
  /\ IsEv("Sweep")
  /\ Ev.off = 0 \/ Ev.off \in Hdr..(Block - 1)
  /\ Len(Ev.woffs) = Ev.n /\ Len(Ev.flens) = Ev.n /\ Len(Ev.reads) = Ev.n /\ Len(Ev.lays) = Ev.n
  /\ Len(Ev.zeros) = Ev.n /\ Len(Ev.crcs) = Ev.n
  /\ viol' = viol \o SweepViol(1, <<>>)
  /\ sc' = Ev.sc
  /\ Step("Sweep")
  /\ UNCHANGED <<vars, runInfo>>

\* the real code did not come back (watchdog)
THang ==
  /\ IsEv("Hang")
  /\ viol' = viol \o V(<<"C12", "C09">>, "Hang", <<sc>>, sc)
  /\ Step("Hang")
  /\ UNCHANGED <<vars, runInfo, sc>>

TPanic ==
  /\ IsEv("Panic")
  /\ viol' = viol \o V(<<"C12", "C09">>, "Panic", <<sc>>, sc)
  /\ Step("Panic")
  /\ UNCHANGED <<vars, runInfo, sc>>

---------------------------------------------------------------------------

TraceNext ==
  \/ TReset \/ TEnd \/ TOpenNew \/ TOpenAppend \/ TAppend \/ TClose \/ TStop \/ TTruncate
  \/ TLayout \/ TRead \/ TSweep \/ THang \/ TPanic

TraceSpec == TraceInit /\ [][TraceNext]_allVars

\* the whole file was consumed
TraceAccepted ==
  LET d == TLCGet("stats").diameter IN
  IF d = Len(Rec) + 1 THEN TRUE
  ELSE Print(<<"@@REJECT", ToJson([matched |-> d - 1, total |-> Len(Rec),
                                   next |-> IF d <= Len(Rec) THEN Rec[d] ELSE Rec[Len(Rec)]])>>, FALSE)
=============================================================================
