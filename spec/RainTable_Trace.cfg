SPECIFICATION TraceSpec
CONSTANTS
  TNK = 0
  TMaxSeq = 0
  TMaxVer = 0
  TMaxLen = 0
  Bug_IndexMissMeansDeleted = FALSE
  Bug_SeekNoBlockAdvance = FALSE
  Bug_PrevStopsAtBlockStart = FALSE
  Bug_GetSkipsKeyCheck = FALSE
  Bug_SeparatorInsideKey = FALSE
  FRange = 2048
  FKeys = {}
  FSteps = {}
  FMaxOff = 0
  FMaxBlocks = 0
  FalsePos = {}
  Bug_ReaderIndexOffByOne = FALSE
  Bug_NoFlushAtFinish = FALSE
  Bug_FilterAssignedToNextRange = FALSE
POSTCONDITION TraceAccepted
CHECK_DEADLOCK FALSE
