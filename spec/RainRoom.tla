------------------------------ MODULE RainRoom ------------------------------
(***************************************************************************)
(* Write stalls: DB::make_room_for_write against the background worker      *)
(* (src/db.rs make_room_for_write, should_schedule_compaction;             *)
(* src/compaction/worker.rs compaction_task / coordinate_compaction;        *)
(* src/versioning/version_set.rs needs_compaction).                         *)
(*                                                                         *)
(* A writer, holding the database mutex, loops:                             *)
(*   1. background error            -> fail                                 *)
(*   2. level 0 >= SLOWDOWN, once   -> release the mutex, sleep 1 ms        *)
(*   3. memtable has room           -> write                                *)
(*   4. immutable memtable pending  -> wait on the condition variable       *)
(*   5. level 0 >= STOP             -> wait on the condition variable       *)
(*   6. otherwise                   -> rotate the memtable, schedule worker *)
(* The worker task: a pending immutable memtable is flushed (the new table  *)
(* lands in level 0 or deeper); otherwise, if level 0 has reached the        *)
(* compaction trigger, level 0 is compacted away; at the end of every task  *)
(* it clears the scheduled flag, wakes everybody and schedules itself again *)
(* if there is still something to do.                                       *)
(*                                                                         *)
(* C09: under sustained writes that keep hitting memtable-full, slowdown    *)
(* and stop, every write returns and the worker comes to rest.              *)
(*                                                                         *)
(* Named deviations:                                                       *)
(*   Bug_NoRescheduleForLevel0  at its end the worker looks only at the     *)
(*                              immutable memtable, not at level 0          *)
(*   Bug_FlushDoesNotWake       the task that flushed does not notify       *)
(*   Bug_RotateDoesNotSchedule  rotation does not schedule the worker       *)
(*   Bug_StopBelowTrigger       the stop threshold is below the compaction  *)
(*                              trigger (constants swapped)                 *)
(***************************************************************************)
EXTENDS Naturals, FiniteSets, TLC

CONSTANTS Writers, NWrites, Trigger, Slowdown, Stop,
          Bug_NoRescheduleForLevel0, Bug_FlushDoesNotWake, Bug_RotateDoesNotSchedule,
          Bug_StopBelowTrigger,
          Bug_EmptyMemtableFull   \* a memtable limit below the footprint of an EMPTY memtable: the fresh
                                  \* memtable of a rotation counts as full at once (raindb before b5a962e)

BG == "bg"
None == "none"
StopAt == IF Bug_StopBelowTrigger THEN Trigger - 1 ELSE Stop

VARIABLES lock, pc, left, delayOK, memFull, imm, l0, bgSched, chan, waiting

vars == <<lock, pc, left, delayOK, memFull, imm, l0, bgSched, chan, waiting>>

Init ==
  /\ lock = None /\ pc = [p \in Writers \cup {BG} |-> IF p = BG THEN "recv" ELSE "start"]
  /\ left = [w \in Writers |-> NWrites] /\ delayOK = [w \in Writers |-> TRUE]
  /\ memFull = FALSE /\ imm = FALSE /\ l0 = 0 /\ bgSched = FALSE /\ chan = 0 /\ waiting = {}

Goto(p, l) == pc' = [pc EXCEPT ![p] = l]
NeedsWork(im, n) == im \/ n >= Trigger

---------------------------------------------------------------------------
WStart(w) ==
  /\ pc[w] = "start" /\ left[w] > 0 /\ lock = None /\ lock' = w
  /\ delayOK' = [delayOK EXCEPT ![w] = TRUE] /\ Goto(w, "room")
  /\ UNCHANGED <<left, memFull, imm, l0, bgSched, chan, waiting>>

WRoom(w) ==
  /\ pc[w] = "room" /\ lock = w
  /\ IF delayOK[w] /\ l0 >= Slowdown
     THEN \* sleep 1 ms without the mutex, at most once per write
          /\ lock' = None /\ Goto(w, "slept") /\ delayOK' = [delayOK EXCEPT ![w] = FALSE]
          /\ UNCHANGED <<left, memFull, imm, bgSched, chan, waiting>>
     ELSE IF ~memFull
     THEN \* the write itself: it may or may not fill the memtable
          /\ \E full \in BOOLEAN : memFull' = full
          /\ left' = [left EXCEPT ![w] = @ - 1]
          /\ lock' = None /\ Goto(w, "start")
          /\ UNCHANGED <<delayOK, imm, bgSched, chan, waiting>>
     ELSE IF imm \/ l0 >= StopAt
     THEN /\ waiting' = waiting \cup {w} /\ lock' = None /\ Goto(w, "parked")
          /\ UNCHANGED <<left, delayOK, memFull, imm, bgSched, chan>>
     ELSE \* rotate
          /\ imm' = TRUE /\ memFull' = Bug_EmptyMemtableFull
          /\ IF ~bgSched /\ ~Bug_RotateDoesNotSchedule
             THEN bgSched' = TRUE /\ chan' = chan + 1 ELSE UNCHANGED <<bgSched, chan>>
          /\ UNCHANGED <<lock, pc, left, delayOK, waiting>>
  /\ UNCHANGED l0

WSlept(w) ==
  /\ pc[w] = "slept" /\ lock = None /\ lock' = w /\ Goto(w, "room")
  /\ UNCHANGED <<left, delayOK, memFull, imm, l0, bgSched, chan, waiting>>

WWake(w) ==
  /\ pc[w] = "parked" /\ w \notin waiting /\ lock = None /\ lock' = w /\ Goto(w, "room")
  /\ UNCHANGED <<left, delayOK, memFull, imm, l0, bgSched, chan, waiting>>

---------------------------------------------------------------------------
BRecv ==
  /\ pc[BG] = "recv" /\ chan > 0 /\ chan' = chan - 1 /\ lock = None /\ lock' = BG /\ Goto(BG, "work")
  /\ UNCHANGED <<left, delayOK, memFull, imm, l0, bgSched, waiting>>

\* one task: flush, or compact level 0 (both release the mutex for the file work; modelled as one
\* step each since nothing else depends on the interval here - RainConc / RainManual do that part)
BWork ==
  /\ pc[BG] = "work" /\ lock = BG
  /\ IF imm
     THEN /\ imm' = FALSE
          /\ \E d \in {0, 1} : l0' = l0 + d       \* the table lands in level 0 or deeper
          /\ waiting' = IF Bug_FlushDoesNotWake THEN waiting ELSE {}
          /\ Goto(BG, IF Bug_FlushDoesNotWake THEN "endquiet" ELSE "end")
     ELSE IF l0 >= Trigger
     THEN /\ l0' = 0 /\ UNCHANGED <<imm, waiting>> /\ Goto(BG, "end")
     ELSE /\ UNCHANGED <<imm, l0, waiting>> /\ Goto(BG, "end")
  /\ UNCHANGED <<lock, left, delayOK, memFull, bgSched, chan>>

BEnd ==
  /\ pc[BG] \in {"end", "endquiet"} /\ lock = BG
  /\ waiting' = IF pc[BG] = "endquiet" THEN waiting ELSE {}
  /\ IF (IF Bug_NoRescheduleForLevel0 THEN imm ELSE NeedsWork(imm, l0))
     THEN bgSched' = TRUE /\ chan' = chan + 1
     ELSE bgSched' = FALSE /\ UNCHANGED chan
  /\ lock' = None /\ Goto(BG, "recv")
  /\ UNCHANGED <<left, delayOK, memFull, imm, l0>>

AllDone == (\A w \in Writers : left[w] = 0 /\ pc[w] = "start") /\ pc[BG] = "recv" /\ chan = 0
Finished == AllDone /\ UNCHANGED vars

Next ==
  \/ \E w \in Writers : WStart(w) \/ WRoom(w) \/ WSlept(w) \/ WWake(w)
  \/ BRecv \/ BWork \/ BEnd
  \/ Finished

Spec == Init /\ [][Next]_vars
FairSpec == Spec /\ (\A w \in Writers : WF_vars(WStart(w) \/ WRoom(w) \/ WSlept(w) \/ WWake(w)))
                 /\ WF_vars(BRecv \/ BWork \/ BEnd)

---------------------------------------------------------------------------
SchedSane == bgSched <=> (chan > 0 \/ pc[BG] # "recv")
\* nobody sleeps on the condition variable while nothing is scheduled that would wake them
NoLostWaiter == (waiting # {}) => (bgSched \/ lock # None)
\* whenever there is work, the worker is scheduled (once the mutex is free)
WorkIsScheduled == (lock = None /\ NeedsWork(imm, l0)) => bgSched
Level0Bounded == l0 <= Stop + 1
EveryWriteReturns == <>(\A w \in Writers : left[w] = 0)
WorkerRests == <>[](pc[BG] = "recv" /\ chan = 0)
=============================================================================
