------------------------------ MODULE RainIter ------------------------------
(***************************************************************************)
(* The iterator stack of raindb, transcribed from the code:                 *)
(*   MergingIterator::{seek, seek_to_first, seek_to_last, next, prev}       *)
(*     (src/versioning/file_iterators.rs) - k-way merge over child cursors  *)
(*     with an explicit direction and re-positioning of the non-current     *)
(*     children on a direction change;                                      *)
(*   DatabaseIterator::{seek, seek_to_first, seek_to_last, next, prev,      *)
(*     find_next_client_entry, find_prev_client_entry} (src/iterator.rs) -  *)
(*     collapse of internal entries to the user-visible entries at a        *)
(*     snapshot sequence (skip newer-than-snapshot, tombstones hide older   *)
(*     entries, the backward direction caches the entry).                   *)
(* Children are sorted runs of entries <<k, s, o>> (memtable, level-0       *)
(* files, deeper levels); the value of a put is its sequence number.        *)
(*                                                                         *)
(* Property C04 (CursorOK): after ANY sequence of cursor operations the     *)
(* iterator is positioned exactly where a cursor over the sorted map of     *)
(* visible entries would be.  TLC explores every layout (every subset of    *)
(* `Entries`, every distribution over NC children, every snapshot) and      *)
(* every operation sequence up to MaxOps.                                   *)
(***************************************************************************)
EXTENDS Naturals, Sequences, FiniteSets, TLC

CONSTANTS
  Entries,   \* candidate entries <<k, s, o>>, sequence numbers pairwise different
  NK,        \* user keys 1..NK (seek targets include NK + 1 = past the end)
  NC,        \* number of child cursors
  MaxS,      \* snapshots 0..MaxS
  MaxOps,    \* length of operation sequences
  \* named deviations
  Bug_NoReseekOnDirectionChange,  \* next/prev after a reversal do not re-position the other children
  Bug_TombstoneNotRemembered,     \* forward scan forgets which key a tombstone hides
  Bug_PrevIgnoresSnapshot,        \* backward scan does not skip entries newer than the snapshot
  Bug_PrevStopsAtOldestVersion    \* backward scan returns the first put it meets (the oldest version)

VARIABLES
  child,     \* child[c] = sorted sequence of entries
  snap,      \* the iterator's sequence number
  \* MergingIterator
  pos,       \* pos[c] in 0..Len(child[c]); 0 = child cursor invalid
  mdir,      \* "F" | "B"
  cur,       \* index of the current child or 0
  \* DatabaseIterator
  ddir, valid, ckey, cval,   \* direction, validity, cached user key (0 = none), cached value
  \* abstract cursor and bookkeeping
  apos, nops

vars == <<child, snap, pos, mdir, cur, ddir, valid, ckey, cval, apos, nops>>

Children == 1..NC
ILess(a, b) == a[1] < b[1] \/ (a[1] = b[1] /\ a[2] > b[2])

RECURSIVE SortRun(_)
SortRun(S) ==
  IF S = {} THEN <<>>
  ELSE LET m == CHOOSE x \in S : \A y \in S : x = y \/ ILess(x, y) IN <<m>> \o SortRun(S \ {m})

\* the sorted map a user sees at `snap`
AllEntries == UNION {{child[c][i] : i \in 1..Len(child[c])} : c \in Children}
NewestVisible(k) ==
  LET C == {e \in AllEntries : e[1] = k /\ e[2] <= snap} IN
  IF C = {} THEN <<0, 0, 0>> ELSE CHOOSE e \in C : \A d \in C : d[2] <= e[2]
RECURSIVE VisFrom(_)
VisFrom(k) ==
  IF k > NK THEN <<>>
  ELSE LET e == NewestVisible(k) IN
       IF e[3] = 1 THEN <<<<k, e[2]>>>> \o VisFrom(k + 1) ELSE VisFrom(k + 1)
Vis == VisFrom(1)

---------------------------------------------------------------------------
(* child cursors *)
CValid(p, c) == p[c] # 0
CCur(p, c) == child[c][p[c]]
CSeek(c, t) ==   \* first entry >= t
  LET C == {i \in 1..Len(child[c]) : ~ILess(child[c][i], t)} IN
  IF C = {} THEN 0 ELSE CHOOSE i \in C : \A j \in C : i <= j
CNext(p, c) == IF p[c] = 0 THEN 0 ELSE IF p[c] + 1 <= Len(child[c]) THEN p[c] + 1 ELSE 0
CPrev(p, c) == IF p[c] = 0 THEN 0 ELSE p[c] - 1

\* MergingIterator::find_smallest / find_largest over a position vector
Smallest(p) ==
  LET V == {c \in Children : p[c] # 0} IN
  IF V = {} THEN 0 ELSE CHOOSE c \in V : \A d \in V : c = d \/ ILess(child[c][p[c]], child[d][p[d]])
Largest(p) ==
  LET V == {c \in Children : p[c] # 0} IN
  IF V = {} THEN 0 ELSE CHOOSE c \in V : \A d \in V : c = d \/ ILess(child[d][p[d]], child[c][p[c]])

\* merging iterator state as a record [pos, dir, cur]
MValid(m) == m.cur # 0
MCur(m) == child[m.cur][m.pos[m.cur]]

MSeek(t) == LET p == [c \in Children |-> CSeek(c, t)] IN [pos |-> p, dir |-> "F", cur |-> Smallest(p)]
MFirst == LET p == [c \in Children |-> IF Len(child[c]) > 0 THEN 1 ELSE 0] IN
          [pos |-> p, dir |-> "F", cur |-> Smallest(p)]
MLast == LET p == [c \in Children |-> Len(child[c])] IN [pos |-> p, dir |-> "B", cur |-> Largest(p)]

\* MergingIterator::next (called on a valid iterator)
MNext(m) ==
  LET key == MCur(m)
      p1 == IF m.dir = "B" /\ ~Bug_NoReseekOnDirectionChange
            THEN [c \in Children |->
                    IF c = m.cur THEN m.pos[c]
                    ELSE LET s == CSeek(c, key) IN
                         IF s # 0 /\ child[c][s] = key
                         THEN (IF s + 1 <= Len(child[c]) THEN s + 1 ELSE 0) ELSE s]
            ELSE m.pos
      p2 == [p1 EXCEPT ![m.cur] = CNext(p1, m.cur)] IN
  [pos |-> p2, dir |-> "F", cur |-> Smallest(p2)]

\* MergingIterator::prev (called on a valid iterator)
MPrev(m) ==
  LET key == MCur(m)
      p1 == IF m.dir = "F" /\ ~Bug_NoReseekOnDirectionChange
            THEN [c \in Children |->
                    IF c = m.cur THEN m.pos[c]
                    ELSE LET s == CSeek(c, key) IN
                         IF s # 0 THEN s - 1 ELSE Len(child[c])]
            ELSE m.pos
      p2 == [p1 EXCEPT ![m.cur] = CPrev(p1, m.cur)] IN
  [pos |-> p2, dir |-> "B", cur |-> Largest(p2)]

---------------------------------------------------------------------------
(* DatabaseIterator: state record [m, dir, valid, ckey, cval] *)

\* find_next_client_entry(skipping) on a valid merging iterator
RECURSIVE FindNext(_, _, _)
FindNext(m, skipping, key) ==
  LET e == MCur(m)
      hidden == e[2] > snap
      isDel == ~hidden /\ e[3] = 0
      skipPut == ~hidden /\ e[3] = 1 /\ skipping /\ key # 0 /\ e[1] <= key IN
  IF ~hidden /\ e[3] = 1 /\ ~skipPut
  THEN [m |-> m, dir |-> "F", valid |-> TRUE, ckey |-> 0, cval |-> 0]
  ELSE LET sk2 == skipping \/ isDel
           key2 == IF isDel /\ ~Bug_TombstoneNotRemembered THEN e[1] ELSE key
           m2 == MNext(m) IN
       IF MValid(m2) THEN FindNext(m2, sk2, key2)
       ELSE [m |-> m2, dir |-> "F", valid |-> FALSE, ckey |-> 0, cval |-> 0]

\* find_prev_client_entry: lastOp = 0 (delete) / 1 (put); key/val = cached entry
RECURSIVE FindPrev(_, _, _, _)
FindPrev(m, lastOp, key, val) ==
  IF ~MValid(m)
  THEN IF lastOp = 0 THEN [m |-> m, dir |-> "F", valid |-> FALSE, ckey |-> 0, cval |-> 0]
       ELSE [m |-> m, dir |-> "B", valid |-> TRUE, ckey |-> key, cval |-> val]
  ELSE LET e == MCur(m)
           hidden == e[2] > snap /\ ~Bug_PrevIgnoresSnapshot IN
       IF hidden THEN FindPrev(MPrev(m), lastOp, key, val)
       ELSE IF lastOp # 0 /\ e[1] < key
       THEN [m |-> m, dir |-> "B", valid |-> TRUE, ckey |-> key, cval |-> val]
       ELSE IF e[3] = 0 THEN FindPrev(MPrev(m), 0, 0, 0)
       ELSE IF Bug_PrevStopsAtOldestVersion
       THEN [m |-> MPrev(m), dir |-> "B", valid |-> TRUE, ckey |-> e[1], cval |-> e[2]]
       ELSE FindPrev(MPrev(m), 1, e[1], e[2])

DState == [m |-> [pos |-> pos, dir |-> mdir, cur |-> cur], dir |-> ddir, valid |-> valid,
           ckey |-> ckey, cval |-> cval]

DSeek(t) ==
  LET m == MSeek(<<t, snap, 1>>) IN
  IF MValid(m) THEN FindNext(m, FALSE, t)
  ELSE [m |-> m, dir |-> "F", valid |-> FALSE, ckey |-> t, cval |-> 0]

DFirst ==
  LET m == MFirst IN
  IF MValid(m) THEN FindNext(m, FALSE, ckey)
  ELSE [m |-> m, dir |-> "F", valid |-> FALSE, ckey |-> ckey, cval |-> 0]

DLast == FindPrev(MLast, 0, ckey, 0)

DNext(d) ==
  IF d.dir = "B"
  THEN LET m2 == IF ~MValid(d.m) THEN MFirst ELSE MNext(d.m) IN
       IF ~MValid(m2) THEN [m |-> m2, dir |-> "F", valid |-> FALSE, ckey |-> 0, cval |-> d.cval]
       ELSE FindNext(m2, TRUE, d.ckey)
  ELSE LET key == MCur(d.m)[1]
           m2 == MNext(d.m) IN
       IF ~MValid(m2) THEN [m |-> m2, dir |-> "F", valid |-> FALSE, ckey |-> 0, cval |-> d.cval]
       ELSE FindNext(m2, TRUE, key)

\* backward from a forward position: walk back until the user key changes
RECURSIVE BackToPrevKey(_, _)
BackToPrevKey(m, key) ==
  LET m2 == MPrev(m) IN
  IF ~MValid(m2) THEN m2
  ELSE IF MCur(m2)[1] < key THEN m2 ELSE BackToPrevKey(m2, key)

DPrev(d) ==
  IF d.dir = "F"
  THEN LET key == MCur(d.m)[1]
           m2 == BackToPrevKey(d.m, key) IN
       IF ~MValid(m2) THEN [m |-> m2, dir |-> "F", valid |-> FALSE, ckey |-> 0, cval |-> 0]
       ELSE FindPrev(m2, 0, key, 0)
  ELSE FindPrev(d.m, 0, d.ckey, d.cval)

\* what the user reads: forward = the entry under the merging cursor, backward = the cached entry
DCurrent(d) ==
  IF d.dir = "F" THEN <<MCur(d.m)[1], MCur(d.m)[2]>> ELSE <<d.ckey, d.cval>>

---------------------------------------------------------------------------
(* abstract cursor over Vis *)
AFirstAtLeast(k) ==
  LET C == {i \in 1..Len(Vis) : Vis[i][1] >= k} IN IF C = {} THEN 0 ELSE CHOOSE i \in C : \A j \in C : i <= j
ANext(p) == IF p + 1 <= Len(Vis) THEN p + 1 ELSE 0
APrev(p) == p - 1

---------------------------------------------------------------------------
Init ==
  /\ \E E \in SUBSET Entries : \E asg \in [E -> Children] :
        child = [c \in Children |-> SortRun({e \in E : asg[e] = c})]
  /\ snap \in 0..MaxS
  /\ pos = [c \in Children |-> 0] /\ mdir = "F" /\ cur = 0
  /\ ddir = "F" /\ valid = FALSE /\ ckey = 0 /\ cval = 0
  /\ apos = 0 /\ nops = 0

Install(d, a) ==
  /\ pos' = d.m.pos /\ mdir' = d.m.dir /\ cur' = d.m.cur
  /\ ddir' = d.dir /\ valid' = d.valid /\ ckey' = d.ckey /\ cval' = d.cval
  /\ apos' = a /\ nops' = nops + 1
  /\ UNCHANGED <<child, snap>>

OpFirst == nops < MaxOps /\ Install(DFirst, IF Len(Vis) > 0 THEN 1 ELSE 0)
OpLast == nops < MaxOps /\ Install(DLast, Len(Vis))
OpSeek(t) == nops < MaxOps /\ Install(DSeek(t), AFirstAtLeast(t))
OpNext == nops < MaxOps /\ valid /\ Install(DNext(DState), ANext(apos))
OpPrev == nops < MaxOps /\ valid /\ Install(DPrev(DState), APrev(apos))

Next == OpFirst \/ OpLast \/ (\E t \in 1..(NK + 1) : OpSeek(t)) \/ OpNext \/ OpPrev

Spec == Init /\ [][Next]_vars

\* C04
CursorOK ==
  /\ valid <=> apos # 0
  /\ valid => DCurrent(DState) = Vis[apos]
=============================================================================
