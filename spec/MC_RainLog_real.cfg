SPECIFICATION Spec
CONSTANTS
  Block = 32768
  Hdr = 7
  Lens <- MCLens
  Fillers <- MCFillers
  MaxRecs = 3
  MaxReopen = 1
  MaxStop = 1
  MaxTrunc = 1
  TruncAll = FALSE
  AllowEagerPad = TRUE
  Bug_TrailerThresholdOffByOne = FALSE
  Bug_NoOffsetRestoreOnReopen = FALSE
  Bug_ReaderSplicesFragments = FALSE
  Bug_ReaderStopsAfterPartial = FALSE
INVARIANTS TypeOK WriterPosition RoundTrip PrefixSafe ExpectedSane
CHECK_DEADLOCK FALSE
