SPECIFICATION TSpec
CONSTANTS
  TNK = 3
  TMaxSeq = 2
  TMaxVer = 2
  TMaxLen = 6
  Bug_IndexMissMeansDeleted = FALSE
  Bug_SeekNoBlockAdvance = FALSE
  Bug_PrevStopsAtBlockStart = FALSE
  Bug_GetSkipsKeyCheck = FALSE
  Bug_SeparatorInsideKey = FALSE
INVARIANTS TableShape CursorRefines SeekCorrect IterationCorrect GetCorrect
VIEW TView
CHECK_DEADLOCK FALSE
