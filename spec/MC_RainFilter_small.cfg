SPECIFICATION FSpec
CONSTANTS
  FRange = 4
  FKeys = {1, 2}
  FSteps = {1, 2, 3, 5, 9}
  FMaxOff = 24
  FMaxBlocks = 4
  FalsePos <- MCNoFalsePos
  Bug_ReaderIndexOffByOne = FALSE
  Bug_NoFlushAtFinish = FALSE
  Bug_FilterAssignedToNextRange = FALSE
INVARIANTS NoFalseNegative FoldAgrees
CHECK_DEADLOCK FALSE
