--------------------------- MODULE APA_RainLogPos ---------------------------
(***************************************************************************)
(* The writer arithmetic of RainLog (LogWriter::append, one loop iteration  *)
(* per step; LogWriter::new in append mode; the optional eager trailer)     *)
(* restated over integers only, with the REAL constants (32768, 7) and      *)
(* WITHOUT any bound on record lengths, on the number of records or on the  *)
(* number of re-openings.  `ok` is a ghost flag that falls when a fragment  *)
(* is placed against the layout rule of the format.  IndInv is inductive    *)
(* (Apalache: Init => IndInv; IndInv /\ Next => IndInv') and implies        *)
(* Safety: for EVERY record length and every split of the appends across    *)
(* writer re-openings the writer's block offset agrees with the file        *)
(* length, no fragment header starts in the last Hdr-1 bytes of a block,    *)
(* every fragment ends inside its block and every non-final fragment ends   *)
(* exactly at the block boundary (RainLog.WriterPosition, the part of C12   *)
(* that TLC can only check for the boundary families of lengths).           *)
(***************************************************************************)
EXTENDS Integers, Apalache

CONSTANTS
  \* @type: Int;
  Block,
  \* @type: Int;
  Hdr

VARIABLES
  \* @type: Int;
  woff,    \* the writer's block offset, 0..Block
  \* @type: Int;
  flen,    \* file length
  \* @type: Int;
  left,    \* bytes of the record in progress still to write; -1 = no append in progress
  \* @type: Bool;
  first,   \* the next fragment is the first one of its record
  \* @type: Bool;
  open,    \* a writer is open
  \* @type: Bool;
  ok       \* ghost: every fragment so far was placed legally

ConstInit == Block = 32768 /\ Hdr = 7

Init == woff = 0 /\ flen = 0 /\ left = -1 /\ first = TRUE /\ open = TRUE /\ ok = TRUE

\* LogWriter::append(data), Len(data) = n: any n
Start ==
  /\ open /\ left = -1
  /\ \E n \in Nat : left' = n
  /\ first' = TRUE
  /\ UNCHANGED <<woff, flen, open, ok>>

\* one iteration of the loop
Emit ==
  /\ open /\ left >= 0
  /\ LET avail == Block - woff
         pad == avail < Hdr
         w1 == IF pad THEN 0 ELSE woff
         f1 == IF pad THEN flen + avail ELSE flen
         space == Block - w1 - Hdr
         n == IF left < space THEN left ELSE space
         final == (n = left) IN
     /\ woff' = w1 + Hdr + n
     /\ flen' = f1 + Hdr + n
     /\ left' = IF final THEN -1 ELSE left - n
     /\ first' = final
     /\ ok' = (ok /\ Block - w1 >= Hdr /\ w1 + Hdr + n <= Block /\ n >= 0
                  /\ (~final => w1 + Hdr + n = Block)
                  \* the fragment starts where the file says it does
                  /\ w1 = f1 % Block)
  /\ UNCHANGED open

\* the optional eager trailer (RainLog.EagerPad)
EagerPad ==
  /\ open /\ left = -1 /\ Block - woff < Hdr /\ woff # 0
  /\ flen' = flen + (Block - woff) /\ woff' = 0
  /\ UNCHANGED <<left, first, open, ok>>

Close == open /\ left = -1 /\ open' = FALSE /\ UNCHANGED <<woff, flen, left, first, ok>>

\* the writer dies between two fragments (the file keeps what was written)
Die == open /\ left >= 0 /\ ~first /\ open' = FALSE /\ left' = -1 /\ first' = TRUE
       /\ UNCHANGED <<woff, flen, ok>>

\* LogWriter::new(.., is_appending = true)
Reopen == ~open /\ open' = TRUE /\ woff' = flen % Block /\ UNCHANGED <<flen, left, first, ok>>

Next == Start \/ Emit \/ EagerPad \/ Close \/ Die \/ Reopen

IndInv ==
  /\ woff >= 0 /\ woff <= Block /\ flen >= 0 /\ left >= -1
  /\ woff % Block = flen % Block
  /\ (left >= 0 /\ ~first) => woff = Block      \* a non-final fragment filled its block
  /\ (left = -1) => first
  /\ ~open => left = -1
  /\ ok

IndInit ==
  /\ woff = Gen(1) /\ flen = Gen(1) /\ left = Gen(1) /\ first = Gen(1) /\ open = Gen(1) /\ ok = Gen(1)
  /\ IndInv

Safety == ok /\ (open => woff % Block = flen % Block) /\ woff >= 0 /\ woff <= Block
=============================================================================
