---------------------------- MODULE APA_RainCache ----------------------------
(***************************************************************************)
(* RainCache restated with Apalache type annotations, WITHOUT the bound on   *)
(* the number of table opens, and with a ghost function `owner` (partition   *)
(* id -> file it was drawn for).  IndInv is an inductive invariant: checked  *)
(* by Apalache as  Init => IndInv  and  IndInv /\ Next => IndInv'  it shows  *)
(* ReadsRightBlock and UniqueIds for ANY number of opens, evictions and      *)
(* reads (for the fixed small sets of threads, files and offsets below).     *)
(* The model checked by TLC (../RainCache.tla) is the bounded original.      *)
(***************************************************************************)
EXTENDS Integers, FiniteSets, Apalache

CONSTANTS
  \* @type: Set(Int);
  Threads,
  \* @type: Set(Int);
  Files,
  \* @type: Set(Int);
  Offsets

VARIABLES
  \* @type: Int;
  lastId,
  \* @type: Int -> Int;
  tcache,
  \* @type: Set(<<<<Int, Int>>, <<Int, Int>>>>);
  bcache,
  \* @type: Int -> Str;
  pc,
  \* @type: Int -> <<Int, Int>>;
  tgt,
  \* @type: Int -> Int;
  myid,
  \* @type: Int -> <<Int, Int>>;
  got,
  \* @type: Set(<<Int, Int>>);
  owner

ConstInit == Threads = {1, 2, 3} /\ Files = {1, 2, 3} /\ Offsets = {0, 1}

\* @type: (Int, Int) => <<Int, Int>>;
Content(f, o) == <<f, o>>
\* @type: (Int, Int) => <<Int, Int>>;
Key(id, o) == <<id, o>>

Init ==
  /\ lastId = 0 /\ tcache = [f \in Files |-> 0] /\ bcache = {}
  /\ pc = [t \in Threads |-> "idle"] /\ tgt = [t \in Threads |-> <<0, 0>>]
  /\ myid = [t \in Threads |-> 0] /\ got = [t \in Threads |-> <<0, 0>>]
  /\ owner = {}

Start(t, f, o) ==
  /\ pc[t] = "idle"
  /\ tgt' = [tgt EXCEPT ![t] = <<f, o>>]
  /\ IF tcache[f] # 0
     THEN myid' = [myid EXCEPT ![t] = tcache[f]] /\ pc' = [pc EXCEPT ![t] = "block"]
     ELSE pc' = [pc EXCEPT ![t] = "newid"] /\ UNCHANGED myid
  /\ UNCHANGED <<lastId, tcache, bcache, got, owner>>

NewId(t) ==
  /\ pc[t] = "newid"
  /\ lastId' = lastId + 1
  /\ myid' = [myid EXCEPT ![t] = lastId + 1]
  /\ owner' = owner \union {<<lastId + 1, tgt[t][1]>>}
  /\ pc' = [pc EXCEPT ![t] = "insert"]
  /\ UNCHANGED <<tcache, bcache, tgt, got>>

Insert(t) ==
  /\ pc[t] = "insert"
  /\ tcache' = [tcache EXCEPT ![tgt[t][1]] = myid[t]]
  /\ pc' = [pc EXCEPT ![t] = "block"]
  /\ UNCHANGED <<lastId, bcache, tgt, myid, got, owner>>

Block(t) ==
  /\ pc[t] = "block"
  /\ LET f == tgt[t][1]
         o == tgt[t][2]
         key == Key(myid[t], o)
         hits == {e \in bcache : e[1] = key} IN
     IF hits # {}
     THEN /\ \E e \in hits : got' = [got EXCEPT ![t] = e[2]]
          /\ UNCHANGED bcache
     ELSE /\ got' = [got EXCEPT ![t] = Content(f, o)]
          /\ bcache' = bcache \union {<<key, Content(f, o)>>}
  /\ pc' = [pc EXCEPT ![t] = "done"]
  /\ UNCHANGED <<lastId, tcache, tgt, myid, owner>>

Finish(t) ==
  /\ pc[t] = "done"
  /\ pc' = [pc EXCEPT ![t] = "idle"]
  /\ UNCHANGED <<lastId, tcache, bcache, tgt, myid, got, owner>>

EvictTable(f) ==
  /\ tcache[f] # 0 /\ tcache' = [tcache EXCEPT ![f] = 0]
  /\ UNCHANGED <<lastId, bcache, pc, tgt, myid, got, owner>>

EvictBlock ==
  /\ \E e \in bcache : bcache' = bcache \ {e}
  /\ UNCHANGED <<lastId, tcache, pc, tgt, myid, got, owner>>

Next ==
  \/ \E t \in Threads : \E f \in Files : \E o \in Offsets : Start(t, f, o)
  \/ \E t \in Threads : NewId(t) \/ Insert(t) \/ Block(t) \/ Finish(t)
  \/ \E f \in Files : EvictTable(f)
  \/ EvictBlock

\* ---- the properties of RainCache.tla
ReadsRightBlock ==
  \A t \in Threads : pc[t] = "done" => got[t] = Content(tgt[t][1], tgt[t][2])

UniqueIds ==
  \A t1, t2 \in Threads :
    (pc[t1] \in {"insert", "block"} /\ pc[t2] \in {"insert", "block"} /\ tgt[t1][1] # tgt[t2][1])
      => myid[t1] # myid[t2]

\* ---- the inductive invariant
Pcs == {"idle", "newid", "insert", "block", "done"}
\* @type: (Int, Int) => Bool;
Owns(id, f) == \E p \in owner : p[1] = id /\ p[2] = f

TypeOK ==
  /\ lastId >= 0
  /\ \A f \in Files : tcache[f] >= 0
  /\ DOMAIN tcache = Files /\ DOMAIN pc = Threads /\ DOMAIN tgt = Threads
  /\ DOMAIN myid = Threads /\ DOMAIN got = Threads
  /\ \A t \in Threads : pc[t] \in Pcs /\ myid[t] >= 0

IndInv ==
  /\ TypeOK
  \* `owner` is a function on the ids drawn so far
  /\ \A p \in owner : p[1] >= 1 /\ p[1] <= lastId /\ p[2] \in Files
  /\ \A p \in owner : \A q \in owner : p[1] = q[1] => p[2] = q[2]
  \* ids in use were drawn, and were drawn for the file they are used for
  /\ \A f \in Files : tcache[f] # 0 => Owns(tcache[f], f)
  /\ \A t \in Threads :
       /\ pc[t] # "idle" => tgt[t][1] \in Files /\ tgt[t][2] \in Offsets
       /\ pc[t] \in {"insert", "block", "done"} => Owns(myid[t], tgt[t][1])
       /\ pc[t] = "done" => got[t] = Content(tgt[t][1], tgt[t][2])
  \* every cached block is the block of the file its partition id belongs to
  /\ \A e \in bcache : e[1][2] \in Offsets /\ Owns(e[1][1], e[2][1]) /\ e[2][2] = e[1][2]

\* an arbitrary state (of bounded size) satisfying the invariant: the start of the induction step
IndInit ==
  /\ lastId = Gen(1) /\ tcache = Gen(3) /\ bcache = Gen(6) /\ pc = Gen(3) /\ tgt = Gen(3)
  /\ myid = Gen(3) /\ got = Gen(3) /\ owner = Gen(8)
  /\ IndInv

Safety == ReadsRightBlock /\ UniqueIds
=============================================================================
