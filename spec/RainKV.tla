------------------------------- MODULE RainKV -------------------------------
(***************************************************************************)
(* The service raindb offers, as its users see it: a map from keys to the   *)
(* value of the latest committed write, snapshots that freeze the map, and  *)
(* iterator views that freeze it as well.  Nothing else exists at this      *)
(* level: no memtable, no files, no compaction.  The implementation-shaped  *)
(* specifications (RainCore, RainCoreReopen) are shown by TLC to IMPLEMENT  *)
(* this one under a refinement mapping that reads every key through the     *)
(* implementation's search path:                                            *)
(*    store  <- [k |-> Get(k, seq)]              (memtable, imm, levels)    *)
(*    snaps  <- the same at every live snapshot's sequence                  *)
(*    views  <- the same through every pinned read view                     *)
(* so every step of the LSM machine is either one of the client steps below *)
(* with exactly its effect, or changes nothing a user can see (C01, C03,    *)
(* C06 for two-operation batches, C07).  A value is identified by the       *)
(* number of the write that stored it.                                      *)
(***************************************************************************)
EXTENDS Naturals, Sequences, FiniteSets

CONSTANT KVKeys

VARIABLES
  store,   \* KVKeys -> value id, 0 = no value
  count,   \* number of committed operations
  frozen,  \* the live snapshots, oldest first: sequence of maps
  views    \* iterator views: set of [id, map]

kvVars == <<store, count, frozen, views>>

KVInit ==
  /\ store = [k \in KVKeys |-> 0] /\ count = 0 /\ frozen = <<>> /\ views = {}

\* one put (o = 1) or delete (o = 0)
Apply1(k, o) ==
  /\ count' = count + 1
  /\ store' = [store EXCEPT ![k] = IF o = 1 THEN count + 1 ELSE 0]
  /\ UNCHANGED <<frozen, views>>

\* a batch of two operations becomes visible at once (no state in between exists)
Apply2(k1, o1, k2, o2) ==
  /\ count' = count + 2
  /\ store' = [[store EXCEPT ![k1] = IF o1 = 1 THEN count + 1 ELSE 0]
                      EXCEPT ![k2] = IF o2 = 1 THEN count + 2 ELSE 0]
  /\ UNCHANGED <<frozen, views>>

TakeSnapshot ==
  /\ frozen' = Append(frozen, store)
  /\ UNCHANGED <<store, count, views>>

ReleaseSnapshot(i) ==
  /\ i \in 1..Len(frozen)
  /\ frozen' = [j \in 1..(Len(frozen) - 1) |-> IF j < i THEN frozen[j] ELSE frozen[j + 1]]
  /\ UNCHANGED <<store, count, views>>

\* written so that TLC can evaluate it on a pair of states: the new view is whatever element of
\* views' is not in views
NewView ==
  /\ \E v \in views' :
       /\ v \notin views /\ v.map = store /\ views' = views \cup {v}
       /\ \A w \in views : w.id # v.id
  /\ UNCHANGED <<store, count, frozen>>

DropView ==
  /\ \E v \in views : views' = views \ {v}
  /\ UNCHANGED <<store, count, frozen>>

\* close and reopen: the map survives, snapshots and views end with the handle
Restart ==
  /\ frozen' = <<>> /\ views' = {}
  /\ UNCHANGED <<store, count>>

KVNext ==
  \/ \E k \in KVKeys, o \in {0, 1} : Apply1(k, o)
  \/ \E k1, k2 \in KVKeys, o1, o2 \in {0, 1} : Apply2(k1, o1, k2, o2)
  \/ TakeSnapshot \/ \E i \in 1..Len(frozen) : ReleaseSnapshot(i)
  \/ NewView \/ DropView
  \/ Restart

KVSpec == KVInit /\ [][KVNext]_kvVars

\* what the service promises, as invariants of the abstract machine itself
KVTypeOK ==
  /\ \A k \in KVKeys : store[k] \in 0..count
  /\ \A i \in 1..Len(frozen) : \A k \in KVKeys : frozen[i][k] \in 0..count
=============================================================================
