--------------------------- MODULE RainCore_Trace ---------------------------
(***************************************************************************)
(* Trace validation of executions of the real raindb against RainCore.      *)
(*                                                                         *)
(* The harness (verif/harness, `hist` driver) records one ndjson line per   *)
(* hook event (linearization points inside raindb), per mutating            *)
(* filesystem operation (SimFs) and per driver call / observation.  This    *)
(* module replays the lines through RainCore's variables: trace actions     *)
(* ADOPT what the code reports it did (which files an edit installed, with  *)
(* the entries read back from the table files and the bounds it recorded)   *)
(* and the RainCore properties are evaluated in every reconstructed state.  *)
(* Observed results (gets, scans, cursor walks, directory listings) are     *)
(* compared with the abstract store.  Property failures do not block the    *)
(* replay; they are accumulated in `viol` and printed per run, so that one  *)
(* JVM validates many runs and every failure carries its property id and    *)
(* the trace line.                                                          *)
(*                                                                         *)
(* A line that no action accepts is a defect of the machinery (or a         *)
(* hook/driver that lies): the replay stops there and the runner reports a  *)
(* tool error, never a property violation.                                  *)
(***************************************************************************)
EXTENDS RainCore, Json, IOUtils, SequencesExt

Rec == ndJsonDeserialize(IOEnv.TRACE)

VARIABLES
  l,        \* next line of the trace
  viol,     \* accumulated violation records of the current run
  bad,      \* property-check names that currently fail (report only on the ok -> bad edge)
  dirty,    \* core state changed since the last judgement
  lastEv,   \* kind of the last state-changing event
  runInfo,  \* [run, seed] of the current run
  keep,     \* ids of the driver's long-lived iterators, in the driver's order
  lastIter, \* id of the most recently created iterator
  manNo,    \* current manifest number
  isOpen,   \* database open
  flushed,  \* a memtable table was built since the last edit (the next edit installs it)
  gpins,    \* versions pinned by in-flight gets: set of [t, ver]
  deferred, \* tables a deletion pass had to keep only because a read view pinned them
  ackStore, \* key -> value after every acknowledged write, in call order (single client)
  inflight  \* operations of the write call that has started but not returned, or <<>>

traceVars == <<l, viol, bad, dirty, lastEv, runInfo, keep, lastIter, manNo, isOpen, flushed,
               gpins, deferred, ackStore, inflight>>
allVars == <<coreVars, traceVars>>

Ev == Rec[l]
IsEv(name) == l <= Len(Rec) /\ Rec[l].e = name

---------------------------------------------------------------------------
(* conversions from the logged JSON *)

SeqSet(sq) == {sq[i] : i \in 1..Len(sq)}

\* a logged file record {f, lo, hi, ...}
ToFileRec(j) == [no |-> j.f, lo |-> <<j.lo[1], j.lo[2], j.lo[3]>>, hi |-> <<j.hi[1], j.hi[2], j.hi[3]>>]

ToLevel(js) == [i \in 1..Len(js) |-> ToFileRec(js[i])]

\* logged levels: a sequence of 7 sequences of file records
ToVer(js) == [lv \in 0..(NL - 1) |-> IF lv + 1 <= Len(js) THEN ToLevel(js[lv + 1]) ELSE <<>>]

ToEntry(j) == <<j[1], j[2], j[3], j[4]>>
ToEntries(js) == {ToEntry(js[i]) : i \in 1..Len(js)}

HasEnts(j) == j.entsok

---------------------------------------------------------------------------
(* judgement of the CURRENT state, done at the beginning of the next step *)

ReadLatestOK == \A k \in Keys : Get(k, seq) = AbstractAt(hist, k, seq)
ReadSnapsOK  == \A s \in SnapSet : \A k \in Keys : Get(k, s) = AbstractAt(hist, k, s)
ReadPinsOK   == \A p \in pins : \A k \in Keys : PinGet(p, k) = AbstractAt(hist, k, p.seq)

\* an iterator whose IterDrop was seen but whose IterDropped was not is in the middle of releasing
\* its version: it may or may not still pin it
ReadViews == PinnedVersions \cup {g.ver : g \in gpins}
FirmViews == {p.ver : p \in {q \in pins : ~q.rel}} \cup (IF comp.on THEN {comp.ver} ELSE {})
             \cup {g.ver : g \in gpins}

TablesNeeded == FileNos(cur, NL) \cup UNION {FileNos(v, NL) : v \in FirmViews}

LiveDeletedOK ==
  /\ \A n \in TablesNeeded : <<"table", n>> \in disk
  /\ \A n \in pending : (n \in DOMAIN files) => <<"table", n>> \in disk
  /\ isOpen => /\ <<"wal", curWal>> \in disk
               /\ <<"manifest", manNo>> \in disk
               /\ <<"current", 0>> \in disk
               /\ (immOn /\ ~immDone) => <<"wal", immWal>> \in disk

FaultMode == runInfo.mode = "fault"

Failing ==
  IF FaultMode THEN {} ELSE
  (IF isOpen /\ ~ReadLatestOK THEN {"ReadLatest"} ELSE {})
  \cup (IF isOpen /\ ~ReadSnapsOK THEN {"ReadSnaps"} ELSE {})
  \cup (IF isOpen /\ ~ReadPinsOK THEN {"ReadPins"} ELSE {})
  \cup (IF ~LiveDeletedOK THEN {"LiveDeleted"} ELSE {})

PropsOf(name) ==
  CASE name = "ReadLatest" ->
         IF lastEv \in {"Edit", "ImmDropped", "Rotate"} THEN <<"C07", "C01">> ELSE <<"C01">>
    [] name = "ReadSnaps" -> IF lastEv \in {"Edit", "ImmDropped"} THEN <<"C07", "C03">> ELSE <<"C03">>
    [] name = "ReadPins" -> IF lastEv \in {"Edit", "ImmDropped"} THEN <<"C07", "C03">> ELSE <<"C03">>
    [] name = "LiveDeleted" -> <<"C11">>
    [] OTHER -> <<"??">>

WrongKeys(s) == {k \in Keys : Get(k, s) # AbstractAt(hist, k, s)}

Detail(name) ==
  CASE name = "ReadLatest" -> [keys |-> SetToSeq(WrongKeys(seq)), at |-> seq]
    [] name = "ReadSnaps" -> [keys |-> SetToSeq(UNION {WrongKeys(s) : s \in SnapSet}), at |-> 0]
    [] name = "LiveDeleted" ->
         [keys |-> SetToSeq({n \in TablesNeeded \cup pending : <<"table", n>> \notin disk}), at |-> 0]
    [] OTHER -> [keys |-> <<>>, at |-> 0]

NewViol(names) ==
  SetToSeq({[props |-> PropsOf(n), check |-> n, line |-> l - 1, after |-> lastEv,
             detail |-> Detail(n)] : n \in names})

\* every trace action includes Judge: evaluate the state produced by the previous line
Judge ==
  IF dirty
  THEN LET f == Failing IN
       /\ viol' = viol \o NewViol(f \ bad)
       /\ bad' = f
  ELSE /\ viol' = viol /\ bad' = bad

\* an observation-level violation found while consuming the current line
ObsViol(props, check, detail) ==
  <<[props |-> props, check |-> check, line |-> l, after |-> lastEv, detail |-> detail]>>

JudgeAnd(extra) ==
  IF dirty
  THEN LET f == Failing IN
       /\ viol' = (viol \o NewViol(f \ bad)) \o extra
       /\ bad' = f
  ELSE /\ viol' = viol \o extra /\ bad' = bad

JudgeAnd2(a, b) == JudgeAnd(a \o b)

Step(changed, kind) ==
  /\ l' = l + 1
  /\ dirty' = changed
  /\ lastEv' = IF changed THEN kind ELSE lastEv

---------------------------------------------------------------------------
(* run boundaries *)

FreshCore(n) ==
  /\ nk' = n /\ seq' = 0 /\ hist' = <<>> /\ mem' = {} /\ imm' = {} /\ immOn' = FALSE
  /\ immDone' = FALSE /\ immWal' = 0
  /\ files' = <<>> /\ cur' = EmptyVersion(NL) /\ pins' = {} /\ snaps' = <<>> /\ pending' = {}
  /\ comp' = NoComp /\ disk' = {} /\ nextFile' = 0 /\ curWal' = 0 /\ logWal' = 0
  /\ nextPin' = 1 /\ gcDue' = FALSE

TraceInit ==
  /\ nk = 0 /\ seq = 0 /\ hist = <<>> /\ mem = {} /\ imm = {} /\ immOn = FALSE
  /\ immDone = FALSE /\ immWal = 0
  /\ files = <<>> /\ cur = EmptyVersion(NL) /\ pins = {} /\ snaps = <<>> /\ pending = {}
  /\ comp = NoComp /\ disk = {} /\ nextFile = 0 /\ curWal = 0 /\ logWal = 0 /\ nextPin = 1 /\ gcDue = FALSE
  /\ l = 1 /\ viol = <<>> /\ bad = {} /\ dirty = FALSE /\ lastEv = "none"
  /\ runInfo = [run |-> 0, seed |-> 0, mode |-> "none", disarmed |-> FALSE, wlog |-> <<>>,
                tag |-> "", walFirst |-> <<>>]
  /\ keep = <<>> /\ lastIter = 0 /\ manNo = 0
  /\ isOpen = FALSE /\ flushed = FALSE /\ gpins = {} /\ deferred = {}
  /\ ackStore = <<>> /\ inflight = <<>>

Report(final) ==
  PrintT(<<"@@RUN", ToJson([run |-> runInfo.run, seed |-> runInfo.seed, tag |-> runInfo.tag,
                            lines |-> l,
                            viol |-> final])>>)

FinalViol == IF dirty THEN viol \o NewViol(Failing \ bad) ELSE viol

TReset ==
  /\ IsEv("Reset")
  /\ IF runInfo.run = 0 THEN TRUE ELSE Report(FinalViol)
  /\ FreshCore(Ev.nk)
  /\ l' = l + 1 /\ viol' = <<>> /\ bad' = {} /\ dirty' = FALSE /\ lastEv' = "none"
  /\ runInfo' = [run |-> Ev.run, seed |-> Ev.seed, mode |-> Ev.driver, disarmed |-> FALSE,
                  wlog |-> <<>>, tag |-> Ev.tag, walFirst |-> <<>>]
  /\ keep' = <<>> /\ lastIter' = 0
  /\ manNo' = 0 /\ isOpen' = FALSE /\ flushed' = FALSE /\ gpins' = {} /\ deferred' = {}
  /\ ackStore' = [k \in 1..Ev.nk |-> 0] /\ inflight' = <<>>

TEnd ==
  /\ IsEv("End")
  /\ Report(FinalViol)
  /\ PrintT(<<"@@END", l>>)
  /\ l' = l + 1
  /\ UNCHANGED <<coreVars, viol, bad, dirty, lastEv, runInfo, keep, lastIter, manNo, isOpen, flushed, gpins, deferred, ackStore, inflight>>

---------------------------------------------------------------------------
(* events without effect on the model *)

StutterNames == {"Open", "OpenRefused", "ManifestSnapshot",
                 "CompactCall", "CompactRet", "FlushCall", "FlushRet", "Close", "Closing",
                 "CloseRet", "RecoverWal", "BadState", "Fault", "BgBegin", "DescrCall", "DescrRet",
                 "BgEnd", "TableOpen"}

TStutter ==
  /\ l <= Len(Rec) /\ Rec[l].e \in StutterNames
  /\ Judge /\ Step(FALSE, "")
  /\ UNCHANGED <<coreVars, runInfo, keep, lastIter, manNo, isOpen, flushed, gpins, deferred, ackStore, inflight>>

---------------------------------------------------------------------------
(* write calls of the single client: what is acknowledged, what is in flight *)

RECURSIVE ApplyOps(_, _, _)
ApplyOps(st, ops, i) ==
  IF i > Len(ops) THEN st
  ELSE ApplyOps([st EXCEPT ![ops[i][1]] = IF ops[i][2] = 1 THEN ops[i][3] ELSE 0], ops, i + 1)

TCall ==
  /\ IsEv("Call")
  /\ inflight' = Ev.ops
  /\ Judge /\ Step(FALSE, "")
  /\ UNCHANGED <<coreVars, runInfo, keep, lastIter, manNo, isOpen, flushed, gpins, deferred,
                 ackStore>>

TRet ==
  /\ IsEv("Ret")
  /\ ackStore' = IF Ev.ok THEN ApplyOps(ackStore, inflight, 1) ELSE ackStore
  /\ inflight' = <<>>
  /\ runInfo' = IF FaultMode
                THEN [runInfo EXCEPT !.wlog = Append(@, [ops |-> inflight, ok |-> Ev.ok])]
                ELSE runInfo
  /\ JudgeAnd(IF Ev.ok \/ FaultMode THEN <<>>
              ELSE ObsViol(<<"C01", "C09">>, "WriteFailed", [keys |-> <<>>, at |-> 0]))
  /\ Step(FALSE, "")
  /\ UNCHANGED <<coreVars, keep, lastIter, manNo, isOpen, flushed, gpins, deferred>>

---------------------------------------------------------------------------
(* C08: one injected filesystem failure.  wlog holds every write call with its result; a write
   that returned an error may have taken effect completely or not at all *)

TDisarm ==
  /\ IsEv("Disarm")
  /\ runInfo' = [runInfo EXCEPT !.disarmed = TRUE]
  /\ Judge /\ Step(FALSE, "")
  /\ UNCHANGED <<coreVars, keep, lastIter, manNo, isOpen, flushed, gpins, deferred, ackStore,
                 inflight>>

ErrIdx == {i \in 1..Len(runInfo.wlog) : ~runInfo.wlog[i].ok}

RECURSIVE FoldW(_, _, _)
FoldW(st, i, S) ==
  IF i > Len(runInfo.wlog) THEN st
  ELSE IF runInfo.wlog[i].ok \/ i \in S
       THEN FoldW(ApplyOps(st, runInfo.wlog[i].ops, 1), i + 1, S)
       ELSE FoldW(st, i + 1, S)

\* a write call that has not returned yet cannot happen at an observation (single client)
PossibleStores == {FoldW([k \in Keys |-> 0], 1, S) : S \in SUBSET ErrIdx}

VisOf(st) == SelectSeq([k \in 1..nk |-> <<k, st[k]>>], LAMBDA x : x[2] # 0)

FaultObsViol ==
  LET PS == PossibleStores
      got == [k \in Keys |-> Ev.gets[k]]
      det == [keys |-> <<>>, at |-> 0]
      wrongKeys == {k \in Keys : got[k] # -1 /\ got[k] \notin {st[k] : st \in PS}}
      v1 == IF wrongKeys # {}
            THEN ObsViol(<<"C08">>, "ReadAfterFaultWrong", [keys |-> SetToSeq(wrongKeys), at |-> 0])
            ELSE <<>>
      ascending == \A i \in 1..(Len(Ev.fwd) - 1) : Ev.fwd[i][1] < Ev.fwd[i + 1][1]
      partial == /\ ~runInfo.disarmed /\ ascending
                 /\ \E st \in PS : SeqSet(Ev.fwd) \subseteq SeqSet(VisOf(st))
      v2 == IF Ev.fwdok /\ Ev.fwd \notin {VisOf(st) : st \in PS}
            THEN ObsViol(<<"C08">>, IF partial THEN "ScanSilentlyIncomplete"
                                    ELSE "ScanAfterFaultWrong", det) ELSE <<>>
      v3 == IF Ev.final /\ (Ev.errs > 0 \/ ~Ev.fwdok \/ got \notin PS)
            THEN ObsViol(<<"C08">>, "FinalStoreWrong",
                         [keys |-> SetToSeq({k \in Keys : got[k] # ackStore[k]}), at |-> 0])
            ELSE <<>> IN
  (v1 \o v2) \o v3

---------------------------------------------------------------------------
(* crash probes (check-only): the image after the first j journal operations, optionally with
   operation j+1 torn, was opened by the real code; judge what it recovered *)

ProbeDir(d) == {<<d.dir[i][1], d.dir[i][2]>> : i \in 1..Len(d.dir)}

ProbeDirOK(d) ==
  LET dir == ProbeDir(d)
      tabs == FileNos(ToVer(d.levels), NL) IN
  /\ \A x \in dir : \/ x[1] \in {"current", "lock"}
                     \/ (x[1] = "manifest" /\ x[2] = d.man)
                     \/ (x[1] = "table" /\ x[2] \in tabs)
                     \/ (x[1] = "wal" /\ x[2] >= d.wal)
  /\ \A n \in tabs : <<"table", n>> \in dir
  /\ <<"manifest", d.man>> \in dir /\ <<"current", 0>> \in dir /\ <<"wal", d.curwal>> \in dir

TProbe ==
  /\ IsEv("Probe")
  /\ LET got == [k \in Keys |-> Ev.gets[k]]
         base == {ackStore} \cup (IF inflight # <<>> THEN {ApplyOps(ackStore, inflight, 1)} ELSE {})
         mk1 == << <<Ev.marker[1], 1, IF Ev.gen = 2 THEN Ev.marker[2] - 1 ELSE Ev.marker[2]>> >>
         allowed == IF Ev.gen = 2 THEN base \cup {ApplyOps(s, mk1, 1) : s \in base} ELSE base
         pr == IF Ev.torn > 0 THEN <<"C16">> ELSE <<"C02">>
         det == [keys |-> <<Ev.j, Ev.torn, Ev.gen>>, at |-> 0]
         sfx == IF Ev.torn > 0 THEN (IF Ev.opts.reuse THEN "_TornReuse" ELSE "_TornNoReuse")
                ELSE (IF Ev.opts.reuse THEN "_Reuse" ELSE "_NoReuse")
         dirx == ProbeDir(Ev.dump)
         onlyNewerManifests ==
            /\ \A x \in dirx : \/ x[1] \in {"current", "lock"}
                               \/ (x[1] = "manifest" /\ x[2] >= Ev.dump.man)
                               \/ (x[1] = "table" /\ x[2] \in FileNos(ToVer(Ev.dump.levels), NL))
                               \/ (x[1] = "wal" /\ x[2] >= Ev.dump.wal)
            /\ \A n \in FileNos(ToVer(Ev.dump.levels), NL) : <<"table", n>> \in dirx
         vis == SelectSeq([k \in 1..nk |-> <<k, got[k]>>], LAMBDA x : x[2] # 0)
         v0 == IF Ev.hang \/ Ev.panic THEN ObsViol(pr \o <<"C09">>, "RecoveryHangOrPanic" \o sfx, det) ELSE <<>>
         v1 == IF ~Ev.open_ok /\ ~Ev.hang /\ ~Ev.panic THEN ObsViol(pr, "RecoveryFailed" \o sfx, det) ELSE <<>>
         v2 == IF Ev.open_ok /\ (Ev.geterrs > 0 \/ got \notin allowed)
               THEN ObsViol(pr, "RecoveredStoreWrong" \o sfx, det) ELSE <<>>
         v3 == IF Ev.open_ok /\ (~Ev.fwdok \/ Ev.fwd # vis)
               THEN ObsViol(pr \o <<"C04">>, "RecoveredScanDiffers" \o sfx, det) ELSE <<>>
         v4 == IF Ev.open_ok /\ (~Ev.put_ok \/ ~Ev.reopen_ok)
               THEN ObsViol(pr, "NotUsableAfterRecovery" \o sfx, det) ELSE <<>>
         v5 == IF Ev.open_ok /\ Ev.put_ok /\ Ev.reopen_ok
                  /\ (Ev.geterrs2 > 0 \/
                      [k \in Keys |-> Ev.gets2[k]] #
                         ApplyOps(got, << <<Ev.marker[1], 1, Ev.marker[2]>> >>, 1))
               THEN ObsViol(pr, "PostRecoveryWriteLost" \o sfx, det) ELSE <<>>
         v6 == IF Ev.open_ok /\ Ev.quiet /\ ~ProbeDirOK(Ev.dump)
               THEN ObsViol(<<"C11">>, IF onlyNewerManifests THEN "CrashOrphanNewerManifest"
                                       ELSE "CrashDirNotExact", det) ELSE <<>>
         v7 == IF Ev.open_ok /\ Ev.quiet /\ ~WellFormedVer(ToVer(Ev.dump.levels), files, NL)
               THEN ObsViol(<<"C10">>, "CrashIllFormed", det) ELSE <<>>
         \* a log other than the one being written whose records are ALL in table files of the
         \* recovered version (largest sequence in the log <= largest sequence in the tables) is
         \* not needed any more: once recovery and its background work are done it must be gone
         deadLogs == IF "walmax" \in DOMAIN Ev.dump
                     THEN {Ev.dump.walmax[i][1] : i \in {j \in 1..Len(Ev.dump.walmax) :
                                Ev.dump.walmax[j][2] <= Ev.dump.tablemax}}
                     ELSE {}
         v8 == IF Ev.open_ok /\ Ev.quiet /\ deadLogs # {}
               THEN ObsViol(<<"C11">>, "CrashDeadLogKept", [keys |-> SetToSeq(deadLogs), at |-> Ev.j])
               ELSE <<>>
         \* ... and the shape reported after the NEXT reopen (which reads what the recovery of the
         \* crash image left in the manifest)
         v9 == IF Ev.open_ok /\ Ev.reopen_ok /\ ~WellFormedVer(ToVer(Ev.levels2), files, NL)
               THEN ObsViol(<<"C10">>, "CrashIllFormedAfterReopen", det) ELSE <<>> IN
     JudgeAnd(((((((((v0 \o v1) \o v2) \o v3) \o v4) \o v5) \o v6) \o v7) \o v8) \o v9)
  /\ Step(FALSE, "")
  /\ UNCHANGED <<coreVars, runInfo, keep, lastIter, manNo, isOpen, flushed, gpins, deferred,
                 ackStore, inflight>>

---------------------------------------------------------------------------
(* C15 corruption probes (check-only), appended after the clean close at the end of a run: one
   byte of one persistent file was altered (or a table truncated) and the image was opened.
   Table / manifest / CURRENT damage: every value served must be the value written (or an
   error).  WAL damage: records of that log may be lost, so a key may also show any value it had
   since the first record of that log - never anything else. *)

AllowedAfterWalDamage(k, w) ==
  LET from == IF w \in DOMAIN runInfo.walFirst THEN runInfo.walFirst[w] - 1 ELSE Len(hist) IN
  {AbstractAt(hist, k, s) : s \in from..Len(hist)}

\* every value the key ever had (0 = absent)
EverHad(k) == {AbstractAt(hist, k, s) : s \in 0..Len(hist)}

TCorruptProbe ==
  /\ IsEv("CorruptProbe")
  /\ LET final == [k \in Keys |-> AbstractAt(hist, k, Len(hist))]
         okVal(k, v) == \/ v = -1
                        \/ (IF Ev.kind = "wal" THEN v \in AllowedAfterWalDamage(k, Ev.n)
                            ELSE v = final[k])
         staleVal(k, v) == v \in EverHad(k)
         gotAll == [k \in Keys |-> <<Ev.gets[k], Ev.gets2[k]>>]
         \* (third round: after a manual compaction that had the damaged file among its inputs)
         g3 == IF "gets3" \in DOMAIN Ev THEN Ev.gets3 ELSE [k \in Keys |-> -1]
         badKeys == {k \in Keys : ~okVal(k, Ev.gets[k]) \/ ~okVal(k, Ev.gets2[k]) \/ ~okVal(k, g3[k])}
         onlyStaleGets == \A k \in badKeys : staleVal(k, Ev.gets[k]) /\ staleVal(k, Ev.gets2[k])
                                              /\ (g3[k] = -1 \/ staleVal(k, g3[k]))
         ordered(sq, rev) == \A i \in 1..(Len(sq) - 1) :
                               IF rev THEN sq[i][1] > sq[i + 1][1] ELSE sq[i][1] < sq[i + 1][1]
         inKeys(sq) == \A i \in 1..Len(sq) : sq[i][1] \in Keys
         exact(sq) == /\ \A i \in 1..Len(sq) : okVal(sq[i][1], sq[i][2])
                      /\ (Ev.kind = "wal" \/ {sq[i][1] : i \in 1..Len(sq)} = {k \in Keys : final[k] # 0})
         \* classification of a scan that reported success
         scanClass(ok, sq, rev) ==
            IF ~ok THEN "ok"
            ELSE IF ~inKeys(sq) \/ ~ordered(sq, rev) THEN "wrong"
            ELSE IF exact(sq) THEN "ok"
            ELSE IF \A i \in 1..Len(sq) : okVal(sq[i][1], sq[i][2]) THEN "incomplete"
            ELSE IF \A i \in 1..Len(sq) : staleVal(sq[i][1], sq[i][2]) THEN "stale"
            ELSE "wrong"
         worst(a, b) == IF "wrong" \in {a, b} THEN "wrong" ELSE IF "stale" \in {a, b} THEN "stale"
                        ELSE IF "incomplete" \in {a, b} THEN "incomplete" ELSE "ok"
         sc == worst(worst(scanClass(Ev.fwdok, Ev.fwd, FALSE), scanClass(Ev.bwdok, Ev.bwd, TRUE)),
                     IF "fwd3" \in DOMAIN Ev THEN scanClass(Ev.fwd3ok, Ev.fwd3, FALSE) ELSE "ok")
         det == [keys |-> <<Ev.n, Ev.off, Ev.mode>>, at |-> 0]
         sfx == ("_" \o Ev.kind) \o (IF Ev.field = "any" THEN "" ELSE "_" \o Ev.field)
         v0 == IF Ev.hang THEN ObsViol(<<"C15", "C09">>, "CorruptionHang" \o sfx, det) ELSE <<>>
         v1 == IF Ev.open_ok /\ badKeys # {}
               THEN ObsViol(<<"C15">>, (IF onlyStaleGets THEN "CorruptionServedStaleValue"
                                        ELSE "CorruptionServedWrongValue") \o sfx,
                            [keys |-> <<Ev.n, Ev.off, Ev.mode>> \o SetToSeq(badKeys), at |-> 0])
               ELSE <<>>
         v2 == IF Ev.open_ok /\ sc # "ok"
               THEN ObsViol(<<"C15">>,
                      (CASE sc = "incomplete" -> "CorruptionScanIncomplete"
                         [] sc = "stale" -> "CorruptionScanStale"
                         [] OTHER -> "CorruptionScanWrong") \o sfx, det)
               ELSE <<>>
         v3 == IF Ev.panic THEN ObsViol(<<"C15P">>, "CorruptionPanic" \o sfx, det) ELSE <<>> IN
     JudgeAnd(((v0 \o v1) \o v2) \o v3)
  /\ Step(FALSE, "")
  /\ UNCHANGED <<coreVars, runInfo, keep, lastIter, manNo, isOpen, flushed, gpins, deferred,
                 ackStore, inflight>>

---------------------------------------------------------------------------
(* filesystem operations (SimFs journal) *)

TFs ==
  /\ IsEv("Fs")
  /\ LET d == <<Ev.kind, Ev.n>> IN
     disk' = CASE Ev.op = "create" -> disk \cup {d}
               [] Ev.op = "remove" -> disk \ {d}
               [] Ev.op = "rename" -> (disk \ {d}) \cup {<<Ev.tokind, Ev.ton>>}
               [] OTHER -> disk
  \* the log format (RainLog: WriterPosition): a fragment never crosses a 32 KiB block boundary and
  \* never starts in the last 6 bytes of a block - i.e. the writer knows where in the file it is
  \* (it does not if the size query at reopen-for-append failed and the failure was swallowed).
  \* Judged on the CONTENTS of the file after the write (SimFs parses the log items incrementally,
  \* field logbad), not on the individual write call: a writer may hand a whole multi-block record,
  \* trailers included, to the file in one call
  \* the manifest that CURRENT names is what the next open (crash recovery included) starts from
  /\ JudgeAnd2(IF Ev.op = "remove" /\ Ev.kind = "manifest" /\ Ev.named = 1
               THEN ObsViol(IF FaultMode THEN <<"C11", "C08">> ELSE <<"C11", "C02">>,
                            "ManifestNamedByCurrentDeleted", [keys |-> <<Ev.n>>, at |-> 0])
               ELSE <<>>,
               IF Ev.op = "write" /\ Ev.kind \in {"wal", "manifest"}
              THEN IF Ev.logbad = 1
                   THEN ObsViol(IF FaultMode THEN <<"C08", "C12">> ELSE <<"C12">>,
                                "LogWriterMisplaced", [keys |-> <<Ev.n, Ev.off, Ev.len>>, at |-> 0])
                   ELSE <<>>
              ELSE <<>>)
  /\ Step(Ev.op \in {"remove", "rename"}, "Fs")
  /\ UNCHANGED <<nk, seq, hist, mem, imm, immOn, immDone, immWal, files, cur, pins, snaps,
                 pending, comp, nextFile, curWal, logWal, nextPin, gcDue, runInfo, keep, lastIter,
                 manNo, isOpen, flushed, gpins, deferred, ackStore, inflight>>

---------------------------------------------------------------------------
(* recovery *)

TRecoverManifest ==
  /\ IsEv("RecoverManifest")
  /\ cur' = ToVer(Ev.levels)
  /\ seq' = Ev.last /\ logWal' = Ev.wal /\ nextFile' = Ev.next /\ manNo' = Ev.man
  /\ mem' = {} /\ imm' = {} /\ immOn' = FALSE /\ immDone' = FALSE /\ immWal' = 0
  /\ pins' = {} /\ snaps' = <<>> /\ pending' = {} /\ comp' = NoComp
  /\ curWal' = 0
  /\ Judge /\ Step(FALSE, "")
  /\ keep' = <<>> /\ lastIter' = 0 /\ isOpen' = FALSE /\ flushed' = FALSE
  /\ gpins' = {} /\ deferred' = {}
  /\ UNCHANGED <<nk, hist, files, disk, nextPin, gcDue, runInfo, ackStore, inflight>>

\* the database is open: adopt the recovered memtable, sequence number and WAL
TOpened ==
  /\ IsEv("Opened")
  /\ mem' = ToEntries(Ev.mem)
  /\ curWal' = Ev.wal
  /\ seq' = Ev.seq
  \* a clean reopen must not lose or invent sequence numbers
  /\ hist' = IF Ev.seq > Len(hist)
             THEN hist \o [i \in 1..(Ev.seq - Len(hist)) |-> <<0, 0, 0>>] ELSE hist
  /\ JudgeAnd(IF Ev.seq < Len(hist) /\ ~FaultMode
              THEN ObsViol(<<"C01">>, "SeqRegressed", [keys |-> <<Ev.seq, Len(hist)>>, at |-> 0])
              ELSE <<>>)
  /\ Step(TRUE, "Opened")
  /\ isOpen' = TRUE
  /\ UNCHANGED <<nk, imm, immOn, immDone, immWal, files, cur, pins, snaps, pending, comp, disk,
                 nextFile, logWal, nextPin, gcDue, runInfo, keep, lastIter, manNo, flushed, gpins,
                 deferred, ackStore, inflight>>

TOpenRet ==
  /\ IsEv("OpenRet")
  /\ JudgeAnd(IF Ev.ok THEN <<>>
              ELSE IF FaultMode
              THEN (IF runInfo.disarmed
                    THEN ObsViol(<<"C08">>, "ReopenFailedAfterFault", [keys |-> <<>>, at |-> 0])
                    ELSE <<>>)
              ELSE ObsViol(<<"C01", "C02">>, "OpenFailed", [keys |-> <<>>, at |-> 0]))
  /\ Step(FALSE, "")
  /\ UNCHANGED <<coreVars, runInfo, keep, lastIter, manNo, isOpen, flushed, gpins, deferred, ackStore, inflight>>

TClosed ==
  /\ IsEv("Closed")
  /\ Judge /\ Step(FALSE, "")
  /\ isOpen' = FALSE /\ pins' = {} /\ snaps' = <<>> /\ comp' = NoComp /\ pending' = {}
  /\ keep' = <<>> /\ gpins' = {}
  /\ UNCHANGED <<nk, seq, hist, mem, imm, immOn, immDone, immWal, files, cur, disk, nextFile,
                 curWal, logWal, nextPin, gcDue, runInfo, lastIter, manNo, flushed, deferred, ackStore, inflight>>

---------------------------------------------------------------------------
(* write path *)

OpEntry(o, s) == <<o.key, s, o.op, IF o.op = 1 THEN o.val ELSE 0>>

TCommit ==
  /\ IsEv("Commit")
  /\ LET n == Len(Ev.ops)
         ents == {OpEntry(Ev.ops[i], Ev.first + i - 1) : i \in 1..n}
         \* normally first = Len(hist) + 1; after a recovery that lost unacknowledged or failed
         \* writes sequence numbers are handed out again
         base == IF Ev.first <= Len(hist) THEN SubSeq(hist, 1, Ev.first - 1)
                 ELSE hist \o [i \in 1..(Ev.first - 1 - Len(hist)) |-> <<0, 0, 0>>] IN
     /\ IF Ev.ok
        THEN /\ hist' = base \o
                        [i \in 1..n |-> <<Ev.ops[i].key, Ev.ops[i].op,
                                          IF Ev.ops[i].op = 1 THEN Ev.ops[i].val ELSE 0>>]
             /\ mem' = mem \cup ents
        ELSE /\ hist' = base \o [i \in 1..n |-> <<0, 0, 0>>]
             /\ mem' = mem
     /\ seq' = Ev.first + n - 1
     /\ JudgeAnd(IF Ev.first <= Len(hist) /\ ~FaultMode
                 THEN ObsViol(<<"C01">>, "SeqReused", [keys |-> <<Ev.first, Len(hist)>>, at |-> 0])
                 ELSE <<>>)
  /\ Step(TRUE, "Commit")
  \* first sequence number logged to each write-ahead log (for C15: what a damaged WAL may lose)
  /\ runInfo' = IF Ev.wal \in DOMAIN runInfo.walFirst THEN runInfo
                ELSE [runInfo EXCEPT !.walFirst =
                        [w \in DOMAIN @ \cup {Ev.wal} |-> IF w = Ev.wal THEN Ev.first ELSE @[w]]]
  /\ UNCHANGED <<nk, imm, immOn, immDone, immWal, files, cur, pins, snaps, pending, comp, disk,
                 nextFile, curWal, logWal, nextPin, gcDue, keep, lastIter, manNo, isOpen,
                 flushed, gpins, deferred, ackStore, inflight>>

TRotate ==
  /\ IsEv("Rotate")
  /\ imm' = mem /\ immOn' = TRUE /\ mem' = {} /\ immDone' = FALSE /\ immWal' = curWal
  /\ curWal' = Ev.newwal
  /\ Judge /\ Step(TRUE, "Rotate")
  /\ UNCHANGED <<nk, seq, hist, files, cur, pins, snaps, pending, comp, disk, nextFile, logWal,
                 nextPin, gcDue, runInfo, keep, lastIter, manNo, isOpen, flushed, gpins, deferred, ackStore, inflight>>

---------------------------------------------------------------------------
(* version edits: flush, compaction, trivial move, recovery *)

AddedFiles(adds) ==
  LET withEnts == {i \in 1..Len(adds) : HasEnts(adds[i])} IN
  [no \in {adds[i].f : i \in withEnts} |->
     LET i == CHOOSE j \in withEnts : adds[j].f = no IN ToEntries(adds[i].ents)]

TEdit ==
  /\ IsEv("Edit")
  /\ IF Ev.ok
     THEN /\ cur' = ToVer(Ev.levels)
          /\ files' = AddedFiles(Ev.add) @@ files
          /\ logWal' = Ev.wal
          /\ manNo' = Ev.man
          /\ immDone' = (immOn /\ (immDone \/ flushed))
          /\ pending' = pending \ {Ev.add[i].f : i \in 1..Len(Ev.add)}
     ELSE UNCHANGED <<cur, files, logWal, manNo, immDone, pending>>
  \* RainCore.FlushInstall: a memtable flushed from inside the merge loop of a table compaction
  \* stays in level 0 (the compaction's outputs will cover the gaps between its inputs)
  /\ LET v1 == IF Ev.ok /\ flushed /\ comp.on /\ ~FaultMode
                    /\ \E i \in 1..Len(Ev.add) : Ev.add[i].level > 0
               THEN ObsViol(<<"C07", "C10">>, "FlushBelowLevel0DuringCompaction",
                            [keys |-> <<Ev.add[1].f, Ev.add[1].level>>, at |-> 0])
               ELSE <<>>
         \* the version that was installed is the previous one with exactly this edit applied
         \* (the edit is what the manifest holds: a reopen replays it)
         dels(lv) == {Ev.del[i].f : i \in {j \in 1..Len(Ev.del) : Ev.del[j].level = lv}}
         adds(lv) == {ToFileRec(Ev.add[i]) : i \in {j \in 1..Len(Ev.add) : Ev.add[j].level = lv}}
         expect(lv) == {r \in SeqSet(cur[lv]) : r.no \notin dels(lv)} \cup adds(lv)
         got == ToVer(Ev.levels)
         wrongLevels == {lv \in 0..(NL - 1) : SeqSet(got[lv]) # expect(lv)}
         v2 == IF Ev.ok /\ wrongLevels # {}
               THEN ObsViol(<<"C07", "C10">>, "InstalledVersionIsNotTheEditApplied",
                            [keys |-> SetToSeq(wrongLevels), at |-> 0])
               ELSE <<>> IN
     JudgeAnd(v1 \o v2)
  /\ Step(Ev.ok, "Edit")
  /\ flushed' = FALSE
  /\ UNCHANGED <<nk, seq, hist, mem, imm, immOn, immWal, pins, snaps, comp, disk, nextFile,
                 curWal, nextPin, gcDue, runInfo, keep, lastIter, isOpen, gpins, deferred, ackStore, inflight>>

TFlushBuilt ==
  /\ IsEv("FlushBuilt")
  /\ flushed' = TRUE
  /\ Judge /\ Step(FALSE, "")
  /\ UNCHANGED <<coreVars, runInfo, keep, lastIter, manNo, isOpen, gpins, deferred, ackStore, inflight>>

TImmDropped ==
  /\ IsEv("ImmDropped")
  /\ immOn' = FALSE /\ imm' = {} /\ immDone' = FALSE
  /\ Judge /\ Step(TRUE, "ImmDropped")
  /\ UNCHANGED <<nk, seq, hist, mem, immWal, files, cur, pins, snaps, pending, comp, disk,
                 nextFile, curWal, logWal, nextPin, gcDue, runInfo, keep, lastIter, manNo, isOpen, flushed, gpins, deferred, ackStore, inflight>>

TPicked ==
  /\ IsEv("Picked")
  /\ comp' = IF Ev.trivial THEN comp
             ELSE [on |-> TRUE, lvl |-> Ev.level, in0 |-> SeqSet(Ev.in0), in1 |-> SeqSet(Ev.in1),
                   ver |-> cur, todo |-> {}, outs |-> {}]
  /\ Judge /\ Step(FALSE, "")
  /\ UNCHANGED <<nk, seq, hist, mem, imm, immOn, immDone, immWal, files, cur, pins, snaps,
                 pending, disk, nextFile, curWal, logWal, nextPin, gcDue, runInfo, keep, lastIter,
                 manNo, isOpen, flushed, gpins, deferred, ackStore, inflight>>

TOutputOpened ==
  /\ IsEv("OutputOpened")
  /\ pending' = pending \cup {Ev.f}
  /\ Judge /\ Step(FALSE, "")
  /\ UNCHANGED <<nk, seq, hist, mem, imm, immOn, immDone, immWal, files, cur, pins, snaps, comp,
                 disk, nextFile, curWal, logWal, nextPin, gcDue, runInfo, keep, lastIter, manNo, isOpen, flushed, gpins, deferred, ackStore, inflight>>

TCompactionDone ==
  /\ IsEv("CompactionDone")
  /\ comp' = NoComp
  /\ pending' = pending \ SeqSet(Ev.outputs)
  /\ Judge /\ Step(FALSE, "")
  /\ UNCHANGED <<nk, seq, hist, mem, imm, immOn, immDone, immWal, files, cur, pins, snaps, disk,
                 nextFile, curWal, logWal, nextPin, gcDue, runInfo, keep, lastIter, manNo, isOpen, flushed, gpins, deferred, ackStore, inflight>>

---------------------------------------------------------------------------
(* snapshots and iterators *)

TSnapshot ==
  /\ IsEv("Snapshot")
  /\ snaps' = Append(snaps, Ev.seq)
  /\ Judge /\ Step(FALSE, "")
  /\ UNCHANGED <<nk, seq, hist, mem, imm, immOn, immDone, immWal, files, cur, pins, pending,
                 comp, disk, nextFile, curWal, logWal, nextPin, gcDue, runInfo, keep, lastIter, manNo,
                 isOpen, flushed, gpins, deferred, ackStore, inflight>>

RemoveOne(sq, x) ==
  IF \E i \in 1..Len(sq) : sq[i] = x
  THEN LET i == CHOOSE j \in 1..Len(sq) : sq[j] = x /\ \A m \in 1..(j - 1) : sq[m] # x IN
       [j \in 1..(Len(sq) - 1) |-> IF j < i THEN sq[j] ELSE sq[j + 1]]
  ELSE sq

TRelease ==
  /\ IsEv("Release")
  /\ snaps' = RemoveOne(snaps, Ev.seq)
  /\ Judge /\ Step(FALSE, "")
  /\ UNCHANGED <<nk, seq, hist, mem, imm, immOn, immDone, immWal, files, cur, pins, pending,
                 comp, disk, nextFile, curWal, logWal, nextPin, gcDue, runInfo, keep, lastIter, manNo,
                 isOpen, flushed, gpins, deferred, ackStore, inflight>>

TIterNew ==
  /\ IsEv("IterNew")
  /\ pins' = pins \cup {[id |-> Ev.id, mem |-> mem, imm |-> IF immOn THEN imm ELSE {},
                         ver |-> cur, seq |-> Ev.seq, rel |-> FALSE]}
  /\ lastIter' = Ev.id
  /\ Judge /\ Step(FALSE, "")
  /\ UNCHANGED <<nk, seq, hist, mem, imm, immOn, immDone, immWal, files, cur, snaps, pending,
                 comp, disk, nextFile, curWal, logWal, nextPin, gcDue, runInfo, keep, manNo, isOpen, flushed, gpins, deferred, ackStore, inflight>>

TIterDrop ==
  /\ IsEv("IterDrop")
  /\ pins' = {IF p.id = Ev.id THEN [p EXCEPT !.rel = TRUE] ELSE p : p \in pins}
  /\ keep' = SelectSeq(keep, LAMBDA x : x # Ev.id)
  /\ Judge /\ Step(FALSE, "")
  /\ UNCHANGED <<nk, seq, hist, mem, imm, immOn, immDone, immWal, files, cur, snaps, pending,
                 comp, disk, nextFile, curWal, logWal, nextPin, gcDue, runInfo, lastIter, manNo, isOpen, flushed, gpins, deferred, ackStore, inflight>>

TIterDropped ==
  /\ IsEv("IterDropped")
  /\ pins' = {p \in pins : p.id # Ev.id}
  /\ Judge /\ Step(FALSE, "")
  /\ UNCHANGED <<nk, seq, hist, mem, imm, immOn, immDone, immWal, files, cur, snaps, pending,
                 comp, disk, nextFile, curWal, logWal, nextPin, gcDue, runInfo, keep, lastIter,
                 manNo, isOpen, flushed, gpins, deferred, ackStore, inflight>>

TIterKeep ==
  /\ IsEv("IterKeep")
  /\ keep' = Append(keep, lastIter)
  /\ Judge /\ Step(FALSE, "")
  /\ UNCHANGED <<coreVars, runInfo, lastIter, manNo, isOpen, flushed, gpins, deferred, ackStore, inflight>>

TGetCapture ==
  /\ IsEv("GetCapture")
  /\ gpins' = {g \in gpins : g.t # Ev.t} \cup {[t |-> Ev.t, ver |-> cur]}
  /\ Judge /\ Step(FALSE, "")
  /\ UNCHANGED <<coreVars, runInfo, keep, lastIter, manNo, isOpen, flushed, deferred, ackStore, inflight>>

TGetDone ==
  /\ IsEv("GetDone")
  /\ gpins' = {g \in gpins : g.t # Ev.t}
  /\ Judge /\ Step(FALSE, "")
  /\ UNCHANGED <<coreVars, runInfo, keep, lastIter, manNo, isOpen, flushed, deferred, ackStore, inflight>>

\* a deletion pass: remember the tables it keeps only because a read view still pins them
TObsoleteCollected ==
  /\ IsEv("ObsoleteCollected")
  /\ deferred' = deferred \cup
        {n \in UNION {FileNos(v, NL) : v \in ReadViews} :
            n \notin FileNos(cur, NL) /\ n \notin pending /\ <<"table", n>> \in disk}
  /\ Judge /\ Step(FALSE, "")
  /\ UNCHANGED <<coreVars, runInfo, keep, lastIter, manNo, isOpen, flushed, gpins, ackStore, inflight>>

---------------------------------------------------------------------------
(* observations *)

ScanOK(ok, got, want) == ok /\ got = want

TObs ==
  /\ IsEv("Obs")
  /\ ~FaultMode
  /\ LET s == IF Ev.at = -1 THEN seq ELSE Ev.at
         vis == Visible(hist, s, nk)
         wrong == {k \in Keys : Ev.gets[k] # AbstractAt(hist, k, s)}
         model == {k \in Keys : Ev.gets[k] # Get(k, s) /\ Ev.gets[k] = AbstractAt(hist, k, s)}
         pr == IF Ev.at = -1 THEN <<"C01">> ELSE <<"C03">>
         v1 == IF wrong # {} THEN ObsViol(pr, "GetWrong", [keys |-> SetToSeq(wrong), at |-> s])
               ELSE <<>>
         v2 == IF ~ScanOK(Ev.fwdok, Ev.fwd, vis)
               THEN ObsViol(<<"C04">> \o pr, "ScanFwdWrong", [keys |-> <<>>, at |-> s]) ELSE <<>>
         v3 == IF ~ScanOK(Ev.bwdok, Ev.bwd, RevSeq(vis))
               THEN ObsViol(<<"C04">> \o pr, "ScanBwdWrong", [keys |-> <<>>, at |-> s]) ELSE <<>>
         v4 == IF model # {}
               THEN ObsViol(<<"MODEL">>, "LookupDiffers", [keys |-> SetToSeq(model), at |-> s])
               ELSE <<>> IN
     JudgeAnd(((v1 \o v2) \o v3) \o v4)
  /\ Step(FALSE, "")
  /\ UNCHANGED <<coreVars, runInfo, keep, lastIter, manNo, isOpen, flushed, gpins, deferred, ackStore, inflight>>

TObsFault ==
  /\ IsEv("Obs")
  /\ FaultMode
  /\ JudgeAnd(FaultObsViol)
  /\ Step(FALSE, "")
  /\ UNCHANGED <<coreVars, runInfo, keep, lastIter, manNo, isOpen, flushed, gpins, deferred,
                 ackStore, inflight>>

PinById(id) == CHOOSE p \in pins : p.id = id

TIterObs ==
  /\ IsEv("IterObs")
  /\ Ev.idx + 1 <= Len(keep)
  /\ \E p \in pins : p.id = keep[Ev.idx + 1]
  /\ LET p == PinById(keep[Ev.idx + 1])
         vis == Visible(hist, p.seq, nk)
         v2 == IF ~ScanOK(Ev.fwdok, Ev.fwd, vis)
               THEN ObsViol(<<"C03", "C04">>, "IterFwdWrong", [keys |-> <<>>, at |-> p.seq])
               ELSE <<>>
         v3 == IF ~ScanOK(Ev.bwdok, Ev.bwd, RevSeq(vis))
               THEN ObsViol(<<"C03", "C04">>, "IterBwdWrong", [keys |-> <<>>, at |-> p.seq])
               ELSE <<>> IN
     JudgeAnd(v2 \o v3)
  /\ Step(FALSE, "")
  /\ UNCHANGED <<coreVars, runInfo, keep, lastIter, manNo, isOpen, flushed, gpins, deferred, ackStore, inflight>>

\* cursor walk against the sorted map: steps are <<move, arg, key, value>>; position 0 = invalid
FirstAtLeast(vis, k) ==
  LET C == {i \in 1..Len(vis) : vis[i][1] >= k} IN IF C = {} THEN 0 ELSE SetMin(C)

MoveTo(vis, pos, m, arg) ==
  CASE m = 0 -> IF Len(vis) > 0 THEN 1 ELSE 0
    [] m = 1 -> Len(vis)
    [] m = 2 -> FirstAtLeast(vis, arg)
    [] m = 3 -> IF pos = 0 THEN 0 ELSE IF pos + 1 <= Len(vis) THEN pos + 1 ELSE 0
    [] OTHER -> IF pos = 0 THEN 0 ELSE pos - 1

RECURSIVE WalkOK(_, _, _, _)
WalkOK(vis, steps, i, pos) ==
  IF i > Len(steps) THEN TRUE
  ELSE LET st == steps[i]
           np == MoveTo(vis, pos, st[1], st[2])
           want == IF np = 0 THEN <<0, 0>> ELSE vis[np] IN
       /\ <<st[3], st[4]>> = want
       /\ WalkOK(vis, steps, i + 1, np)

\* the walk starts wherever the previous scan left the cursor: the driver's scans end invalid,
\* and every walk the driver generates begins with an absolute move, so position 0 is right
TIterWalk ==
  /\ IsEv("IterWalk")
  /\ Ev.idx + 1 <= Len(keep)
  /\ \E p \in pins : p.id = keep[Ev.idx + 1]
  /\ LET p == PinById(keep[Ev.idx + 1])
         vis == Visible(hist, p.seq, nk) IN
     JudgeAnd(IF WalkOK(vis, Ev.steps, 1, 0) THEN <<>>
              ELSE ObsViol(<<"C04">>, "WalkWrong", [keys |-> <<>>, at |-> p.seq]))
  /\ Step(FALSE, "")
  /\ UNCHANGED <<coreVars, runInfo, keep, lastIter, manNo, isOpen, flushed, gpins, deferred, ackStore, inflight>>

\* a random walk on a fresh iterator at the latest sequence or at a snapshot
TFreshWalk ==
  /\ IsEv("FreshWalk")
  /\ LET s == IF Ev.at = -1 THEN seq ELSE Ev.at
         vis == Visible(hist, s, nk) IN
     JudgeAnd(IF FaultMode \/ WalkOK(vis, Ev.steps, 1, 0) THEN <<>>
              ELSE ObsViol(<<"C04">> \o (IF Ev.at = -1 THEN <<>> ELSE <<"C03">>), "FreshWalkWrong",
                           [keys |-> <<>>, at |-> s]))
  /\ Step(FALSE, "")
  /\ UNCHANGED <<coreVars, runInfo, keep, lastIter, manNo, isOpen, flushed, gpins, deferred,
                 ackStore, inflight>>

---------------------------------------------------------------------------
(* quiescent dumps: bind the reconstructed state to the real one and judge the shape *)

DirSet(js) == {<<js[i][1], js[i][2]>> : i \in 1..Len(js)}

ExpectedDir ==
  {<<"current", 0>>, <<"lock", 0>>, <<"manifest", manNo>>}
  \cup {<<"table", n>> : n \in FileNos(cur, NL)}
  \cup {d \in disk : d[1] = "wal" /\ d[2] >= logWal}

TDump ==
  /\ IsEv("Dump")
  /\ LET real == ToVer(Ev.levels)
         dir == DirSet(Ev.dir)
         b1 == IF Ev.seq # seq THEN ObsViol(<<"BIND">>, "SeqDiffers", [keys |-> <<Ev.seq, seq>>, at |-> 0]) ELSE <<>>
         b2 == IF real # cur THEN ObsViol(<<"BIND">>, "VersionDiffers", [keys |-> <<>>, at |-> 0]) ELSE <<>>
         b3 == IF dir # disk THEN ObsViol(<<"BIND">>, "DirDiffers",
                     [keys |-> SetToSeq((dir \ disk) \cup (disk \ dir)), at |-> 0]) ELSE <<>>
         c10 == IF ~WellFormedVer(real, files, NL)
                THEN ObsViol(<<"C10">>, "IllFormed", [keys |-> <<>>, at |-> 0]) ELSE <<>>
         \* the PUBLIC descriptors (NumFilesAtLevel, SSTables) must report the same layout
         accNfl == [i \in 1..Len(Ev.levels) |-> Len(Ev.levels[i])]
         accSst == [i \in 1..Len(Ev.levels) |->
                      [j \in 1..Len(Ev.levels[i]) |-> <<Ev.levels[i][j].f, Ev.levels[i][j].size>>]]
         d10 == IF "descr" \notin DOMAIN Ev THEN <<>>
                ELSE IF Ev.descr # "ok"
                THEN ObsViol(<<"C10", "C09">>, "DescriptorFailed", [keys |-> <<>>, at |-> 0])
                ELSE IF Ev.nfl # accNfl \/ Ev.sst # accSst
                THEN ObsViol(<<"C10">>, "DescriptorDisagrees", [keys |-> Ev.nfl, at |-> 0])
                ELSE <<>>
         quiet == Ev.pins = 0 /\ Ev.nsnaps = 0 /\ ~Ev.imm /\ ~Ev.bad
         extra == {d[2] : d \in {x \in dir \ ExpectedDir : x[1] = "table"}}
         c11 == IF quiet /\ dir # ExpectedDir
                THEN IF (ExpectedDir \subseteq dir) /\ (\A x \in dir \ ExpectedDir : x[1] = "table")
                        /\ extra \subseteq deferred
                     THEN ObsViol(<<"C11">>, "DeferredReclaim",
                            [keys |-> SetToSeq(dir \ ExpectedDir), at |-> Ev.live])
                     ELSE ObsViol(<<"C11">>, "DirNotExact",
                            [keys |-> SetToSeq((dir \ ExpectedDir) \cup (ExpectedDir \ dir)), at |-> Ev.live])
                ELSE <<>>
         \* with no iterator, no snapshot and no call in flight exactly ONE version is linked: a
         \* superseded version that nobody holds any more but that is still in the list pins its
         \* files for good (this is not the deferred reclamation of the known finding, where the
         \* version IS unlinked and only the next deletion pass is missing)
         leak == IF quiet /\ Ev.live > 1
                 THEN ObsViol(<<"C11">>, "VersionLeakAtQuiescence", [keys |-> <<Ev.live>>, at |-> Ev.live])
                 ELSE <<>> IN
     JudgeAnd((((((b1 \o b2) \o b3) \o c10) \o d10) \o c11) \o leak)
  /\ Step(FALSE, "")
  /\ UNCHANGED <<coreVars, runInfo, keep, lastIter, manNo, isOpen, flushed, gpins, deferred, ackStore, inflight>>

---------------------------------------------------------------------------
(* liveness observations *)

THang ==
  /\ IsEv("Hang")
  \* after an injected failure a call that never returns has neither reported the error nor taken effect
  /\ JudgeAnd(ObsViol(IF FaultMode THEN <<"C08", "C09">> ELSE <<"C09">>, "Hang", [keys |-> <<>>, at |-> 0]))
  /\ Step(FALSE, "")
  /\ UNCHANGED <<coreVars, runInfo, keep, lastIter, manNo, isOpen, flushed, gpins, deferred, ackStore, inflight>>

TPanic ==
  /\ IsEv("Panic")
  \* a panic inside a client call: the call did not return what the property says it returns
  /\ LET d == IF "during" \in DOMAIN Ev THEN Ev.during ELSE ""
         props == IF d \in {"scan", "freshwalk", "iterscan", "iterwalk", "new_iterator"}
                  THEN <<"C09", "C04", "C03">>
                  ELSE IF d = "get" THEN <<"C09", "C01", "C03">>
                  ELSE <<"C09">>
         \* after an injected I/O error a panic (of the worker: everything waiting for it hangs)
         \* is not the reported error C08 asks for
         props2 == IF FaultMode THEN props \o <<"C08">> ELSE props IN
     JudgeAnd(ObsViol(props2, "Panic", [keys |-> <<>>, at |-> 0]))
  /\ Step(FALSE, "")
  /\ UNCHANGED <<coreVars, runInfo, keep, lastIter, manNo, isOpen, flushed, gpins, deferred, ackStore, inflight>>

---------------------------------------------------------------------------

TraceNext ==
  \/ TReset \/ TEnd \/ TStutter \/ TFs \/ TCall \/ TRet \/ TProbe \/ TCorruptProbe
  \/ TRecoverManifest \/ TOpened \/ TOpenRet \/ TClosed
  \/ TCommit \/ TRotate \/ TEdit \/ TFlushBuilt \/ TImmDropped \/ TPicked \/ TOutputOpened \/ TCompactionDone
  \/ TSnapshot \/ TRelease \/ TIterNew \/ TIterDrop \/ TIterDropped \/ TIterKeep
  \/ TGetCapture \/ TGetDone \/ TObsoleteCollected
  \/ TObs \/ TObsFault \/ TDisarm \/ TFreshWalk \/ TIterObs \/ TIterWalk \/ TDump \/ THang \/ TPanic

TraceSpec == TraceInit /\ [][TraceNext]_allVars

\* the whole file was consumed
TraceAccepted ==
  LET d == TLCGet("stats").diameter IN
  IF d = Len(Rec) + 1 THEN TRUE
  ELSE Print(<<"@@REJECT", ToJson([matched |-> d - 1, total |-> Len(Rec),
                                   next |-> IF d <= Len(Rec) THEN Rec[d] ELSE Rec[Len(Rec)]])>>, FALSE)
=============================================================================
