SPECIFICATION FairSpec
CONSTANTS
  Procs = {p1, p2, p3}
  None = None
  Bug_LockAfterRecovery = FALSE
  Bug_ReleaseBeforeBgStops = FALSE
  Bug_DestroyIgnoresLock = FALSE
  Bug_OpenTruncatesOnFailure = FALSE
  Bug_UnlinkLockAfterRelease = FALSE
  Bug_DestroyWipesAfterRelease = FALSE
INVARIANTS TypeOK OneOwner IntruderFailsCleanly OnlyOwnerWrites AtMostOneWinner
PROPERTIES SomeWinner CallsReturn
CHECK_DEADLOCK TRUE
