---------------------------- MODULE MC_RainConcF ----------------------------
(* RainConc with a failing WAL append: three writers, one plain reader *)
EXTENDS RainConc
MCWriters == {"w1", "w2", "w3"}
MCReaders == {"r1"}
MCSnapReaders == {}
MCBatchOf == [w \in MCWriters |-> IF w = "w1" THEN <<1, 2>> ELSE IF w = "w2" THEN <<1>> ELSE <<2>>]
=============================================================================
