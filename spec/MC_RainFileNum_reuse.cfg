SPECIFICATION Spec
CONSTANTS
  MaxNum = 9
  ReuseLogs = TRUE
  Bug_NoMarkWalUsed = FALSE
  Bug_InstallPersistsStale = FALSE
  Bug_GiveBackAlways = FALSE
INVARIANTS TypeOK NoClobber CounterCovers PersistedCovers NeededPresent
CHECK_DEADLOCK FALSE
