SPECIFICATION Spec
CONSTANTS
  Block = 16
  Hdr = 3
  Lens <- MCLens
  Fillers <- MCNoFiller
  MaxRecs = 3
  MaxReopen = 1
  MaxStop = 1
  MaxTrunc = 1
  TruncAll = TRUE
  AllowEagerPad = TRUE
  Bug_TrailerThresholdOffByOne = FALSE
  Bug_NoOffsetRestoreOnReopen = FALSE
  Bug_ReaderSplicesFragments = FALSE
  Bug_ReaderStopsAfterPartial = FALSE
INVARIANTS TypeOK WriterPosition RoundTrip PrefixSafe ExpectedSane
CHECK_DEADLOCK FALSE
