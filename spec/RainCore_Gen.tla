---------------------------- MODULE RainCore_Gen ----------------------------
(***************************************************************************)
(* Behaviour generator for spec -> implementation replay of the CORE model. *)
(* RainCore with a history variable `trail`: the action taken at every step *)
(* as a record [a, x, y, z] of integers / strings.  TLC prints behaviours   *)
(* (one JSON line each) in two ways:                                        *)
(*   - exhaustively (MC_RainCore_gen.cfg): `trail` is not part of the VIEW, *)
(*     so every DISTINCT model state within the depth bound is printed once *)
(*     with the first - breadth first: a shortest - behaviour that reaches   *)
(*     it: one test per reachable state of the small model;                 *)
(*   - in simulation mode (`-simulate`, MC_RainCore_gensim.cfg): the random *)
(*     behaviours of length GenDepth.                                       *)
(* The runner (bin/check.py, gen = "core") turns each behaviour into a      *)
(* history for the `hist` driver: writes become put / delete, Rotate a      *)
(* forced memtable flush, every compaction pick a compact_range over the    *)
(* picked file's (or the requested) user-key range, snapshot / iterator     *)
(* steps the same calls; the model's internal steps (install, emit,         *)
(* deletion pass) have no client call - the real database does them on its  *)
(* own.  After EVERY call the whole visible state is observed (gets, scans  *)
(* at the latest state, at every snapshot, through every iterator) and the  *)
(* recorded execution is judged by RainCore_Trace like any other.  What the *)
(* model decides (which level a flush goes to, where outputs are cut) the   *)
(* real code decides for itself; the replay fixes the CLIENT-visible order  *)
(* of writes, flushes, compactions, snapshots and iterators.                *)
(***************************************************************************)
EXTENDS MC_RainCore, Json

CONSTANT GenDepth

VARIABLE trail

T(a, x, y, z) == trail' = Append(trail, [a |-> a, x |-> x, y |-> y, z |-> z])

GenInit == Init /\ trail = <<>>

GenNext ==
  \/ \E k \in Keys, o \in Ops : Write(k, o) /\ T("w", k, o, 0)
  \/ Rotate /\ T("rot", 0, 0, 0)
  \/ \E l \in 0..2 : FlushInstall(l) /\ T("fl", l, 0, 0)
  \/ ImmDrop /\ T("id", 0, 0, 0)
  \/ RemoveObsolete /\ T("gc", 0, 0, 0)
  \/ \E l \in Levels : \E f \in LvlSet(cur, l) :
        \/ CompactPick(l, f) /\ T("cp", l, f.lo[1], f.hi[1])
        \/ TrivialMove(l, f) /\ T("tm", l, f.lo[1], f.hi[1])
  \/ \E l \in Levels : \E lo, hi \in Keys : CompactPickRange(l, lo, hi) /\ T("cp", l, lo, hi)
  \/ \E n \in 1..FileCap : CompactEmit(n) /\ T("ce", n, 0, 0)
  \/ CompactInstall /\ T("ci", 0, 0, 0)
  \/ TakeSnap /\ T("sn", 0, 0, 0)
  \/ \E i \in 1..Len(snaps) : RelSnap(i) /\ T("rs", i, 0, 0)
  \/ PinNew /\ T("pn", nextPin, 0, 0)
  \/ \E p \in pins : PinDrop(p) /\ T("pd", p.id, 0, 0)

GenSpec == GenInit /\ [][GenNext]_<<coreVars, trail>>

GenBound == MCBound /\ Len(trail) <= GenDepth

\* exhaustive mode: every distinct state is printed once (TLC evaluates an invariant once per
\* distinct state); states reached by internal steps only add nothing for a client-level replay
ClientStep(r) == r.a \in {"w", "rot", "cp", "tm", "sn", "rs", "pn", "pd"}
EmitAll ==
  (trail # <<>> /\ ClientStep(trail[Len(trail)])) => PrintT(<<"@@BEH", ToJson(trail)>>)

\* simulation mode: the behaviour when it has reached the depth
EmitAtDepth == (Len(trail) = GenDepth) => PrintT(<<"@@BEH", ToJson(trail)>>)
=============================================================================
