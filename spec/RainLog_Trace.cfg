SPECIFICATION TraceSpec
CONSTANTS
  Block = 32768
  Hdr = 7
  Lens = {0}
  Fillers <- TraceFillers
  MaxRecs = 1000000
  MaxReopen = 1000000
  MaxStop = 1000000
  MaxTrunc = 1
  TruncAll = FALSE
  AllowEagerPad = TRUE
  Bug_TrailerThresholdOffByOne = FALSE
  Bug_NoOffsetRestoreOnReopen = FALSE
  Bug_ReaderSplicesFragments = FALSE
  Bug_ReaderStopsAfterPartial = FALSE
INVARIANTS TypeOK WriterPosition RoundTrip PrefixSafe
POSTCONDITION TraceAccepted
CHECK_DEADLOCK FALSE
