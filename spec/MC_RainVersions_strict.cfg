SPECIFICATION Spec
CONSTANTS
  Readers <- MCReaders
  MaxVer = 4
  ReleaseTriggersPass = TRUE
  Bug_LookBeforeLock = FALSE
  Bug_FailedReadNoRelease = FALSE
  Bug_CompactionNoRelease = FALSE
  Bug_PassIgnoresHolders = FALSE
INVARIANTS TypeOK NothingHeldDeleted RefsExact NoLeakedVersion ExactWhenQuietStrict
CHECK_DEADLOCK FALSE
