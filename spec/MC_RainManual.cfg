SPECIFICATION FairSpec
CONSTANTS
  Callers = {"c1", "c2"}
  Work = 2
  Rotations = 2
  Bug_HoldRequestAcrossMerge = FALSE
  Bug_NotifyOne = FALSE
  Bug_NoRescheduleAtEnd = FALSE
INVARIANTS LockOrder SchedSane NoLostWaiter
PROPERTIES EveryCallReturns WorkerComesBack
CHECK_DEADLOCK TRUE
