------------------------------ MODULE RainDur ------------------------------
(***************************************************************************)
(* Durability protocol of raindb at the granularity of ONE MUTATING         *)
(* FILESYSTEM OPERATION (create/truncate, append, rename, remove), the      *)
(* vocabulary of raindb's public FileSystem trait.  The process may die     *)
(* between any two operations (Crash), optionally leaving the last append   *)
(* only partially on disk (Torn), also while it is recovering.              *)
(*                                                                         *)
(* The LSM structure is abstracted to "which batches does this file         *)
(* contain": a batch is identified by its number 1, 2, ... in commit order  *)
(* and is atomic by construction in the abstract store, so                  *)
(*   Durable: after every completed recovery the recovered set of batches   *)
(*            is {1..m} for some m with acked <= m <= started               *)
(* is exactly "every acknowledged write survives, the in-flight batch is    *)
(* there completely or not at all, and nothing else".                       *)
(*                                                                         *)
(* Disk model.  wal[n] / man[n]: sequences of log records; a record is      *)
(* [id, n, have]: n fragments, `have` of them on disk (complete iff          *)
(* have = n; a reader stops at the first incomplete record).  tab[n]:       *)
(* [bs, done] a table file with the batches it holds and whether the        *)
(* footer was written.  cur: manifest number CURRENT points to (0 = no      *)
(* CURRENT).  tmp: [n, done] the temp file used to switch CURRENT.          *)
(***************************************************************************)
EXTENDS Naturals, Sequences, FiniteSets, TLC

CONSTANTS
  MaxB,        \* number of write calls
  BigB,        \* set of batch ids whose WAL record spans 2 fragments
  MemCap,      \* batches per memtable before a rotation is forced
  MaxCrash,    \* bound on crashes
  MaxFile,     \* bound on file numbers (state constraint)
  Reuse,       \* set of BOOLEAN: reuse_log_files settings an open may use
  AllowTorn,   \* whether a crash may tear the last append
  MaxFaults,   \* bound on injected filesystem failures (C08)
  \* named deviations
  Bug_AckBeforeWal,            \* write acknowledged before the WAL append
  Bug_WalDeletedEarly,         \* old WAL removed before the manifest records the flush
  Bug_ManifestBeforeTable,     \* manifest record appended before the table is complete
  Bug_CurrentInPlace,          \* CURRENT truncated and rewritten in place
  Bug_RecoverSkipsOlderWal,    \* recovery replays only the newest WAL
  Bug_ReuseAfterTornTail,      \* a log with a partial trailing record is reused for appending
  Bug_WriteErrorSwallowed,     \* a failed WAL append is acknowledged as success
  Bug_ManifestErrorSwallowed,  \* a failed manifest append is treated as installed
  Bug_FileCounterNotRestored,  \* recovery takes the file-number counter from the manifest only
  Compaction,                  \* whether table compactions are part of the model (BOOLEAN)
  Bug_InputsDeletedBeforeManifest \* compaction inputs removed before the manifest records the output

VARIABLES
  \* ---- disk
  wal, man, tab, cur, tmp,
  \* ---- volatile (lost in a crash)
  up,        \* "down" | "rec" (recovering) | "up"
  pc,        \* step of the running multi-operation procedure
  mem, imm,  \* sets of batch ids
  ver,       \* set of table numbers of the current version
  curWal, logWal, manNo, nextFile, reuseOpt,
  recWals,   \* WALs still to replay during recovery
  job,       \* scratch of the running procedure
  bad,       \* sticky background error (volatile)
  \* ---- ghost
  started, acked, nextB, crashes, lastAppend,
  failed,    \* ids of write calls that returned an error
  faults     \* failures injected so far

disk == <<wal, man, tab, cur, tmp>>
vol == <<up, pc, mem, imm, ver, curWal, logWal, manNo, nextFile, reuseOpt, recWals, job, bad>>
ghost == <<started, acked, nextB, crashes, failed, faults>>
vars == <<disk, vol, ghost, lastAppend>>

None == [k |-> "none"]
NoAppend == lastAppend' = None

Frags(b) == IF b \in BigB THEN 2 ELSE 1

Complete(r) == r.have = r.n

\* what a log reader delivers: the complete records before the first incomplete one
RECURSIVE ReadLog(_)
ReadLog(recs) ==
  IF recs = <<>> THEN <<>>
  ELSE IF Complete(Head(recs)) THEN <<Head(recs)>> \o ReadLog(Tail(recs))
  ELSE <<>>

CleanLog(recs) == \A i \in 1..Len(recs) : Complete(recs[i])

RecIds(recs) == {recs[i].id : i \in 1..Len(recs)}

\* fold of the manifest records: [ver, logWal, next]
RECURSIVE FoldMan(_, _)
FoldMan(recs, acc) ==
  IF recs = <<>> THEN acc
  ELSE LET r == Head(recs).id IN
       FoldMan(Tail(recs), [ver |-> (acc.ver \ r.del) \cup r.add,
                            logWal |-> r.logWal, next |-> r.next])

Max(S) == IF S = {} THEN 0 ELSE CHOOSE x \in S : \A y \in S : y <= x

TabBatches(V) == UNION {tab[t].bs : t \in V \cap DOMAIN tab}

NextNo == nextFile + 1

---------------------------------------------------------------------------
Init ==
  /\ wal = <<>> /\ man = <<>> /\ tab = <<>> /\ cur = 0 /\ tmp = None
  /\ up = "down" /\ pc = "idle" /\ mem = {} /\ imm = {} /\ ver = {}
  /\ curWal = 0 /\ logWal = 0 /\ manNo = 0 /\ nextFile = 1 /\ reuseOpt = FALSE
  /\ recWals = <<>> /\ job = None
  /\ started = {} /\ acked = {} /\ nextB = 1 /\ crashes = 0 /\ lastAppend = None
  /\ failed = {} /\ faults = 0 /\ bad = FALSE

ResetVolatile ==
  /\ up' = "down" /\ pc' = "idle" /\ mem' = {} /\ imm' = {} /\ ver' = {}
  /\ curWal' = 0 /\ logWal' = 0 /\ manNo' = 0 /\ nextFile' = 1 /\ reuseOpt' = FALSE
  /\ recWals' = <<>> /\ job' = None /\ bad' = FALSE

---------------------------------------------------------------------------
(* appends: one fragment / chunk per step; lastAppend remembers what a torn crash damages *)

AppendFrag(log, n, id, nfrags) ==
  \* start a new record or add a fragment to the trailing incomplete one written by this call
  IF log[n] # <<>> /\ ~Complete(log[n][Len(log[n])]) /\ log[n][Len(log[n])].id = id
  THEN [log EXCEPT ![n] = [@ EXCEPT ![Len(@)] = [@ EXCEPT !.have = @ + 1]]]
  ELSE [log EXCEPT ![n] = Append(@, [id |-> id, n |-> nfrags, have |-> 1])]

---------------------------------------------------------------------------
(* OPEN / RECOVERY, one filesystem operation per step *)

StartOpen(r) ==
  /\ up = "down" /\ pc = "idle"
  /\ up' = "rec" /\ reuseOpt' = r
  /\ pc' = IF cur = 0 THEN "new1" ELSE "readman"
  /\ UNCHANGED <<disk, mem, imm, ver, curWal, logWal, manNo, nextFile, recWals, job, ghost, bad>>
  /\ NoAppend

\* NewDB: create MANIFEST-1, append the initial record, switch CURRENT
New1 ==
  /\ pc = "new1"
  /\ man' = (1 :> <<>>) @@ man
  /\ pc' = "new2"
  /\ UNCHANGED <<wal, tab, cur, tmp, up, mem, imm, ver, curWal, logWal, manNo, nextFile,
                 reuseOpt, recWals, job, ghost, bad>>
  /\ NoAppend

New2 ==
  /\ pc = "new2"
  /\ man' = AppendFrag(man, 1, [add |-> {}, del |-> {}, logWal |-> 0, next |-> 1], 1)
  /\ lastAppend' = [k |-> "man", n |-> 1]
  /\ job' = [k |-> "setcur", n |-> 1, ret |-> "readman"]
  /\ pc' = "cur1"
  /\ UNCHANGED <<wal, tab, cur, tmp, up, mem, imm, ver, curWal, logWal, manNo, nextFile,
                 reuseOpt, recWals, started, acked, nextB, crashes, bad, failed, faults>>

\* set_current_file: create temp, write it, rename onto CURRENT
Cur1 ==
  /\ pc = "cur1"
  /\ IF Bug_CurrentInPlace
     THEN /\ cur' = 0 /\ UNCHANGED tmp          \* CURRENT truncated in place
     ELSE /\ tmp' = [k |-> "tmp", n |-> job.n, done |-> FALSE] /\ UNCHANGED cur
  /\ pc' = "cur2"
  /\ UNCHANGED <<wal, man, tab, up, mem, imm, ver, curWal, logWal, manNo, nextFile, reuseOpt,
                 recWals, job, ghost, bad>>
  /\ NoAppend

Cur2 ==
  /\ pc = "cur2"
  /\ IF Bug_CurrentInPlace
     THEN /\ cur' = job.n /\ UNCHANGED tmp /\ pc' = job.ret
     ELSE /\ tmp' = [tmp EXCEPT !.done = TRUE] /\ UNCHANGED cur /\ pc' = "cur3"
  /\ lastAppend' = IF Bug_CurrentInPlace THEN None ELSE [k |-> "tmp"]
  /\ UNCHANGED <<wal, man, tab, up, mem, imm, ver, curWal, logWal, manNo, nextFile, reuseOpt,
                 recWals, job, started, acked, nextB, crashes, bad, failed, faults>>

Cur3 ==
  /\ pc = "cur3"
  /\ cur' = tmp.n /\ tmp' = None
  /\ pc' = job.ret
  /\ lastAppend' = None
  /\ UNCHANGED <<wal, man, tab, up, mem, imm, ver, curWal, logWal, manNo, nextFile, reuseOpt,
                 recWals, job, started, acked, nextB, crashes, bad, failed, faults>>

\* VersionSet::recover: replay the manifest CURRENT points to, decide about reusing it
ReadMan ==
  /\ pc = "readman"
  /\ cur \in DOMAIN man
  /\ LET recs == ReadLog(man[cur])
         st == FoldMan(recs, [ver |-> {}, logWal |-> 0, next |-> 1]) IN
     /\ recs # <<>>                       \* an unreadable manifest: open fails (stays "rec")
     /\ ver' = st.ver /\ logWal' = st.logWal
     \* the counter continues after everything the manifest recorded and every log replayed
     \* (mark_file_number_used); numbers of files that are about to be deleted may be reused
     /\ nextFile' = IF Bug_FileCounterNotRestored THEN Max({st.next, cur})
                    ELSE Max({st.next, cur} \cup {w \in DOMAIN wal : w >= st.logWal})
     /\ manNo' = IF reuseOpt /\ (CleanLog(man[cur]) \/ Bug_ReuseAfterTornTail) THEN cur ELSE 0
     /\ \A t \in st.ver : t \in DOMAIN tab /\ tab[t].done    \* live tables must exist
     /\ LET ws == {w \in DOMAIN wal : w >= st.logWal} IN
        recWals' = IF Bug_RecoverSkipsOlderWal /\ ws # {}
                   THEN <<Max(ws)>>
                   ELSE [i \in 1..Cardinality(ws) |->
                           CHOOSE w \in ws : Cardinality({x \in ws : x < w}) = i - 1]
  /\ mem' = {} /\ imm' = {}
  /\ job' = [k |-> "rec", add |-> {}]
  /\ pc' = "replay"
  /\ UNCHANGED <<disk, up, curWal, reuseOpt, ghost, bad>>
  /\ NoAppend

\* recover_wal_records for the next WAL: complete records go to the memtable; the last WAL may
\* be reused (with its memtable), otherwise its contents are written to a table
Replay ==
  /\ pc = "replay"
  /\ IF recWals = <<>>
     THEN /\ pc' = IF curWal = 0 THEN "newwal" ELSE "recman"
          /\ UNCHANGED <<disk, mem, imm, curWal, recWals, job, nextFile, bad>>
     ELSE LET w == Head(recWals)
              got == RecIds(ReadLog(wal[w]))
              last == Len(recWals) = 1
              canReuse == reuseOpt /\ last /\ (CleanLog(wal[w]) \/ Bug_ReuseAfterTornTail) IN
          /\ recWals' = Tail(recWals)
          /\ IF canReuse
             THEN /\ curWal' = w /\ mem' = mem \cup got /\ pc' = "replay"
                  /\ UNCHANGED <<disk, imm, job, nextFile, bad>>
             ELSE IF mem \cup got = {}
             THEN /\ pc' = "replay" /\ UNCHANGED <<disk, mem, imm, curWal, job, nextFile, bad>>
             ELSE \* convert_memtable_to_file: create the table (next step completes it)
                  /\ tab' = (NextNo :> [bs |-> mem \cup got, done |-> FALSE]) @@ tab
                  /\ nextFile' = NextNo
                  /\ job' = [job EXCEPT !.add = @ \cup {NextNo}]
                  /\ mem' = {} /\ pc' = "rectab"
                  /\ UNCHANGED <<wal, man, cur, tmp, imm, curWal, bad>>
  /\ UNCHANGED <<up, ver, logWal, manNo, reuseOpt, ghost, bad>>
  /\ NoAppend

RecTab ==
  /\ pc = "rectab"
  /\ LET t == Max(job.add) IN tab' = [tab EXCEPT ![t].done = TRUE]
  /\ lastAppend' = [k |-> "tab", n |-> Max(job.add)]
  /\ pc' = "replay"
  /\ UNCHANGED <<wal, man, cur, tmp, up, mem, imm, ver, curWal, logWal, manNo, nextFile,
                 reuseOpt, recWals, job, started, acked, nextB, crashes, bad, failed,
                 faults>>

NewWal ==
  /\ pc = "newwal"
  /\ wal' = (NextNo :> <<>>) @@ wal
  /\ curWal' = NextNo /\ nextFile' = NextNo
  /\ pc' = "recman"
  /\ UNCHANGED <<man, tab, cur, tmp, up, mem, imm, ver, logWal, manNo, reuseOpt, recWals, job,
                 ghost, bad>>
  /\ NoAppend

\* log_and_apply after recovery: new manifest (snapshot + edit, CURRENT switch) unless reused
RecMan ==
  /\ pc = "recman"
  /\ IF manNo # 0 /\ job.add = {}
     THEN /\ pc' = "gc" /\ NoAppend /\ UNCHANGED <<disk, manNo, nextFile, job, bad>>
     ELSE IF manNo # 0
     THEN \* append the edit to the reused manifest
          /\ man' = AppendFrag(man, manNo,
                       [add |-> job.add, del |-> {}, logWal |-> curWal, next |-> nextFile], 1)
          /\ lastAppend' = [k |-> "man", n |-> manNo]
          /\ pc' = "recapply"
          /\ UNCHANGED <<wal, tab, cur, tmp, manNo, nextFile, job, bad>>
     ELSE \* create a new manifest file
          /\ man' = (NextNo :> <<>>) @@ man
          /\ manNo' = NextNo /\ nextFile' = NextNo
          /\ pc' = "recsnap" /\ NoAppend
          /\ UNCHANGED <<wal, tab, cur, tmp, job, bad>>
  /\ UNCHANGED <<up, mem, imm, ver, curWal, logWal, reuseOpt, recWals, started, acked, nextB,
                 crashes, bad, failed, faults>>

RecSnap ==
  /\ pc = "recsnap"
  /\ man' = AppendFrag(man, manNo,
               [add |-> ver \cup job.add, del |-> {}, logWal |-> curWal, next |-> nextFile], 1)
  /\ lastAppend' = [k |-> "man", n |-> manNo]
  /\ job' = [k |-> "setcur", n |-> manNo, ret |-> "recapply", add |-> job.add]
  /\ pc' = "cur1"
  /\ UNCHANGED <<wal, tab, cur, tmp, up, mem, imm, ver, curWal, logWal, manNo, nextFile,
                 reuseOpt, recWals, started, acked, nextB, crashes, bad, failed, faults>>

RecApply ==
  /\ pc = "recapply"
  /\ ver' = ver \cup job.add /\ logWal' = curWal
  /\ pc' = "gc"
  /\ UNCHANGED <<disk, up, mem, imm, curWal, manNo, nextFile, reuseOpt, recWals, job, ghost, bad>>
  /\ NoAppend

\* remove_obsolete_files, one removal per step
Obsolete ==
  {<<"wal", n>> : n \in {w \in DOMAIN wal : w < logWal}}
  \cup {<<"tab", n>> : n \in {t \in DOMAIN tab : t \notin ver}}
  \cup {<<"man", n>> : n \in {m \in DOMAIN man : m < manNo}}
  \cup (IF tmp # None THEN {<<"tmp", 0>>} ELSE {})

Drop(f, n) == [x \in DOMAIN f \ {n} |-> f[x]]

Gc ==
  /\ pc = "gc"
  /\ IF Obsolete = {}
     THEN /\ pc' = (IF up = "rec" THEN "opened" ELSE "idle")
          /\ UNCHANGED disk
     ELSE \E d \in Obsolete :
            /\ wal' = IF d[1] = "wal" THEN Drop(wal, d[2]) ELSE wal
            /\ tab' = IF d[1] = "tab" THEN Drop(tab, d[2]) ELSE tab
            /\ man' = IF d[1] = "man" THEN Drop(man, d[2]) ELSE man
            /\ tmp' = IF d[1] = "tmp" THEN None ELSE tmp
            /\ UNCHANGED <<cur, pc, bad>>
  /\ UNCHANGED <<up, mem, imm, ver, curWal, logWal, manNo, nextFile, reuseOpt, recWals, job,
                 ghost, bad>>
  /\ NoAppend

Opened ==
  /\ pc = "opened" /\ up = "rec"
  /\ up' = "up" /\ pc' = "idle"
  \* whatever survived is now visible: numbering continues after it
  /\ acked' = acked \cup mem \cup TabBatches(ver)
  /\ UNCHANGED <<nextB, started>>
  /\ UNCHANGED <<disk, mem, imm, ver, curWal, logWal, manNo, nextFile, reuseOpt, recWals, job,
                 crashes, bad, failed, faults>>
  /\ NoAppend

---------------------------------------------------------------------------
(* WRITE: WAL append (fragment by fragment), memtable insert, acknowledgement *)

WriteStart ==
  /\ up = "up" /\ pc = "idle" /\ nextB <= MaxB /\ Cardinality(mem) < MemCap
  /\ started' = started \cup {nextB} /\ nextB' = nextB + 1
  /\ IF bad
     THEN \* the sticky error is returned before anything is written
          /\ failed' = failed \cup {nextB} /\ UNCHANGED <<pc, job>>
     ELSE /\ job' = [k |-> "write", b |-> nextB, left |-> Frags(nextB)]
          /\ pc' = IF Bug_AckBeforeWal THEN "wack" ELSE "wwal"
          /\ UNCHANGED failed
  /\ NoAppend
  /\ UNCHANGED <<disk, up, mem, imm, ver, curWal, logWal, manNo, nextFile, reuseOpt, recWals,
                 acked, crashes, bad, faults>>

WriteWal ==
  /\ pc = "wwal"
  /\ wal' = AppendFrag(wal, curWal, job.b, Frags(job.b))
  /\ lastAppend' = [k |-> "wal", n |-> curWal]
  /\ job' = [job EXCEPT !.left = @ - 1]
  /\ pc' = IF job.left = 1 THEN (IF Bug_AckBeforeWal THEN "idle" ELSE "wmem") ELSE "wwal"
  /\ mem' = IF job.left = 1 /\ Bug_AckBeforeWal THEN mem \cup {job.b} ELSE mem
  /\ UNCHANGED <<man, tab, cur, tmp, up, imm, ver, curWal, logWal, manNo, nextFile, reuseOpt,
                 recWals, started, acked, nextB, crashes, bad, failed, faults>>

WriteMem ==
  /\ pc = "wmem"
  /\ mem' = mem \cup {job.b}
  /\ pc' = "wack"
  /\ UNCHANGED <<disk, up, imm, ver, curWal, logWal, manNo, nextFile, reuseOpt, recWals, job,
                 ghost, bad>>
  /\ NoAppend

WriteAck ==
  /\ pc = "wack"
  /\ acked' = acked \cup {job.b}
  /\ pc' = IF Bug_AckBeforeWal THEN "wwal" ELSE "idle"
  /\ NoAppend
  /\ UNCHANGED <<disk, up, mem, imm, ver, curWal, logWal, manNo, nextFile, reuseOpt, recWals,
                 job, started, nextB, crashes, bad, failed, faults>>

\* C08: the WAL append fails: the call returns the error and the database refuses later writes
FailWal ==
  /\ pc = "wwal" /\ faults < MaxFaults
  /\ faults' = faults + 1
  /\ bad' = TRUE /\ pc' = "idle"
  /\ IF Bug_WriteErrorSwallowed
     THEN acked' = acked \cup {job.b} /\ UNCHANGED failed
     ELSE failed' = failed \cup {job.b} /\ UNCHANGED acked
  /\ NoAppend
  /\ UNCHANGED <<disk, up, mem, imm, ver, curWal, logWal, manNo, nextFile, reuseOpt, recWals,
                 job, started, nextB, crashes>>

-----
(* ROTATE + FLUSH: new WAL; table built and completed; manifest record; imm dropped; old WAL
   removed by the deletion pass *)

Rotate ==
  /\ up = "up" /\ pc = "idle" /\ mem # {} /\ imm = {} /\ ~bad
  /\ wal' = (NextNo :> <<>>) @@ wal
  /\ curWal' = NextNo /\ nextFile' = NextNo
  /\ imm' = mem /\ mem' = {}
  /\ pc' = "flush1"
  /\ UNCHANGED <<man, tab, cur, tmp, up, ver, logWal, manNo, reuseOpt, recWals, job, ghost, bad>>
  /\ NoAppend

Flush1 ==   \* create the table file
  /\ pc = "flush1"
  /\ tab' = (NextNo :> [bs |-> imm, done |-> FALSE]) @@ tab
  /\ nextFile' = NextNo
  /\ job' = [k |-> "flush", t |-> NextNo]
  /\ pc' = IF Bug_ManifestBeforeTable THEN "flush3" ELSE "flush2"
  /\ UNCHANGED <<wal, man, cur, tmp, up, mem, imm, ver, curWal, logWal, manNo, reuseOpt, recWals,
                 ghost, bad>>
  /\ NoAppend

Flush2 ==   \* write it completely
  /\ pc = "flush2"
  /\ tab' = [tab EXCEPT ![job.t].done = TRUE]
  /\ lastAppend' = [k |-> "tab", n |-> job.t]
  /\ pc' = IF Bug_ManifestBeforeTable THEN "flush4" ELSE
           IF Bug_WalDeletedEarly THEN "flushgc" ELSE "flush3"
  /\ UNCHANGED <<wal, man, cur, tmp, up, mem, imm, ver, curWal, logWal, manNo, nextFile,
                 reuseOpt, recWals, job, started, acked, nextB, crashes, bad, failed,
                 faults>>

FlushGcEarly ==  \* deviation: the old WAL goes before the manifest knows about the table
  /\ pc = "flushgc"
  /\ wal' = [x \in {w \in DOMAIN wal : w >= curWal} |-> wal[x]]
  /\ pc' = "flush3"
  /\ UNCHANGED <<man, tab, cur, tmp, up, mem, imm, ver, curWal, logWal, manNo, nextFile,
                 reuseOpt, recWals, job, ghost, bad>>
  /\ NoAppend

Flush3 ==   \* manifest record: new table, WAL number advanced
  /\ pc = "flush3"
  /\ man' = AppendFrag(man, manNo,
               [add |-> {job.t}, del |-> {}, logWal |-> curWal, next |-> nextFile], 1)
  /\ lastAppend' = [k |-> "man", n |-> manNo]
  /\ pc' = IF Bug_ManifestBeforeTable THEN "flush2" ELSE "flush4"
  /\ UNCHANGED <<wal, tab, cur, tmp, up, mem, imm, ver, curWal, logWal, manNo, nextFile,
                 reuseOpt, recWals, job, started, acked, nextB, crashes, bad, failed,
                 faults>>

Flush4 ==   \* install the version, drop the immutable memtable, deletion pass
  /\ pc = "flush4"
  /\ ver' = ver \cup {job.t} /\ logWal' = curWal /\ imm' = {}
  /\ pc' = "gc"
  /\ UNCHANGED <<disk, up, mem, curWal, manNo, nextFile, reuseOpt, recWals, job, ghost, bad>>
  /\ NoAppend

\* C08: building the table fails: background error, the immutable memtable is kept
FailFlushTable ==
  /\ pc \in {"flush1", "flush2"} /\ ~Bug_ManifestBeforeTable /\ faults < MaxFaults
  /\ faults' = faults + 1 /\ bad' = TRUE /\ pc' = "idle"
  /\ NoAppend
  /\ UNCHANGED <<disk, up, mem, imm, ver, curWal, logWal, manNo, nextFile, reuseOpt, recWals,
                 job, started, acked, nextB, crashes, failed>>

\* C08: the manifest append fails: background error, nothing is installed, nothing is deleted
FailFlushManifest ==
  /\ pc = "flush3" /\ faults < MaxFaults
  /\ faults' = faults + 1 /\ bad' = TRUE
  /\ pc' = IF Bug_ManifestErrorSwallowed THEN "flush4" ELSE "idle"
  /\ NoAppend
  /\ UNCHANGED <<disk, up, mem, imm, ver, curWal, logWal, manNo, nextFile, reuseOpt, recWals,
                 job, started, acked, nextB, crashes, failed>>

---------------------------------------------------------------------------
(* TABLE COMPACTION: the tables of the current version are merged into one output table.  Create *)
(* the output, write it completely, append the manifest record (output added, inputs deleted),   *)
(* install the version; only then does the deletion pass remove the inputs.                      *)

CompPick ==
  /\ Compaction /\ up = "up" /\ pc = "idle" /\ imm = {} /\ ~bad
  /\ Cardinality(ver) >= 2
  /\ \E ins \in SUBSET ver :
       /\ Cardinality(ins) >= 2
       /\ job' = [k |-> "comp", ins |-> ins, t |-> 0]
  /\ pc' = "comp1"
  /\ UNCHANGED <<disk, up, mem, imm, ver, curWal, logWal, manNo, nextFile, reuseOpt, recWals,
                 ghost, bad>>
  /\ NoAppend

Comp1 ==   \* create the output table
  /\ pc = "comp1"
  /\ tab' = (NextNo :> [bs |-> TabBatches(job.ins), done |-> FALSE]) @@ tab
  /\ nextFile' = NextNo
  /\ job' = [job EXCEPT !.t = NextNo]
  /\ pc' = "comp2"
  /\ UNCHANGED <<wal, man, cur, tmp, up, mem, imm, ver, curWal, logWal, manNo, reuseOpt, recWals,
                 ghost, bad>>
  /\ NoAppend

Comp2 ==   \* write it completely
  /\ pc = "comp2"
  /\ tab' = [tab EXCEPT ![job.t].done = TRUE]
  /\ lastAppend' = [k |-> "tab", n |-> job.t]
  /\ pc' = IF Bug_InputsDeletedBeforeManifest THEN "compgc" ELSE "comp3"
  /\ UNCHANGED <<wal, man, cur, tmp, up, mem, imm, ver, curWal, logWal, manNo, nextFile,
                 reuseOpt, recWals, job, started, acked, nextB, crashes, bad, failed,
                 faults>>

CompGcEarly ==  \* deviation: the inputs go before the manifest knows about the output
  /\ pc = "compgc"
  /\ \E t \in job.ins \cap DOMAIN tab : tab' = Drop(tab, t)
  /\ pc' = IF Cardinality(job.ins \cap DOMAIN tab) = 1 THEN "comp3" ELSE "compgc"
  /\ UNCHANGED <<wal, man, cur, tmp, up, mem, imm, ver, curWal, logWal, manNo, nextFile,
                 reuseOpt, recWals, job, ghost, bad>>
  /\ NoAppend

Comp3 ==   \* manifest record: output added, inputs deleted
  /\ pc = "comp3"
  /\ man' = AppendFrag(man, manNo,
               [add |-> {job.t}, del |-> job.ins, logWal |-> logWal, next |-> nextFile], 1)
  /\ lastAppend' = [k |-> "man", n |-> manNo]
  /\ pc' = "comp4"
  /\ UNCHANGED <<wal, tab, cur, tmp, up, mem, imm, ver, curWal, logWal, manNo, nextFile,
                 reuseOpt, recWals, job, started, acked, nextB, crashes, bad, failed,
                 faults>>

Comp4 ==   \* install the version; the deletion pass removes the inputs
  /\ pc = "comp4"
  /\ ver' = (ver \ job.ins) \cup {job.t}
  /\ pc' = "gc"
  /\ UNCHANGED <<disk, up, mem, imm, curWal, logWal, manNo, nextFile, reuseOpt, recWals, job,
                 ghost, bad>>
  /\ NoAppend

\* C08: building the output fails: background error, nothing installed (the output is an orphan)
FailCompTable ==
  /\ pc \in {"comp1", "comp2"} /\ faults < MaxFaults
  /\ faults' = faults + 1 /\ bad' = TRUE /\ pc' = "idle"
  /\ NoAppend
  /\ UNCHANGED <<disk, up, mem, imm, ver, curWal, logWal, manNo, nextFile, reuseOpt, recWals,
                 job, started, acked, nextB, crashes, failed>>

FailCompManifest ==
  /\ pc = "comp3" /\ faults < MaxFaults
  /\ faults' = faults + 1 /\ bad' = TRUE
  /\ pc' = IF Bug_ManifestErrorSwallowed THEN "comp4" ELSE "idle"
  /\ NoAppend
  /\ UNCHANGED <<disk, up, mem, imm, ver, curWal, logWal, manNo, nextFile, reuseOpt, recWals,
                 job, started, acked, nextB, crashes, failed>>

\* a clean close
Close ==
  /\ up = "up" /\ pc = "idle"
  /\ ResetVolatile
  /\ UNCHANGED <<disk, ghost>>
  /\ NoAppend

---------------------------------------------------------------------------
(* CRASH: between any two operations; optionally the last append is torn *)

Tear ==
  CASE lastAppend.k = "wal" /\ lastAppend.n \in DOMAIN wal /\ wal[lastAppend.n] # <<>> ->
         /\ wal' = [wal EXCEPT ![lastAppend.n] =
                      [@ EXCEPT ![Len(@)] = [@ EXCEPT !.have = @ - 1]]]
         /\ UNCHANGED <<man, tab, cur, tmp>>
    [] lastAppend.k = "man" /\ lastAppend.n \in DOMAIN man /\ man[lastAppend.n] # <<>> ->
         /\ man' = [man EXCEPT ![lastAppend.n] =
                      [@ EXCEPT ![Len(@)] = [@ EXCEPT !.have = 0]]]
         /\ UNCHANGED <<wal, tab, cur, tmp>>
    [] lastAppend.k = "tab" /\ lastAppend.n \in DOMAIN tab ->
         /\ tab' = [tab EXCEPT ![lastAppend.n].done = FALSE]
         /\ UNCHANGED <<wal, man, cur, tmp>>
    [] lastAppend.k = "tmp" /\ tmp # None ->
         /\ tmp' = [tmp EXCEPT !.done = FALSE]
         /\ UNCHANGED <<wal, man, tab, cur>>
    [] OTHER -> UNCHANGED disk

Crash(torn) ==
  /\ up # "down" /\ crashes < MaxCrash
  /\ crashes' = crashes + 1
  /\ IF torn THEN AllowTorn /\ lastAppend # None /\ Tear ELSE UNCHANGED disk
  /\ ResetVolatile
  /\ lastAppend' = None
  /\ UNCHANGED <<started, acked, nextB, failed, faults>>

---------------------------------------------------------------------------
Next ==
  \/ \E r \in Reuse : StartOpen(r)
  \/ New1 \/ New2 \/ Cur1 \/ Cur2 \/ Cur3 \/ ReadMan \/ Replay \/ RecTab \/ NewWal \/ RecMan
  \/ RecSnap \/ RecApply \/ Gc \/ Opened
  \/ WriteStart \/ WriteWal \/ WriteMem \/ WriteAck
  \/ Rotate \/ Flush1 \/ Flush2 \/ FlushGcEarly \/ Flush3 \/ Flush4
  \/ FailWal \/ FailFlushTable \/ FailFlushManifest
  \/ CompPick \/ Comp1 \/ Comp2 \/ CompGcEarly \/ Comp3 \/ Comp4 \/ FailCompTable \/ FailCompManifest
  \/ Close
  \/ Crash(FALSE) \/ Crash(TRUE)

Spec == Init /\ [][Next]_vars

Bound == nextFile <= MaxFile

---------------------------------------------------------------------------
(* PROPERTIES *)

\* C02 / C16: what a completed recovery shows
Durable ==
  (up = "up") =>
     LET got == mem \cup imm \cup TabBatches(ver) IN
     /\ acked \subseteq got          \* nothing acknowledged is lost
     /\ got \subseteq started        \* nothing is invented; a batch id is in or out as a whole
     \* commit order: a surviving unacknowledged batch never overtakes a lost older one unless
     \* the older one failed or was in flight
     /\ \A b \in got : \A a \in 1..(b - 1) : a \in got \/ a \notin acked

\* a recovery that was started on a disk this protocol produced never gets stuck on a missing or
\* unreadable file: in state "rec" with pc = "readman" the guard of ReadMan must hold
RecoveryEnabled ==
  (up = "rec" /\ pc = "readman") =>
     /\ cur \in DOMAIN man
     /\ ReadLog(man[cur]) # <<>>
     /\ LET st == FoldMan(ReadLog(man[cur]), [ver |-> {}, logWal |-> 0, next |-> 1]) IN
        \A t \in st.ver : t \in DOMAIN tab /\ tab[t].done

CurrentAlwaysValid ==
  (cur # 0 /\ ~Bug_CurrentInPlace) => cur \in DOMAIN man /\ ReadLog(man[cur]) # <<>>

\* acknowledged batches are always recoverable from the disk alone
DiskHoldsAcked ==
  (cur # 0 /\ cur \in DOMAIN man /\ ReadLog(man[cur]) # <<>>) =>
     LET st == FoldMan(ReadLog(man[cur]), [ver |-> {}, logWal |-> 0, next |-> 1])
         inTabs == TabBatches(st.ver)
         inWals == UNION {RecIds(ReadLog(wal[w])) : w \in {x \in DOMAIN wal : x >= st.logWal}} IN
     acked \subseteq inTabs \cup inWals
=============================================================================
