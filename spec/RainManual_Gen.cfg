SPECIFICATION GenSpec
CONSTANTS
  Callers = {"c1", "c2"}
  Work = 2
  Rotations = 2
  Bug_HoldRequestAcrossMerge = FALSE
  Bug_NotifyOne = FALSE
  Bug_NoRescheduleAtEnd = FALSE
INVARIANTS Emit
CHECK_DEADLOCK FALSE
