------------------------- MODULE MC_RainCoreReopen -------------------------
EXTENDS RainCoreReopen
\* Open reads the manifest only through its fold (Recovered): two manifests with the same fold
\* are indistinguishable from then on, so the fingerprint takes the fold instead of the record
\* sequence.  Pin ids are names (as in MC_RainCore).
RView == <<seq, hist, mem, imm, immOn, immDone, files, cur, snaps, pending, comp, disk, nextFile,
           curWal, logWal, gcDue, immWal, Recovered, walEnts, isopen, reopens>>
=============================================================================
