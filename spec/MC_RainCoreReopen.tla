------------------------- MODULE MC_RainCoreReopen -------------------------
EXTENDS RainCoreReopen
\* pin ids are names (as in MC_RainCore): not part of the fingerprint
RView == <<seq, hist, mem, imm, immOn, immDone, files, cur, snaps, pending, comp, disk, nextFile,
           curWal, logWal, gcDue, immWal, man, walEnts, isopen, reopens>>
=============================================================================
