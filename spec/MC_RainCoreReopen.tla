------------------------- MODULE MC_RainCoreReopen -------------------------
EXTENDS RainCoreReopen
\* pin ids are names (as in MC_RainCore): not part of the fingerprint
RView == <<seq, hist, mem, imm, immOn, immDone, files, cur, snaps, pending, comp, disk, nextFile,
           curWal, logWal, gcDue, immWal, man, walEnts, isopen, reopens>>
\* ---- refinement: also across close and reopen the LSM machine implements the key-value service
\* (RainKV.tla): Close is a stuttering step (the volatile state is simply not used while closed),
\* Open must give back exactly the same map (RainKV!Restart: only snapshots and views end)
RKVStore(s) == [k \in Keys |-> Get(k, s)]
RKV == INSTANCE RainKV WITH
        KVKeys <- 1..NK,
        store  <- RKVStore(seq),
        count  <- seq,
        frozen <- [i \in 1..Len(snaps) |-> RKVStore(snaps[i])],
        views  <- {[id |-> p.id, map |-> [k \in Keys |-> PinGet(p, k)]] : p \in pins}
RImplementsKV == RKV!KVSpec
=============================================================================
