SPECIFICATION GenSpec
CONSTANTS
  NK = 3
  MaxSeq = 8
  NL = 3
  MemCap = 2
  FileCap = 2
  MaxSnaps = 2
  MaxPins = 1
  MaxFiles = 30
  KeepExtra = FALSE
  Ops = {0, 1}
  GenDepth = 30
  Bug_RangeMin = FALSE
  Bug_NoBoundary = FALSE
  Bug_DropTombNoBase = FALSE
  Bug_DropAboveSnapshot = FALSE
  Bug_FlushLevelUnsafe = FALSE
  Bug_DeletePending = FALSE
  Bug_DeletePinned = FALSE
  Bug_ImmDropEarly = FALSE
  Bug_FlushDeepDuringCompaction = FALSE
  Bug_ExpandKeepsParents = FALSE
  Bug_ExpandNoBoundary = FALSE
INVARIANTS EmitAtDepth
CONSTRAINT GenBound

CHECK_DEADLOCK FALSE
