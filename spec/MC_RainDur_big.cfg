SPECIFICATION Spec
CONSTANTS
  MaxB = 4
  BigB = {2}
  MemCap = 1
  MaxCrash = 3
  MaxFile = 16
  Reuse = {TRUE, FALSE}
  AllowTorn = TRUE
  MaxFaults = 1
  Bug_AckBeforeWal = FALSE
  Bug_WalDeletedEarly = FALSE
  Bug_ManifestBeforeTable = FALSE
  Bug_CurrentInPlace = FALSE
  Bug_RecoverSkipsOlderWal = FALSE
  Bug_ReuseAfterTornTail = FALSE
  Bug_WriteErrorSwallowed = FALSE
  Bug_ManifestErrorSwallowed = FALSE
  Bug_FileCounterNotRestored = FALSE
  Compaction = FALSE
  Bug_InputsDeletedBeforeManifest = FALSE
INVARIANTS Durable RecoveryEnabled CurrentAlwaysValid DiskHoldsAcked
CONSTRAINT Bound
CHECK_DEADLOCK FALSE
