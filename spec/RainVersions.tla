---------------------------- MODULE RainVersions ----------------------------
(***************************************************************************)
(* The version list of raindb and who keeps a superseded version alive      *)
(* (src/versioning/version_set.rs: append_new_version, release_version;     *)
(* DB::get, DB::new_iterator and its clean-up closure, the compaction       *)
(* worker's input version; DB::remove_obsolete_files).  Property C11, the   *)
(* part about read views: nothing a reader (or a running compaction) still *)
(* needs is deleted, and nothing is kept for a reader that is gone.         *)
(*                                                                         *)
(* A version is an id with a set of table files.  `linked` is the list of   *)
(* the version set; `refs[v]` counts the holders outside the list (readers, *)
(* a running compaction).  Every action is one critical section under the   *)
(* database mutex, except where a named deviation says otherwise.           *)
(*   Pin       a get / a new iterator captures the current version          *)
(*   Release   it gives the view back: the last holder of a superseded      *)
(*             version unlinks it (release_version)                         *)
(*   Install   a flush or a compaction installs a new version; the old      *)
(*             current one is unlinked at once if nobody holds it           *)
(*   Pass      remove_obsolete_files: everything not in a linked version    *)
(*             (and not an output under construction) is deleted            *)
(* The deletion pass follows every Install on the worker.  What the code    *)
(* does NOT do is run a pass when a reader's Release unlinks a version      *)
(* (known finding KF-C11-deferred-reclaim): `ReleaseTriggersPass = FALSE`   *)
(* is the code, and `ExactWhenQuiet` then holds only in its weaker form.    *)
(***************************************************************************)
EXTENDS Naturals, FiniteSets, TLC

CONSTANTS
  Readers,            \* reader threads (each: pin, maybe fail, release)
  MaxVer,             \* versions installed per behaviour
  ReleaseTriggersPass,\* TRUE: a Release that unlinks a version schedules a deletion pass (NOT the code)
  \* named deviations
  Bug_LookBeforeLock,     \* the iterator's clean-up looks at the reference count before it takes the
                          \* mutex and does not call release_version if it saw another holder
  Bug_FailedReadNoRelease,\* a read that fails returns without giving its view back
  Bug_CompactionNoRelease,\* a compaction (trivial move) never releases its input version
  Bug_PassIgnoresHolders  \* the deletion pass only keeps the CURRENT version's files

VARIABLES
  cur,      \* id of the current version
  linked,   \* ids in the version list
  refs,     \* id -> number of outside holders
  files,    \* id -> set of table files of that version
  disk,     \* table files present
  rpc,      \* reader -> "idle" | "held" | "looked" | "done"
  rv,       \* reader -> id it holds (0 = none)
  saw,      \* reader -> what the unlocked look saw ("others" | "last" | "none")
  cv,       \* id the running compaction holds (0 = none)
  passDue,  \* a deletion pass is due (after an Install; after an unlinking Release if ReleaseTriggersPass)
  stale     \* ghost: a version was unlinked by a Release and no pass has run since

vars == <<cur, linked, refs, files, disk, rpc, rv, saw, cv, passDue, stale>>

Ids == 1..(MaxVer + 1)

Init ==
  /\ cur = 1 /\ linked = {1} /\ refs = [v \in Ids |-> 0] /\ files = [v \in Ids |-> IF v = 1 THEN {1} ELSE {}]
  /\ disk = {1} /\ rpc = [r \in Readers |-> "idle"] /\ rv = [r \in Readers |-> 0]
  /\ saw = [r \in Readers |-> "none"] /\ cv = 0 /\ passDue = FALSE /\ stale = FALSE

\* DB::get / DB::new_iterator: the view is captured under the mutex
Pin(r) ==
  /\ rpc[r] = "idle"
  /\ rv' = [rv EXCEPT ![r] = cur] /\ refs' = [refs EXCEPT ![cur] = @ + 1]
  /\ rpc' = [rpc EXCEPT ![r] = "held"]
  /\ UNCHANGED <<cur, linked, files, disk, saw, cv, passDue, stale>>

\* release_version: the last outside holder of a superseded version unlinks it
Unlinked(v, n) == v # cur /\ n = 0

\* deviation: a look at the count WITHOUT the mutex (the list's own reference makes a current
\* version look "held by others")
Look(r) ==
  /\ Bug_LookBeforeLock /\ rpc[r] = "held"
  /\ saw' = [saw EXCEPT ![r] = IF rv[r] = cur \/ refs[rv[r]] > 1 THEN "others" ELSE "last"]
  /\ rpc' = [rpc EXCEPT ![r] = "looked"]
  /\ UNCHANGED <<cur, linked, refs, files, disk, rv, cv, passDue, stale>>

Release(r) ==
  /\ rpc[r] = IF Bug_LookBeforeLock THEN "looked" ELSE "held"
  /\ LET v == rv[r]  n == refs[v] - 1
         unl == Unlinked(v, n) /\ ~(Bug_LookBeforeLock /\ saw[r] = "others") IN
     /\ refs' = [refs EXCEPT ![v] = n]
     /\ linked' = IF unl THEN linked \ {v} ELSE linked
     /\ stale' = (stale \/ (unl /\ ~ReleaseTriggersPass))
     /\ passDue' = (passDue \/ (unl /\ ReleaseTriggersPass))
  /\ rv' = [rv EXCEPT ![r] = 0] /\ rpc' = [rpc EXCEPT ![r] = "done"]
  /\ UNCHANGED <<cur, files, disk, saw, cv>>

\* a read that fails (I/O error): it must give its view back like any other
FailedRead(r) ==
  /\ Bug_FailedReadNoRelease /\ rpc[r] = "held"
  /\ rv' = [rv EXCEPT ![r] = 0] /\ rpc' = [rpc EXCEPT ![r] = "done"]
  /\ UNCHANGED <<cur, linked, refs, files, disk, saw, cv, passDue, stale>>

\* a table compaction pins its input version while it merges
CompactBegin ==
  /\ cv = 0 /\ ~passDue /\ cur <= MaxVer
  /\ cv' = cur /\ refs' = [refs EXCEPT ![cur] = @ + 1]
  /\ UNCHANGED <<cur, linked, files, disk, rpc, rv, saw, passDue, stale>>

\* log_and_apply + append_new_version: the new version is linked, the old current one is unlinked
\* at once if nobody holds it; `merge` = the new version replaces all files by one (a compaction)
InstallStep(merge, relcv) ==
  LET n == cur + 1
      r1 == IF relcv /\ cv # 0 THEN [refs EXCEPT ![cv] = @ - 1] ELSE refs
      gone == {v \in linked : v # n /\ r1[v] = 0} IN
  /\ cur' = n
  /\ files' = [files EXCEPT ![n] = IF merge THEN {n} ELSE files[cur] \cup {n}]
  /\ disk' = disk \cup {n}
  /\ refs' = r1
  /\ linked' = (linked \cup {n}) \ gone
  /\ passDue' = TRUE

Flush ==
  /\ cur <= MaxVer /\ ~passDue /\ cv = 0
  /\ InstallStep(FALSE, FALSE)
  /\ UNCHANGED <<rpc, rv, saw, cv, stale>>

CompactEnd ==
  /\ cv # 0 /\ ~passDue
  /\ InstallStep(TRUE, ~Bug_CompactionNoRelease)
  /\ cv' = 0
  /\ UNCHANGED <<rpc, rv, saw, stale>>

\* remove_obsolete_files
Pass ==
  /\ passDue
  /\ LET keep == IF Bug_PassIgnoresHolders THEN files[cur] ELSE UNION {files[v] : v \in linked} IN
     disk' = disk \cap keep
  /\ passDue' = FALSE /\ stale' = FALSE
  /\ UNCHANGED <<cur, linked, refs, files, rpc, rv, saw, cv>>

Next ==
  \/ \E r \in Readers : Pin(r) \/ Look(r) \/ Release(r) \/ FailedRead(r)
  \/ CompactBegin \/ Flush \/ CompactEnd \/ Pass

Spec == Init /\ [][Next]_vars
FairSpec == Spec /\ WF_vars(Pass)

---------------------------------------------------------------------------
Holders(v) == {r \in Readers : rv[r] = v}

TypeOK == cur \in Ids /\ linked \subseteq Ids /\ cur \in linked /\ \A v \in Ids : refs[v] \in 0..(Cardinality(Readers) + 1)

\* nothing a reader or the running compaction still needs is deleted
NothingHeldDeleted ==
  /\ \A r \in Readers : rv[r] # 0 => files[rv[r]] \subseteq disk
  /\ cv # 0 => files[cv] \subseteq disk
  /\ files[cur] \subseteq disk

\* the count is what it stands for
RefsExact == \A v \in Ids : refs[v] = Cardinality(Holders(v)) + (IF cv = v THEN 1 ELSE 0)

\* a superseded version stays in the list only while somebody holds it
NoLeakedVersion == \A v \in linked : v = cur \/ Holders(v) # {} \/ cv = v

\* with nobody reading and no work pending, exactly the current version's files are there -
\* unless the last thing that happened was a reader's release that unlinked a version
\* (known finding: nothing runs a deletion pass then)
Quiet == (\A r \in Readers : rv[r] = 0) /\ cv = 0 /\ ~passDue
ExactWhenQuiet == (Quiet /\ ~stale) => (linked = {cur} /\ disk = files[cur])
\* the property as stated (C11): it needs ReleaseTriggersPass
ExactWhenQuietStrict == Quiet => (linked = {cur} /\ disk = files[cur])
=============================================================================
