------------------------------ MODULE RainTable ------------------------------
(***************************************************************************)
(* C13 - a table file gives back exactly what was put in.                   *)
(*                                                                         *)
(* A TABLE is a sorted run of entries <<k, s, o, v>> (RainTypes: user key   *)
(* ascending, sequence descending) cut into non-empty BLOCKS at arbitrary   *)
(* points, plus one INDEX KEY per block.  The table builder                 *)
(* (src/tables/table_builder.rs) writes, for block i < last, a separator    *)
(* with  last(block i) <= idx[i] < first(block i+1)  and for the last block *)
(* a successor  idx[last] >= last entry.  Which separator is chosen is a    *)
(* byte-level matter (utils/bytes.rs, key.rs); the model quantifies over    *)
(* EVERY index key the rule admits.                                         *)
(*                                                                         *)
(* Part 1 (pure operators, also used by RainTable_Trace):                   *)
(*   the reference cursor over the plain sorted sequence, the reference     *)
(*   point lookup, and - parametrised by a table record - the two-level     *)
(*   cursor transcribed from TwoLevelIterator / BlockIter                   *)
(*   (src/tables/table.rs, block.rs) and Get transcribed from Table::get.   *)
(* Part 2 (state machine): TLC picks any table of the small universe and    *)
(*   applies any sequence of cursor operations; invariants: the two-level   *)
(*   cursor always stands where the cursor over the plain sequence stands   *)
(*   (refinement), Seek = first entry not less than the target, Get =       *)
(*   newest entry of the key at or below the bound / not in this file.      *)
(*                                                                         *)
(* A design fact the model makes explicit: the generic separator rule is    *)
(* enough for the cursor but NOT for Get.  If an index key lies strictly    *)
(* between two versions of one user key (last(i) < idx[i] < first(i+1), all *)
(* three with the same user key), Get for a bound in that gap is sent to    *)
(* block i, finds nothing there and answers NotInFile although block i+1    *)
(* holds the entry.  Table::get is only correct because                     *)
(* find_shortest_separator never shortens inside one user key (it returns   *)
(* last(i) itself when the user keys are equal).  SepSafe states the extra  *)
(* condition; Bug_SeparatorInsideKey drops it.                              *)
(***************************************************************************)
EXTENDS RainTypes, TLC

CONSTANTS
  TNK,          \* user keys 1..TNK
  TMaxSeq,      \* sequence numbers 1..TMaxSeq
  TMaxVer,      \* at most this many versions per user key
  TMaxLen,      \* at most this many entries per table
  \* named deviations (each must give a counterexample)
  Bug_IndexMissMeansDeleted,   \* Get answers Deleted when the index seek finds no block (defect fixed in f25dec1)
  Bug_SeekNoBlockAdvance,      \* Seek lands past the end of a block and does not move to the next block
  Bug_PrevStopsAtBlockStart,   \* Prev at the first entry of a block does not move to the previous block
  Bug_GetSkipsKeyCheck,        \* Get does not compare the user key of the entry it found
  Bug_SeparatorInsideKey       \* an index key may lie strictly between two versions of one user key

---------------------------------------------------------------------------
(* PART 1a: reference semantics on the plain sorted sequence `ents`.        *)
(* A position is 1..Len(ents), or 0 = not valid.                            *)

\* first position whose entry is not less than the target <<k, s, ..>>, 0 if none
RefSeekPos(ents, t) ==
  LET C == {i \in 1..Len(ents) : ~ILess(ents[i], t)} IN
  IF C = {} THEN 0 ELSE SetMin(C)

RefFirstPos(ents) == IF Len(ents) > 0 THEN 1 ELSE 0
RefLastPos(ents) == Len(ents)
RefNextPos(ents, p) == IF p = 0 THEN 0 ELSE IF p + 1 <= Len(ents) THEN p + 1 ELSE 0
RefPrevPos(ents, p) == IF p = 0 THEN 0 ELSE p - 1

\* moves: 0 first, 1 last, 2 seek(k, s), 3 next, 4 prev
RefMove(ents, p, m, k, s) ==
  CASE m = 0 -> RefFirstPos(ents)
    [] m = 1 -> RefLastPos(ents)
    [] m = 2 -> RefSeekPos(ents, <<k, s>>)
    [] m = 3 -> RefNextPos(ents, p)
    [] OTHER -> RefPrevPos(ents, p)

RefEntryAt(ents, p) == IF p = 0 THEN NoEntry ELSE ents[p]

SortedRun(ents) == \A i \in 1..(Len(ents) - 1) : ILess(ents[i], ents[i + 1])

\* point lookup: <<"value", v>>, <<"deleted", 0>> or <<"notinfile", 0>>
GetOf(e) ==
  IF e = NoEntry THEN <<"notinfile", 0>>
  ELSE IF e[3] = 0 THEN <<"deleted", 0>> ELSE <<"value", e[4]>>

RefGet(ents, k, s) == GetOf(Newest(SeqToSet(ents), k, s))

---------------------------------------------------------------------------
(* PART 1b: the implementation's algorithms on a table record               *)
(*   T = [ents, ends, idx]:  ends[i] = position of the last entry of block  *)
(*   i (strictly increasing, ends[last] = Len(ents)), idx[i] = index key    *)
(*   <<k, s>> of block i.                                                   *)

NBlocks(T) == Len(T.ends)
BStart(T, i) == IF i = 1 THEN 1 ELSE T.ends[i - 1] + 1
BLen(T, i) == T.ends[i] - BStart(T, i) + 1
BEnt(T, i, j) == T.ents[BStart(T, i) + j - 1]

\* BlockIter::seek - leftmost binary search over the sorted key sequence `keys`; 0-based
\* left/right as in the code, result 0-based (Len(keys) = no key is >= t)
RECURSIVE LeftMost(_, _, _, _)
LeftMost(keys, t, left, right) ==
  IF left >= right THEN left
  ELSE LET mid == (left + right) \div 2 IN
       IF ILess(keys[mid + 1], t) THEN LeftMost(keys, t, mid + 1, right)
       ELSE LeftMost(keys, t, left, mid)

\* position 1..n of the first key >= t, n + 1 if none (current_index = len: not valid)
IdxSeek(T, t) == LeftMost(T.idx, t, 0, NBlocks(T)) + 1

BlkSeek(T, b, t) ==
  LeftMost(SubSeq(T.ents, BStart(T, b), T.ends[b]), t, 0, BLen(T, b)) + 1

(* The two-level cursor: ip = position of the index iterator (NBlocks + 1 = not valid),        *)
(* db = block the data iterator was created for (0 = none), bp = position of the data iterator *)
(* (BLen + 1 = not valid).                                                                    *)
NewCursor == [ip |-> 1, db |-> 0, bp |-> 0]

IdxValid(T, c) == c.ip <= NBlocks(T)
DataValid(T, c) == c.db # 0 /\ c.bp <= BLen(T, c.db)

\* TwoLevelIterator::is_valid / current
CurValid(T, c) == DataValid(T, c)
CurEntry(T, c) == IF CurValid(T, c) THEN BEnt(T, c.db, c.bp) ELSE NoEntry
\* absolute position of the cursor in the run, 0 if not valid
CurPos(T, c) == IF CurValid(T, c) THEN BStart(T, c.db) + c.bp - 1 ELSE 0

\* TwoLevelIterator::init_data_block: a block that is already loaded keeps its iterator
InitDataBlock(T, c) ==
  IF ~IdxValid(T, c) THEN [c EXCEPT !.db = 0, !.bp = 0]
  ELSE IF c.db = c.ip THEN c
  ELSE [c EXCEPT !.db = c.ip, !.bp = 1]

\* BlockIter::next / prev on the index iterator
IdxNext(T, c) == [c EXCEPT !.ip = IF c.ip > NBlocks(T) THEN NBlocks(T) + 1 ELSE c.ip + 1]
IdxPrev(T, c) == [c EXCEPT !.ip = IF c.ip = 1 \/ c.ip > NBlocks(T) THEN NBlocks(T) + 1 ELSE c.ip - 1]

RECURSIVE SkipFwd(_, _)
SkipFwd(T, c) ==
  IF DataValid(T, c) THEN c
  ELSE IF ~IdxValid(T, c) THEN [c EXCEPT !.db = 0, !.bp = 0]
  ELSE LET c1 == InitDataBlock(T, IdxNext(T, c))
           c2 == IF c1.db # 0 THEN [c1 EXCEPT !.bp = 1] ELSE c1 IN
       SkipFwd(T, c2)

RECURSIVE SkipBwd(_, _)
SkipBwd(T, c) ==
  IF DataValid(T, c) THEN c
  ELSE IF ~IdxValid(T, c) THEN [c EXCEPT !.db = 0, !.bp = 0]
  ELSE LET c1 == InitDataBlock(T, IdxPrev(T, c))
           c2 == IF c1.db # 0 THEN [c1 EXCEPT !.bp = BLen(T, c1.db)] ELSE c1 IN
       SkipBwd(T, c2)

CSeekToFirst(T, c) ==
  LET c1 == InitDataBlock(T, [c EXCEPT !.ip = 1])
      c2 == IF c1.db # 0 THEN [c1 EXCEPT !.bp = 1] ELSE c1 IN
  SkipFwd(T, c2)

\* BlockIter::seek_to_last sets len - 1; for an empty index block that wraps to "not valid"
CSeekToLast(T, c) ==
  LET c1 == InitDataBlock(T, [c EXCEPT !.ip = IF NBlocks(T) = 0 THEN 1 ELSE NBlocks(T)])
      c2 == IF c1.db # 0 THEN [c1 EXCEPT !.bp = BLen(T, c1.db)] ELSE c1 IN
  SkipBwd(T, c2)

CSeek(T, c, t) ==
  LET c1 == InitDataBlock(T, [c EXCEPT !.ip = IdxSeek(T, t)])
      c2 == IF c1.db # 0 THEN [c1 EXCEPT !.bp = BlkSeek(T, c1.db, t)] ELSE c1 IN
  IF Bug_SeekNoBlockAdvance THEN c2 ELSE SkipFwd(T, c2)

\* only called on a valid cursor
CNext(T, c) ==
  LET c1 == [c EXCEPT !.bp = c.bp + 1] IN
  IF DataValid(T, c1) THEN c1 ELSE SkipFwd(T, c1)

CPrev(T, c) ==
  LET c1 == [c EXCEPT !.bp = IF c.bp = 1 THEN BLen(T, c.db) + 1 ELSE c.bp - 1] IN
  IF DataValid(T, c1) THEN c1
  ELSE IF Bug_PrevStopsAtBlockStart THEN c1 ELSE SkipBwd(T, c1)

CMove(T, c, m, k, s) ==
  CASE m = 0 -> CSeekToFirst(T, c)
    [] m = 1 -> CSeekToLast(T, c)
    [] m = 2 -> CSeek(T, c, <<k, s>>)
    [] m = 3 -> CNext(T, c)
    [] OTHER -> CPrev(T, c)

\* Table::get (the filter consultation is C14's subject and is left out here)
TableGet(T, k, s) ==
  LET t == <<k, s>>
      i == IdxSeek(T, t) IN
  IF i > NBlocks(T)
  THEN IF Bug_IndexMissMeansDeleted THEN <<"deleted", 0>> ELSE <<"notinfile", 0>>
  ELSE LET j == BlkSeek(T, i, t) IN
       IF j > BLen(T, i) THEN <<"notinfile", 0>>
       ELSE LET e == BEnt(T, i, j) IN
            IF e[1] # k /\ ~Bug_GetSkipsKeyCheck THEN <<"notinfile", 0>>
            ELSE IF e[3] = 0 THEN <<"deleted", 0>> ELSE <<"value", e[4]>>

---------------------------------------------------------------------------
(* PART 2: the universe of small tables                                    *)

UKeys == 1..TNK
Seqs == 1..TMaxSeq
\* index keys may use a user key above all entries and sequence numbers around all entries
IdxKeys == (1..(TNK + 1)) \X (0..(TMaxSeq + 1))
Targets == (1..(TNK + 1)) \X (0..(TMaxSeq + 1))

RECURSIVE DescSeq(_)
DescSeq(S) == IF S = {} THEN <<>> ELSE LET m == SetMax(S) IN <<m>> \o DescSeq(S \ {m})

\* every version list of one user key: distinct sequence numbers, newest first, puts and deletes;
\* the value id of a put is unique in the table
KeyRuns(k) ==
  UNION {
    LET d == DescSeq(S) IN
    {[i \in 1..Len(d) |-> <<k, d[i], f[d[i]], IF f[d[i]] = 1 THEN 10 * k + d[i] ELSE 0>>] :
       f \in [S -> {0, 1}]}
    : S \in {X \in SUBSET Seqs : Cardinality(X) <= TMaxVer}}

RECURSIVE RunsFrom(_)
RunsFrom(k) ==
  IF k > TNK THEN {<<>>}
  ELSE {a \o b : a \in KeyRuns(k), b \in RunsFrom(k + 1)}

Runs == {r \in RunsFrom(1) : Len(r) <= TMaxLen}

\* every way to cut a run of length n into non-empty blocks
RECURSIVE AscSeq(_)
AscSeq(S) == IF S = {} THEN <<>> ELSE LET m == SetMin(S) IN <<m>> \o AscSeq(S \ {m})

CutsOf(n) == IF n = 0 THEN {<<>>} ELSE {AscSeq(C \cup {n}) : C \in SUBSET (1..(n - 1))}

\* the index keys the builder's rule admits for block i
SepSafe(x, last, first) == (x[1] = first[1]) => (x[1] = last[1] /\ x[2] = last[2])

AllowedIdx(ents, ends, i) ==
  LET last == ents[ends[i]] IN
  IF i = Len(ends) THEN {x \in IdxKeys : ILeq(last, x)}
  ELSE LET first == ents[ends[i] + 1] IN
       {x \in IdxKeys : /\ ILeq(last, x) /\ ILess(x, first)
                        /\ (Bug_SeparatorInsideKey \/ SepSafe(x, last, first))}

RECURSIVE IdxSeqs(_, _, _)
IdxSeqs(ents, ends, i) ==
  IF i > Len(ends) THEN {<<>>}
  ELSE {<<x>> \o r : x \in AllowedIdx(ents, ends, i), r \in IdxSeqs(ents, ends, i + 1)}

---------------------------------------------------------------------------
(* the state machine.  The table is chosen in three steps (run, cuts, index keys) so that TLC's
   workers share the enumeration; from stage "go" on, any cursor operation may follow any other,
   so TLC explores EVERY reachable cursor state of every table, i.e. operation sequences of any
   length (the cursor state space of one table is finite).                                     *)

VARIABLES
  stage,    \* "run" -> "cut" -> "idx" -> "go"
  tbl,      \* the table under test: [ents, ends, idx]
  cur,      \* the two-level cursor
  pos,      \* the cursor over the plain sequence (0 = not valid)
  lastOp    \* <<move, k, s>> of the last operation (only for reading counterexamples; not in the VIEW)

tvars == <<stage, tbl, cur, pos, lastOp>>
TView == <<stage, tbl, cur, pos>>

NoOp == <<-1, 0, 0>>

TInit ==
  /\ stage = "run"
  /\ tbl = [ents |-> <<>>, ends |-> <<>>, idx |-> <<>>]
  /\ cur = NewCursor /\ pos = 0 /\ lastOp = NoOp

PickRun ==
  /\ stage = "run"
  /\ \E r \in Runs : tbl' = [tbl EXCEPT !.ents = r]
  /\ stage' = "cut"
  /\ UNCHANGED <<cur, pos, lastOp>>

PickCut ==
  /\ stage = "cut"
  /\ \E c \in CutsOf(Len(tbl.ents)) : tbl' = [tbl EXCEPT !.ends = c]
  /\ stage' = "idx"
  /\ UNCHANGED <<cur, pos, lastOp>>

PickIdx ==
  /\ stage = "idx"
  /\ \E ix \in IdxSeqs(tbl.ents, tbl.ends, 1) : tbl' = [tbl EXCEPT !.idx = ix]
  /\ stage' = "go"
  /\ UNCHANGED <<cur, pos, lastOp>>

Apply(m, k, s) ==
  /\ stage = "go"
  /\ cur' = CMove(tbl, cur, m, k, s)
  /\ pos' = RefMove(tbl.ents, pos, m, k, s)
  /\ lastOp' = <<m, k, s>>
  /\ UNCHANGED <<stage, tbl>>

OpFirst == Apply(0, 0, 0)
OpLast == Apply(1, 0, 0)
OpSeek == \E t \in Targets : Apply(2, t[1], t[2])
\* next / prev are only called on a valid cursor (they assert otherwise)
OpNext == CurValid(tbl, cur) /\ Apply(3, 0, 0)
OpPrev == CurValid(tbl, cur) /\ Apply(4, 0, 0)

TNext == PickRun \/ PickCut \/ PickIdx \/ OpFirst \/ OpLast \/ OpSeek \/ OpNext \/ OpPrev

TSpec == TInit /\ [][TNext]_tvars

---------------------------------------------------------------------------
(* properties *)

Go == stage = "go"
Fresh == Go /\ lastOp = NoOp

\* the generated tables are what they are meant to be
TableShape ==
  Go => /\ SortedRun(tbl.ents)
        /\ Len(tbl.idx) = Len(tbl.ends)
        /\ \A i \in 1..NBlocks(tbl) : BLen(tbl, i) >= 1
        /\ (NBlocks(tbl) > 0 => tbl.ends[NBlocks(tbl)] = Len(tbl.ents))
        /\ (NBlocks(tbl) = 0 => Len(tbl.ents) = 0)

\* refinement: the two-level cursor stands exactly where the plain cursor stands
CursorRefines ==
  Go => /\ CurPos(tbl, cur) = pos
        /\ CurEntry(tbl, cur) = RefEntryAt(tbl.ents, pos)

\* Seek positions at the first entry not less than the target, from any cursor state.  (Implied by
\* CursorRefines over OpSeek steps; stated on its own because it is a clause of C13.)
SeekCorrect ==
  Go => \A t \in Targets :
          CurPos(tbl, CSeek(tbl, cur, t)) = RefSeekPos(tbl.ents, t)

\* full iteration in both directions yields the run
RECURSIVE Drain(_, _, _, _)
Drain(T, c, fwd, fuel) ==
  IF ~CurValid(T, c) \/ fuel = 0 THEN <<>>
  ELSE <<CurEntry(T, c)>> \o Drain(T, IF fwd THEN CNext(T, c) ELSE CPrev(T, c), fwd, fuel - 1)

IterationCorrect ==
  Fresh =>
    /\ Drain(tbl, CSeekToFirst(tbl, cur), TRUE, Len(tbl.ents) + 1) = tbl.ents
    /\ Drain(tbl, CSeekToLast(tbl, cur), FALSE, Len(tbl.ents) + 1) = RevSeq(tbl.ents)

\* Get = newest entry of the key at or below the bound: value, deletion, or not in this file
GetCorrect ==
  Fresh =>
    \A k \in 1..(TNK + 1), s \in 0..(TMaxSeq + 1) :
       TableGet(tbl, k, s) = RefGet(tbl.ents, k, s)
=============================================================================
