SPECIFICATION GenSpec
CONSTANTS
  Writers <- MCWriters
  Readers <- MCReaders
  SnapReaders <- MCSnapReaders
  BatchOf <- MCBatchOf
  RKey = 1
  MemCap = 1
  Bug_GetLoadsMemAfterUnlock = FALSE
  Bug_PublishEarly = FALSE
  Bug_NoNotify = FALSE
  Bug_SnapshotUnlocked = FALSE
INVARIANTS Emit
CHECK_DEADLOCK FALSE
