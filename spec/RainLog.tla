------------------------------ MODULE RainLog ------------------------------
(***************************************************************************)
(* The log file format of raindb (write-ahead logs and manifests),          *)
(* src/logs.rs: LogWriter::append / emit_block, LogReader::read_record /    *)
(* read_physical_record.  Property C12.                                     *)
(*                                                                         *)
(* A file is a sequence of Block-byte blocks.  A user record is written as  *)
(* one or more physical records ("fragments"): a Hdr-byte header (checksum, *)
(* length, type Full/First/Middle/Last) followed by the payload bytes.  A   *)
(* fragment never crosses a block boundary; when fewer than Hdr bytes are   *)
(* left in a block the writer fills them with zeroes (the trailer) and      *)
(* continues in the next block.  A writer opened in append mode resumes at  *)
(* `file length mod Block`.                                                 *)
(*                                                                         *)
(* The model is ARITHMETIC OVER OFFSETS, not a byte array: the file is a    *)
(* sequence of items [type, len, rec, frag]                                 *)
(*   type 0..3  a fragment with len payload bytes (Hdr + len bytes on       *)
(*              disk); rec / frag are ghosts: the id of the user record it  *)
(*              was written for and its number within that record           *)
(*   type 4     a zero trailer of len bytes                                 *)
(*   type 5     the first len bytes of an item that was cut off by a        *)
(*              truncation (always the last item)                           *)
(* so Block and Hdr can be the real 32768 / 7 or small numbers.             *)
(*                                                                         *)
(* The READER is modelled as what the code can see: it walks the items with *)
(* its own block offset, skips what it believes is a trailer, and decides   *)
(* only on the fragment TYPES.  The ghosts rec/frag are merely carried into *)
(* its output so that the properties can say whether a delivered record is  *)
(* one that was appended (all fragments 1..k of one record, in order) or    *)
(* something the reader made up (a splice, a partial record).               *)
(***************************************************************************)
EXTENDS Integers, Sequences, FiniteSets, TLC

CONSTANTS
  Block,       \* block size (32768)
  Hdr,         \* fragment header size (7)
  Lens,        \* record lengths Append may use
  Fillers,     \* lengths of one record written before the behaviour starts, to pre-position the
               \* writer inside the first block; -1 = start with an empty file
  MaxRecs,     \* records appended per behaviour (the filler not counted)
  MaxReopen,   \* writer re-openings in append mode
  MaxStop,     \* writers that die between two fragments of a record
  MaxTrunc,    \* 0 or 1: the file is cut off once, afterwards it is only read
  TruncAll,    \* TRUE: cut at every byte; FALSE: only at structurally distinct bytes of every item
  AllowEagerPad, \* TRUE: a writer MAY zero-fill the rest of a block in which no header fits right
               \* after the record that ends there (raindb does it lazily, at the start of the next
               \* append; both are legal designs and every property below holds for either)
  \* named deviations: each must make TLC produce a counterexample
  Bug_TrailerThresholdOffByOne,  \* writer pads only when fewer than Hdr-1 bytes remain
  Bug_NoOffsetRestoreOnReopen,   \* append-mode writer starts with block offset 0
  Bug_ReaderSplicesFragments,    \* reader appends every fragment to one buffer and delivers it at
                                 \* the next Full/Last (raindb before 3a28da5)
  Bug_ReaderStopsAfterPartial    \* reader reports end of file when an unfinished record is followed
                                 \* by the beginning of another one

ASSUME /\ Hdr \in Nat /\ Hdr >= 2 /\ Block \in Nat /\ Block >= 2 * Hdr + 2
       /\ \A n \in Lens : n \in Nat
       /\ \A n \in Fillers : n \in Int /\ n >= -1 /\ n <= Block - Hdr

VARIABLES
  file,       \* sequence of items
  woff,       \* the open writer's offset inside its current block (LogWriter::current_block_offset)
  fileLen,    \* length of the file in bytes
  wr,         \* "open" | "closed" | "dead" (died between two fragments, or file truncated)
  cur,        \* the append in progress [id, len, left, frag] or NoAppend
  appended,   \* ghost: <<[id, len]>> of every record whose append was started, id = position
  base,       \* ghost: 1 if a filler record was written before the behaviour started
  reopens, stops, truncated

vars == <<file, woff, fileLen, wr, cur, appended, base, reopens, stops, truncated>>

---------------------------------------------------------------------------
(* items *)

Full == 0   First == 1   Middle == 2   Last == 3   PadT == 4   CutT == 5

Frag(t, n, r, j) == [type |-> t, len |-> n, rec |-> r, frag |-> j]
PadItem(n) == [type |-> PadT, len |-> n, rec |-> 0, frag |-> 0]
CutItem(n, it) == [type |-> CutT, len |-> n, rec |-> it.rec, frag |-> it.frag]

IsFrag(it) == it.type \in 0..3
Size(it) == IF IsFrag(it) THEN Hdr + it.len ELSE it.len

RECURSIVE Total(_)
Total(f) == IF f = <<>> THEN 0 ELSE Size(Head(f)) + Total(Tail(f))

\* byte offset at which item i starts
OffOf(f, i) == Total(SubSeq(f, 1, i - 1))

Frags(f) == SelectSeq(f, IsFrag)

RECURSIVE SumLen(_)
SumLen(ps) == IF ps = <<>> THEN 0 ELSE Head(ps).len + SumLen(Tail(ps))

---------------------------------------------------------------------------
(* the writer: one iteration of the loop in LogWriter::append *)

PadBelow == IF Bug_TrailerThresholdOffByOne THEN Hdr - 1 ELSE Hdr

EmitOne(f, w, id, left, j) ==
  LET avail == Block - w
      pad   == avail < PadBelow
      f1    == IF pad /\ avail > 0 THEN Append(f, PadItem(avail)) ELSE f
      w1    == IF pad THEN 0 ELSE w
      sp    == Block - w1 - Hdr
      space == IF sp < 0 THEN 0 ELSE sp          \* sp < 0 only under Bug_TrailerThresholdOffByOne
      n     == IF left < space THEN left ELSE space
      final == (n = left)
      t     == IF j = 1 /\ final THEN Full
               ELSE IF j = 1 THEN First
               ELSE IF final THEN Last ELSE Middle IN
  [file |-> Append(f1, Frag(t, n, id, j)), woff |-> w1 + Hdr + n, left |-> left - n,
   final |-> final, added |-> (IF pad /\ avail > 0 THEN avail ELSE 0) + Hdr + n]

\* the whole loop
RECURSIVE AppendAll(_, _, _, _, _)
AppendAll(f, w, id, left, j) ==
  LET r == EmitOne(f, w, id, left, j) IN
  IF r.final THEN [file |-> r.file, woff |-> r.woff]
  ELSE AppendAll(r.file, r.woff, id, r.left, j + 1)

\* the trailer written at once: what PadTail adds to the result [file, woff] of AppendAll
CanPadTail(w) == Block - w < Hdr /\ w # 0
PadTail(r) ==
  IF ~CanPadTail(r.woff) THEN r
  ELSE [file |-> IF Block - r.woff > 0 THEN Append(r.file, PadItem(Block - r.woff)) ELSE r.file,
        woff |-> 0]

\* block offset of a writer that opens a file of n bytes in append mode
ReopenOffset(n) == IF Bug_NoOffsetRestoreOnReopen THEN 0 ELSE n % Block

---------------------------------------------------------------------------
(* truncation *)

RECURSIVE WholeItems(_, _, _)
\* number of leading items of f that end at or before byte n
WholeItems(f, n, i) ==
  IF i > Len(f) THEN Len(f)
  ELSE IF OffOf(f, i) + Size(f[i]) <= n THEN WholeItems(f, n, i + 1) ELSE i - 1

CutFile(f, n) ==
  LET k == WholeItems(f, n, 1)
      o == OffOf(f, k + 1) IN
  IF k = Len(f) \/ o = n THEN SubSeq(f, 1, k)
  ELSE Append(SubSeq(f, 1, k), CutItem(n - o, f[k + 1]))

\* bytes at which cutting gives structurally different files: for every item its first byte, one
\* byte in, the last header byte, the first and second payload byte, its last byte
StructuralCuts(f) ==
  UNION {LET o == OffOf(f, i) s == Size(f[i]) IN
         {x \in {o, o + 1, o + Hdr - 1, o + Hdr, o + Hdr + 1, o + s - 1} : x >= o /\ x < o + s}
         : i \in 1..Len(f)}

CutPoints == IF TruncAll THEN 0..(fileLen - 1) ELSE StructuralCuts(file)

---------------------------------------------------------------------------
(* the reader: LogReader::read_record called until it reports end of file.
   Scan state: out = delivered records, each the sequence of fragments it was assembled from;
   acc = fragments of the record being assembled; inrec; roff = reader's block offset;
   sync = FALSE when the reader looks for a header or a trailer where the file holds something
   else (from there on it reads garbage); eof. *)

Deliver(st, it) ==
  LET ro == (st.roff + Hdr + it.len) % Block IN
  IF Bug_ReaderSplicesFragments
  THEN LET acc == Append(st.acc, it) IN
       IF it.type \in {Full, Last}
       THEN [st EXCEPT !.out = Append(@, acc), !.acc = <<>>, !.inrec = FALSE, !.roff = ro]
       ELSE [st EXCEPT !.acc = acc, !.inrec = TRUE, !.roff = ro]
  ELSE IF Bug_ReaderStopsAfterPartial /\ st.inrec /\ it.type \in {Full, First}
  THEN [st EXCEPT !.eof = TRUE]
  ELSE CASE it.type = Full ->
              [st EXCEPT !.out = Append(@, <<it>>), !.acc = <<>>, !.inrec = FALSE, !.roff = ro]
         [] it.type = First ->
              [st EXCEPT !.acc = <<it>>, !.inrec = TRUE, !.roff = ro]
         [] it.type = Middle ->
              IF st.inrec THEN [st EXCEPT !.acc = Append(@, it), !.roff = ro]
              ELSE [st EXCEPT !.roff = ro]
         [] OTHER ->
              IF st.inrec
              THEN [st EXCEPT !.out = Append(@, Append(st.acc, it)), !.acc = <<>>,
                              !.inrec = FALSE, !.roff = ro]
              ELSE [st EXCEPT !.roff = ro]

RECURSIVE ScanFrom(_, _, _)
ScanFrom(f, i, st) ==
  IF i > Len(f) \/ ~st.sync \/ st.eof THEN st
  ELSE LET it == f[i] IN
       IF it.type = CutT THEN [st EXCEPT !.eof = TRUE]   \* partial header, payload or trailer
       ELSE IF Block - st.roff < Hdr
       THEN \* no room for a header: the reader skips the rest of the block
            IF it.type = PadT /\ it.len = Block - st.roff
            THEN ScanFrom(f, i + 1, [st EXCEPT !.roff = 0])
            ELSE [st EXCEPT !.sync = FALSE]
       ELSE IF it.type = PadT THEN [st EXCEPT !.sync = FALSE]
       ELSE ScanFrom(f, i + 1, Deliver(st, it))

Scan(f) == ScanFrom(f, 1, [out |-> <<>>, acc |-> <<>>, inrec |-> FALSE, roff |-> 0,
                           sync |-> TRUE, eof |-> FALSE])

\* is a delivered record exactly the fragments 1..k of ONE record of `app`, with all its bytes?
Genuine(ps, app) ==
  LET r == ps[1].rec IN
  /\ r \in 1..Len(app)
  /\ \A p \in 1..Len(ps) : ps[p].rec = r /\ ps[p].frag = p
  /\ SumLen(ps) = app[r].len

RecOf(ps, app) == [id |-> IF Genuine(ps, app) THEN ps[1].rec ELSE 0, len |-> SumLen(ps)]

\* what reading the file returns, as <<[id, len]>>; id 0 = bytes that were not appended as one record
ReadOf(f, app) == LET o == Scan(f).out IN [i \in 1..Len(o) |-> RecOf(o[i], app)]

\* what it must return: the appended records all of whose bytes are in the file, in order
Present(f, r, n) ==
  LET fr == SelectSeq(f, LAMBDA it : IsFrag(it) /\ it.rec = r) IN
  fr # <<>> /\ SumLen(fr) = n

ExpectedOf(f, app) == SelectSeq(app, LAMBDA a : Present(f, a.id, a.len))

Read(f) == ReadOf(f, appended)
Expected == ExpectedOf(file, appended)

---------------------------------------------------------------------------
(* behaviours *)

NoAppend == [id |-> 0, len |-> 0, left |-> 0, frag |-> 0]

Init ==
  \E fl \in Fillers :
    /\ IF fl = -1
       THEN file = <<>> /\ woff = 0 /\ appended = <<>> /\ base = 0
       ELSE LET r == AppendAll(<<>>, 0, 1, fl, 1) IN
            file = r.file /\ woff = r.woff /\ appended = <<[id |-> 1, len |-> fl]>> /\ base = 1
    /\ fileLen = Total(file)
    /\ wr = "open" /\ cur = NoAppend /\ reopens = 0 /\ stops = 0 /\ truncated = FALSE

Emit(id, n, left, j) ==
  LET r == EmitOne(file, woff, id, left, j) IN
  /\ file' = r.file /\ woff' = r.woff /\ fileLen' = fileLen + r.added
  /\ cur' = IF r.final THEN NoAppend ELSE [id |-> id, len |-> n, left |-> r.left, frag |-> j + 1]

\* LogWriter::append(data) with Len(data) = n: first loop iteration
Append1(n) ==
  /\ wr = "open" /\ cur = NoAppend /\ Len(appended) - base < MaxRecs
  /\ LET id == Len(appended) + 1 IN
     /\ appended' = Append(appended, [id |-> id, len |-> n])
     /\ Emit(id, n, n, 1)
  /\ UNCHANGED <<wr, base, reopens, stops, truncated>>

\* ... every further loop iteration
EmitFragment ==
  /\ wr = "open" /\ cur # NoAppend
  /\ Emit(cur.id, cur.len, cur.left, cur.frag)
  /\ UNCHANGED <<wr, appended, base, reopens, stops, truncated>>

\* the optional eager trailer (see AllowEagerPad)
EagerPad ==
  /\ AllowEagerPad /\ wr = "open" /\ cur = NoAppend /\ CanPadTail(woff)
  /\ LET r == PadTail([file |-> file, woff |-> woff]) IN
     file' = r.file /\ woff' = r.woff /\ fileLen' = Total(r.file)
  /\ UNCHANGED <<wr, cur, appended, base, reopens, stops, truncated>>

CloseWriter ==
  /\ wr = "open" /\ cur = NoAppend
  /\ wr' = "closed"
  /\ UNCHANGED <<file, woff, fileLen, cur, appended, base, reopens, stops, truncated>>

\* the writer dies after a non-final fragment reached the file
StopBetweenFragments ==
  /\ wr = "open" /\ cur # NoAppend /\ stops < MaxStop
  /\ wr' = "dead" /\ cur' = NoAppend /\ stops' = stops + 1
  /\ UNCHANGED <<file, woff, fileLen, appended, base, reopens, truncated>>

\* LogWriter::new(.., is_appending = true)
ReopenWriter ==
  /\ wr \in {"closed", "dead"} /\ ~truncated /\ reopens < MaxReopen
  /\ wr' = "open" /\ woff' = ReopenOffset(fileLen) /\ reopens' = reopens + 1
  /\ UNCHANGED <<file, fileLen, cur, appended, base, stops, truncated>>

\* the file is cut to n bytes; afterwards it is only read.  (Every file content is also reachable
\* with the writer closed, so cutting only closed files loses nothing.)
Truncate(n) ==
  /\ wr \in {"closed", "dead"} /\ ~truncated /\ MaxTrunc > 0
  /\ file' = CutFile(file, n) /\ fileLen' = n /\ truncated' = TRUE /\ wr' = "dead"
  /\ UNCHANGED <<woff, cur, appended, base, reopens, stops>>

Next ==
  \/ \E n \in Lens : Append1(n)
  \/ EmitFragment \/ EagerPad \/ CloseWriter \/ StopBetweenFragments \/ ReopenWriter
  \/ \E n \in CutPoints : Truncate(n)

Spec == Init /\ [][Next]_vars

---------------------------------------------------------------------------
(* properties *)

TypeOK ==
  /\ \A i \in 1..Len(file) : file[i].type \in 0..5 /\ file[i].len \in Nat
  /\ wr \in {"open", "closed", "dead"} /\ truncated \in BOOLEAN
  /\ \A i \in 1..Len(file) : file[i].type = CutT => i = Len(file)

\* where the writer stands, and what a file produced by writers looks like
WriterPosition ==
  /\ fileLen = Total(file)
  /\ wr = "open" => woff \in 0..Block /\ woff % Block = fileLen % Block
  /\ \A i \in 1..Len(file) :
       LET it == file[i] o == OffOf(file, i) % Block IN
       /\ IsFrag(it) =>
            /\ Block - o >= Hdr                       \* no header in the last Hdr-1 bytes of a block
            /\ o + Hdr + it.len <= Block              \* a fragment stays inside its block
            /\ it.type \in {First, Middle} => o + Hdr + it.len = Block
       /\ it.type = PadT => it.len \in 1..(Hdr - 1) /\ o + it.len = Block
  /\ LET F == Frags(file) IN
     \A i \in 1..Len(F) :
       /\ F[i].frag = 1 => F[i].type \in {Full, First}
       /\ F[i].frag > 1 =>
            /\ F[i].type \in {Middle, Last} /\ i > 1
            /\ F[i - 1].rec = F[i].rec /\ F[i - 1].frag = F[i].frag - 1
            /\ F[i - 1].type \in {First, Middle}
       \* an unfinished record is followed by another record only after a writer died
       /\ (i > 1 /\ F[i].frag = 1 /\ F[i - 1].type \in {First, Middle}) => stops > 0
       /\ (i = Len(F) /\ F[i].type \in {First, Middle}) => (cur # NoAppend \/ stops > 0 \/ truncated)
       /\ i > 1 => F[i - 1].rec <= F[i].rec

Undisturbed == ~truncated /\ stops = 0 /\ cur = NoAppend

\* nothing was cut and no writer died: reading returns exactly what was appended
RoundTrip == Undisturbed => (Scan(file).sync /\ Read(file) = appended)

\* a cut file, a file with a record abandoned between two fragments (and whatever later writers
\* appended), a file whose last record is still being written: reading returns exactly the records
\* that are completely there, in order, and nothing that was not appended as one record
PrefixSafe ==
  ~Undisturbed => /\ Scan(file).sync
                  /\ Read(file) = Expected
                  /\ \A i \in 1..Len(Read(file)) : Read(file)[i].id # 0

\* the ghost oracle itself: without disturbance every appended record is completely present
ExpectedSane == Undisturbed => Expected = appended
=============================================================================
