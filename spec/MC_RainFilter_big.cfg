SPECIFICATION FSpec
CONSTANTS
  FRange = 4
  FKeys = {1, 2}
  FSteps = {1, 3, 4, 5, 9, 13}
  FMaxOff = 40
  FMaxBlocks = 4
  FalsePos <- MCSomeFalsePos
  Bug_ReaderIndexOffByOne = FALSE
  Bug_NoFlushAtFinish = FALSE
  Bug_FilterAssignedToNextRange = FALSE
INVARIANTS NoFalseNegative FoldAgrees PendingRangeOK FiltersExact FilterCountOK
CHECK_DEADLOCK FALSE
