SPECIFICATION GenSpec
CONSTANTS
  Entries <- MCEntries3
  NK = 3
  NC = 3
  MaxS = 6
  MaxOps = 4
  Bug_NoReseekOnDirectionChange = FALSE
  Bug_TombstoneNotRemembered = FALSE
  Bug_PrevIgnoresSnapshot = FALSE
  Bug_PrevStopsAtOldestVersion = FALSE
INVARIANTS CursorOK EmitAll
VIEW GenView
CHECK_DEADLOCK FALSE
