SPECIFICATION TraceSpec
CONSTANTS
  NK = 16
  MaxSeq = 100000
  NL = 7
  MemCap = 1000000
  FileCap = 1000000
  MaxSnaps = 100
  MaxPins = 100
  KeepExtra = FALSE
  Ops = {0, 1}
  Bug_RangeMin = FALSE
  Bug_NoBoundary = FALSE
  Bug_DropTombNoBase = FALSE
  Bug_DropAboveSnapshot = FALSE
  Bug_FlushLevelUnsafe = FALSE
  Bug_DeletePending = FALSE
  Bug_DeletePinned = FALSE
  Bug_ImmDropEarly = FALSE
  Bug_FlushDeepDuringCompaction = FALSE
  Bug_ExpandKeepsParents = FALSE
  Bug_ExpandNoBoundary = FALSE
POSTCONDITION TraceAccepted
CHECK_DEADLOCK FALSE
