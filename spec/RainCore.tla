------------------------------ MODULE RainCore ------------------------------
(***************************************************************************)
(* The sequential LSM machine of raindb: memtable, immutable memtable,      *)
(* levels of table files with recorded key ranges, snapshots, pinned        *)
(* versions (iterators / running compactions), outputs under construction   *)
(* and the set of files present on disk.  One action per mutex-held region  *)
(* of the implementation (DESIGN.md section 2.2); background work is a set  *)
(* of nondeterministic steps.                                              *)
(*                                                                         *)
(* The design actions below generate every behaviour the rules allow for    *)
(* small constants (TLC).  RainCore_Trace.tla EXTENDS this module and       *)
(* replays executions of the real code through the same variables and the  *)
(* same property definitions.                                              *)
(***************************************************************************)
EXTENDS RainTypes, TLC

CONSTANTS
  NK,            \* number of user keys
  MaxSeq,        \* bound on sequence numbers (writes)
  NL,            \* number of levels
  MemCap,        \* memtable capacity in entries (abstraction of max_memtable_size)
  FileCap,       \* max entries per compaction output (abstraction of max_file_size)
  MaxSnaps,      \* bound on simultaneously live snapshots
  MaxPins,       \* bound on simultaneously live iterators
  KeepExtra,     \* TRUE: compactions may also keep everything (superset choice)
  Ops,           \* operations clients issue: subset of {0, 1} (0 = delete, 1 = put)
  \* named deviations ("bug switches"), all FALSE in the design that satisfies the properties
  Bug_RangeMin,          \* key range of several files ends at the MIN of the largest keys
  Bug_NoBoundary,        \* boundary files are not added to compaction inputs
  Bug_DropTombNoBase,    \* tombstones dropped without the base-level test
  Bug_DropAboveSnapshot, \* drop rule ignores the smallest live snapshot
  Bug_FlushLevelUnsafe,  \* memtable output pushed below an overlapping level
  Bug_DeletePending,     \* obsolete-file deletion ignores outputs under construction
  Bug_DeletePinned,      \* obsolete-file deletion ignores pinned versions
  Bug_ImmDropEarly,      \* immutable memtable dropped before the new version is installed
  Bug_FlushDeepDuringCompaction, \* a memtable flushed while a table compaction runs may be pushed
                         \* below level 0 (into a gap between the compaction's inputs)
  Bug_ExpandKeepsParents,\* the compaction-level inputs are expanded although the wider range
                         \* overlaps more parent files (which are then left out)
  Bug_ExpandNoBoundary   \* the files added by the expansion do not bring their boundary files
                         \* along (a user key straddling two files of the level is split)

VARIABLES
  nk,        \* number of keys in use (= NK here; set per run in trace validation)
  seq,       \* last published sequence number
  hist,      \* ghost: committed operations, hist[i] = <<k, o, v>>
  mem,       \* entries of the active memtable
  imm,       \* entries of the immutable memtable
  immOn,     \* whether an immutable memtable exists
  immDone,   \* whether the immutable memtable's table has been installed
  immWal,    \* the WAL that backs the immutable memtable
  files,     \* table contents on disk: file number -> set of entries
  cur,       \* current version: level -> sequence of [no, lo, hi]
  pins,      \* pinned read views: set of [id, mem, imm, ver, seq]
  snaps,     \* live snapshots: sequence of sequence numbers
  pending,   \* file numbers of outputs under construction (tables_in_use)
  comp,      \* running compaction or NoComp
  disk,      \* files present: set of <<kind, n>>
  nextFile,  \* last file number handed out
  curWal,    \* WAL being written
  logWal,    \* WAL number recorded in the version set (logs >= this are needed)
  nextPin,
  gcDue      \* a deletion pass is due: it follows every flush and compaction on the same thread

coreVars == <<nk, seq, hist, mem, imm, immOn, immDone, immWal, files, cur, pins, snaps, pending, comp, disk,
              nextFile, curWal, logWal, nextPin, gcDue>>

Keys == 1..nk
Levels == 0..(NL - 1)
NoComp == [on |-> FALSE]

---------------------------------------------------------------------------
(* views and properties *)

SnapSet == {snaps[i] : i \in 1..Len(snaps)}
Live == {seq} \cup SnapSet

Get(k, s) == Lookup(mem, IF immOn THEN imm ELSE {}, cur, files, NL, k, s)

PinGet(p, k) == Lookup(p.mem, p.imm, p.ver, files, NL, k, p.seq)

\* C01, C03, C07 (state form)
ReadCorrect ==
  /\ \A s \in Live : \A k \in Keys : Get(k, s) = AbstractAt(hist, k, s)
  /\ \A p \in pins : \A k \in Keys : PinGet(p, k) = AbstractAt(hist, k, p.seq)

\* C10
WellFormed ==
  /\ WellFormedVer(cur, files, NL)
  /\ \A p \in pins : WellFormedVer(p.ver, files, NL)

\* C11
PinnedVersions == {p.ver : p \in pins} \cup (IF comp.on THEN {comp.ver} ELSE {})

NeededTables == FileNos(cur, NL) \cup UNION {FileNos(v, NL) : v \in PinnedVersions} \cup pending

NothingLiveDeleted ==
  /\ \A n \in FileNos(cur, NL) \cup UNION {FileNos(v, NL) : v \in PinnedVersions} :
        <<"table", n>> \in disk
  /\ \A n \in pending : (n \in DOMAIN files) => <<"table", n>> \in disk
  /\ <<"wal", curWal>> \in disk
  /\ (immOn /\ ~immDone) => <<"wal", immWal>> \in disk

Quiescent == ~immOn /\ ~comp.on /\ pending = {}

QuiescentExact ==
  (Quiescent /\ pins = {}) =>
     \* nothing dead is kept once the deletion pass has run: expressed on the action below
     TRUE

SeqSane == seq = Len(hist)

TypeOK ==
  /\ seq \in 0..MaxSeq
  /\ immOn \in BOOLEAN
  /\ \A l \in Levels : \A i \in 1..Len(cur[l]) : cur[l][i].no \in DOMAIN files

---------------------------------------------------------------------------
(* helpers for the design actions *)

MkRec(no, E) == [no |-> no, lo |-> IKeyOf(MinI(E)), hi |-> IKeyOf(MaxI(E))]

RECURSIVE InsertByLo(_, _)
InsertByLo(fs, r) ==
  IF fs = <<>> THEN <<r>>
  ELSE IF ILess(r.lo, Head(fs).lo) THEN <<r>> \o fs
  ELSE <<Head(fs)>> \o InsertByLo(Tail(fs), r)

RECURSIVE InsertAll(_, _)
InsertAll(fs, R) ==
  IF R = {} THEN fs
  ELSE LET r == CHOOSE x \in R : \A y \in R : ILeq(x.lo, y.lo) IN
       InsertAll(InsertByLo(fs, r), R \ {r})

RemoveNos(fs, N) == SelectSeq(fs, LAMBDA f : f.no \notin N)

UOverlap(f, lo, hi) == ~(f.hi[1] < lo \/ hi < f.lo[1])

LvlSet(v, l) == SeqToSet(v[l])

\* memtable output level: level 0, or a level such that no file in levels 0..l+0 overlaps
\* (pick_level_for_memtable_output: no overlap in level 0, and no overlap in every level up to
\* and including the chosen one)
FlushLevelOK(l, lo, hi) ==
  \/ l = 0
  \/ /\ l <= 2 /\ l < NL
     /\ \A j \in 0..l : \A f \in LvlSet(cur, j) : ~UOverlap(f, lo, hi)
  \/ /\ Bug_FlushLevelUnsafe /\ l <= 2 /\ l < NL
     /\ \A f \in LvlSet(cur, l) : ~UOverlap(f, lo, hi)

RECURSIVE L0Close(_)
L0Close(S) ==
  LET lo == SetMin({f.lo[1] : f \in S})
      hi == SetMax({f.hi[1] : f \in S})
      T == {f \in LvlSet(cur, 0) : UOverlap(f, lo, hi)} IN
  IF T \subseteq S THEN S ELSE L0Close(T \cup S)

\* add_boundary_inputs: files of the level that start with the user key the inputs end with
RECURSIVE Boundary(_, _)
Boundary(l, S) ==
  IF Bug_NoBoundary \/ S = {} THEN S
  ELSE LET top == MaxI({f.hi : f \in S})
           C == {g \in LvlSet(cur, l) \ S : ILess(top, g.lo) /\ g.lo[1] = top[1]} IN
       IF C = {} THEN S
       ELSE Boundary(l, S \cup {CHOOSE g \in C : \A h \in C : ILeq(g.lo, h.lo)})

RangeLo(S) == SetMin({f.lo[1] : f \in S})
RangeHi(S) == IF Bug_RangeMin THEN SetMin({f.hi[1] : f \in S}) ELSE SetMax({f.hi[1] : f \in S})

Inputs0(l, f) == Boundary(l, IF l = 0 THEN L0Close({f}) ELSE {f})
Inputs1(l, S0) ==
  Boundary(l + 1, {g \in LvlSet(cur, l + 1) : UOverlap(g, RangeLo(S0), RangeHi(S0))})

\* finalize_compaction_inputs, second half: "see if we can grow the number of inputs in the
\* compaction level without adding more files from the parent level": every file of the level
\* that overlaps the range of ALL inputs so far is taken as well, provided the parent files
\* overlapping the wider range are still the same ones.  Either choice is legal.
InputChoices(l, S0, S1) ==
  IF S1 = {} THEN {<<S0, S1>>}
  ELSE LET all == S0 \cup S1
           W == {f \in LvlSet(cur, l) : UOverlap(f, RangeLo(all), RangeHi(all))} \cup S0
           E0 == IF Bug_ExpandNoBoundary THEN (IF l = 0 THEN L0Close(W) ELSE W)
                 ELSE Boundary(l, IF l = 0 THEN L0Close(W) ELSE W)
           E1 == Boundary(l + 1, {g \in LvlSet(cur, l + 1) : UOverlap(g, RangeLo(E0), RangeHi(E0))}) IN
       IF Cardinality(E0) > Cardinality(S0) /\ (Bug_ExpandKeepsParents \/ E1 = S1)
       THEN {<<S0, S1>>, <<E0, S1>>}
       ELSE {<<S0, S1>>}

\* is_base_level_for_key: no file in levels >= l+2 whose recorded user-key range contains k
BaseLevel(l, k) ==
  \A j \in (l + 2)..(NL - 1) : \A f \in LvlSet(cur, j) : ~(f.lo[1] <= k /\ k <= f.hi[1])

\* compact_tables drop rule: an entry is dropped when the next newer entry of its key among
\* the inputs is already <= the smallest snapshot, or when it is a tombstone <= the smallest
\* snapshot and no deeper level can hold the key
MustKeep(E, l, small) ==
  {e \in E :
     LET newer == {x \in E : x[1] = e[1] /\ x[2] > e[2]} IN
     /\ ~(newer # {} /\ (Bug_DropAboveSnapshot \/ SetMin({x[2] : x \in newer}) <= small))
     /\ ~(e[3] = 0 /\ (Bug_DropAboveSnapshot \/ e[2] <= small)
            /\ (Bug_DropTombNoBase \/ BaseLevel(l, e[1])))}

\* the first n entries of E in internal-key order
RECURSIVE TakeFirst(_, _)
TakeFirst(E, n) ==
  IF n = 0 \/ E = {} THEN {} ELSE LET m == MinI(E) IN {m} \cup TakeFirst(E \ {m}, n - 1)

---------------------------------------------------------------------------
(* actions *)

Init ==
  /\ nk = NK /\ seq = 0 /\ hist = <<>> /\ mem = {} /\ imm = {} /\ immOn = FALSE
  /\ immDone = FALSE /\ immWal = 0
  /\ files = <<>> /\ cur = EmptyVersion(NL) /\ pins = {} /\ snaps = <<>> /\ pending = {}
  /\ comp = NoComp /\ disk = {<<"wal", 1>>} /\ nextFile = 1 /\ curWal = 1 /\ logWal = 1
  /\ nextPin = 1 /\ gcDue = FALSE

\* DB::apply_changes for a single operation (room available)
Write(k, o) ==
  /\ seq < MaxSeq /\ Cardinality(mem) < MemCap
  /\ LET s == seq + 1  v == IF o = 1 THEN s ELSE 0 IN
     /\ hist' = Append(hist, <<k, o, v>>)
     /\ mem' = mem \cup {<<k, s, o, v>>}
     /\ seq' = s
  /\ UNCHANGED <<nk, imm, immOn, immDone, immWal, files, cur, pins, snaps, pending, comp, disk, nextFile,
                 curWal, logWal, nextPin, gcDue>>

\* a two-operation batch: consecutive sequence numbers, published together
Write2(k1, o1, k2, o2) ==
  /\ seq + 1 < MaxSeq /\ Cardinality(mem) < MemCap
  /\ LET s1 == seq + 1  s2 == seq + 2
         v1 == IF o1 = 1 THEN s1 ELSE 0  v2 == IF o2 = 1 THEN s2 ELSE 0 IN
     /\ hist' = hist \o << <<k1, o1, v1>>, <<k2, o2, v2>> >>
     /\ mem' = mem \cup {<<k1, s1, o1, v1>>, <<k2, s2, o2, v2>>}
     /\ seq' = s2
  /\ UNCHANGED <<nk, imm, immOn, immDone, immWal, files, cur, pins, snaps, pending, comp, disk, nextFile,
                 curWal, logWal, nextPin, gcDue>>

\* make_room_for_write: new WAL, memtable becomes immutable
Rotate ==
  /\ ~immOn /\ mem # {}
  /\ imm' = mem /\ immOn' = TRUE /\ mem' = {} /\ immDone' = FALSE /\ immWal' = curWal
  /\ nextFile' = nextFile + 1 /\ curWal' = nextFile + 1
  /\ disk' = disk \cup {<<"wal", nextFile + 1>>}
  /\ UNCHANGED <<nk, seq, hist, files, cur, pins, snaps, pending, comp, logWal, nextPin, gcDue>>

\* compact_memtable: build the table, log_and_apply (version installed, WAL number advanced)
FlushInstall(l) ==
  /\ immOn /\ ~immDone /\ imm # {} /\ ~gcDue
  /\ FlushLevelOK(l, MinI(imm)[1], MaxI(imm)[1])
  \* a flush from inside the merge loop of a table compaction: the outputs of that compaction are
  \* not in any version yet, but they will cover the whole range of its inputs, gaps included
  /\ (comp.on /\ ~Bug_FlushDeepDuringCompaction) => l = 0
  /\ LET no == nextFile + 1  r == MkRec(no, imm) IN
     /\ nextFile' = no
     /\ files' = (no :> imm) @@ files
     /\ disk' = disk \cup {<<"table", no>>}
     /\ cur' = [cur EXCEPT ![l] = IF l = 0 THEN Append(@, r) ELSE InsertByLo(@, r)]
  /\ logWal' = curWal /\ immDone' = TRUE
  /\ UNCHANGED <<nk, seq, hist, mem, imm, immOn, immWal, pins, snaps, pending, comp, curWal,
                 nextPin, gcDue>>

ImmDrop ==
  /\ immOn
  /\ immDone \/ Bug_ImmDropEarly
  /\ ~gcDue /\ gcDue' = TRUE
  /\ immOn' = FALSE /\ imm' = {} /\ immDone' = FALSE
  /\ UNCHANGED <<nk, seq, hist, mem, immWal, files, cur, pins, snaps, pending, comp, disk, nextFile,
                 curWal, logWal, nextPin>>

\* remove_obsolete_files: everything that is not needed goes
Deletable ==
  LET keepT == FileNos(cur, NL)
               \cup (IF Bug_DeletePinned THEN {} ELSE UNION {FileNos(v, NL) : v \in PinnedVersions})
               \cup (IF Bug_DeletePending THEN {} ELSE pending) IN
  {d \in disk : \/ (d[1] = "table" /\ d[2] \notin keepT)
               \/ (d[1] = "wal" /\ d[2] < logWal)}

RemoveObsolete ==
  /\ gcDue /\ gcDue' = FALSE
  /\ disk' = disk \ Deletable
  /\ UNCHANGED <<nk, seq, hist, mem, imm, immOn, immDone, immWal, files, cur, pins, snaps, pending, comp,
                 nextFile, curWal, logWal, nextPin>>

\* pick_compaction / compact_range: inputs fixed under the mutex, input version pinned,
\* smallest snapshot captured
CompactPick(l, f) ==
  /\ ~gcDue /\ ~comp.on /\ l < NL - 1 /\ f \in LvlSet(cur, l)
  /\ \E pr \in InputChoices(l, Inputs0(l, f), Inputs1(l, Inputs0(l, f))) :
     LET S0 == pr[1]
         S1 == pr[2]
         E == UNION {EntsOf(files, g.no) : g \in S0 \cup S1}
         small == SetMin(Live) IN
     \E K \in (IF KeepExtra THEN {MustKeep(E, l, small), E} ELSE {MustKeep(E, l, small)}) :
       comp' = [on |-> TRUE, lvl |-> l, in0 |-> {g.no : g \in S0}, in1 |-> {g.no : g \in S1},
                ver |-> cur, todo |-> K, outs |-> {}]
  /\ UNCHANGED <<nk, seq, hist, mem, imm, immOn, immDone, immWal, files, cur, pins, snaps, pending, disk,
                 nextFile, curWal, logWal, nextPin, gcDue>>

\* compact_range(level, lo..hi): EVERY file of the level that overlaps the requested user-key range
\* (level 0: widened transitively) - the inputs need not be neighbours, so their union can have gaps
ManualInputs0(l, lo, hi) ==
  LET T == {f \in LvlSet(cur, l) : UOverlap(f, lo, hi)} IN
  IF T = {} THEN {} ELSE Boundary(l, IF l = 0 THEN L0Close(T) ELSE T)

CompactPickRange(l, lo, hi) ==
  /\ ~gcDue /\ ~comp.on /\ l < NL - 1 /\ lo <= hi
  /\ ManualInputs0(l, lo, hi) # {}
  /\ \E pr \in InputChoices(l, ManualInputs0(l, lo, hi), Inputs1(l, ManualInputs0(l, lo, hi))) :
     LET S0 == pr[1]
         S1 == pr[2]
         E == UNION {EntsOf(files, g.no) : g \in S0 \cup S1}
         small == SetMin(Live) IN
     comp' = [on |-> TRUE, lvl |-> l, in0 |-> {g.no : g \in S0}, in1 |-> {g.no : g \in S1},
              ver |-> cur, todo |-> MustKeep(E, l, small), outs |-> {}]
  /\ UNCHANGED <<nk, seq, hist, mem, imm, immOn, immDone, immWal, files, cur, pins, snaps, pending, disk,
                 nextFile, curWal, logWal, nextPin, gcDue>>

\* one output file: any non-empty run of at most FileCap entries (cuts may fall between two
\* versions of one user key)
CompactEmit(n) ==
  /\ ~gcDue /\ comp.on /\ comp.todo # {} /\ n \in 1..FileCap
  /\ n <= Cardinality(comp.todo)
  /\ LET E == TakeFirst(comp.todo, n)  no == nextFile + 1 IN
     /\ nextFile' = no
     /\ files' = (no :> E) @@ files
     /\ disk' = disk \cup {<<"table", no>>}
     /\ pending' = pending \cup {no}
     /\ comp' = [comp EXCEPT !.todo = @ \ E, !.outs = @ \cup {no}]
  /\ UNCHANGED <<nk, seq, hist, mem, imm, immOn, immDone, immWal, cur, pins, snaps, curWal, logWal, nextPin, gcDue>>

\* install_compaction_results + cleanup + release_inputs
CompactInstall ==
  /\ comp.on /\ comp.todo = {}
  /\ LET l == comp.lvl
         gone == comp.in0 \cup comp.in1
         R == {MkRec(no, files[no]) : no \in comp.outs} IN
     cur' = [cur EXCEPT ![l] = RemoveNos(@, gone),
                        ![l + 1] = InsertAll(RemoveNos(@, gone), R)]
  /\ pending' = pending \ comp.outs
  /\ comp' = NoComp /\ ~gcDue /\ gcDue' = TRUE
  /\ UNCHANGED <<nk, seq, hist, mem, imm, immOn, immDone, immWal, files, pins, snaps, disk, nextFile, curWal,
                 logWal, nextPin>>

\* trivial move: a single file with no parent overlap goes one level down
TrivialMove(l, f) ==
  /\ ~gcDue /\ ~comp.on /\ l < NL - 1 /\ f \in LvlSet(cur, l)
  /\ Inputs0(l, f) = {f} /\ Inputs1(l, {f}) = {}
  /\ cur' = [cur EXCEPT ![l] = RemoveNos(@, {f.no}), ![l + 1] = InsertByLo(@, f)]
  /\ UNCHANGED <<nk, seq, hist, mem, imm, immOn, immDone, immWal, files, pins, snaps, pending, comp, disk,
                 nextFile, curWal, logWal, nextPin, gcDue>>

TakeSnap ==
  /\ Len(snaps) < MaxSnaps
  /\ snaps' = Append(snaps, seq)
  /\ UNCHANGED <<nk, seq, hist, mem, imm, immOn, immDone, immWal, files, cur, pins, pending, comp, disk,
                 nextFile, curWal, logWal, nextPin, gcDue>>

RelSnap(i) ==
  /\ i \in 1..Len(snaps)
  /\ snaps' = [j \in 1..(Len(snaps) - 1) |-> IF j < i THEN snaps[j] ELSE snaps[j + 1]]
  /\ UNCHANGED <<nk, seq, hist, mem, imm, immOn, immDone, immWal, files, cur, pins, pending, comp, disk,
                 nextFile, curWal, logWal, nextPin, gcDue>>

\* new_iterator: pins memtable, immutable memtable, version and sequence
PinNew ==
  /\ Cardinality(pins) < MaxPins
  /\ pins' = pins \cup {[id |-> nextPin, mem |-> mem, imm |-> IF immOn THEN imm ELSE {},
                         ver |-> cur, seq |-> seq]}
  /\ nextPin' = nextPin + 1
  /\ UNCHANGED <<nk, seq, hist, mem, imm, immOn, immDone, immWal, files, cur, snaps, pending, comp, disk,
                 nextFile, curWal, logWal, gcDue>>

PinDrop(p) ==
  /\ p \in pins
  /\ pins' = pins \ {p}
  /\ UNCHANGED <<nk, seq, hist, mem, imm, immOn, immDone, immWal, files, cur, snaps, pending, comp, disk,
                 nextFile, curWal, logWal, nextPin, gcDue>>

BgStep ==
  \/ \E l \in 0..2 : FlushInstall(l)
  \/ ImmDrop
  \/ RemoveObsolete
  \/ \E l \in Levels : \E f \in LvlSet(cur, l) : CompactPick(l, f) \/ TrivialMove(l, f)
  \/ \E l \in Levels : \E lo, hi \in Keys : CompactPickRange(l, lo, hi)
  \/ \E n \in 1..FileCap : CompactEmit(n)
  \/ CompactInstall

Next ==
  \/ \E k \in Keys, o \in Ops : Write(k, o)
  \/ Rotate
  \/ BgStep
  \/ TakeSnap \/ \E i \in 1..Len(snaps) : RelSnap(i)
  \/ PinNew \/ \E p \in pins : PinDrop(p)

Spec == Init /\ [][Next]_coreVars

\* C07 (action form): background steps never change what any live reader can see
Contents(s) == [k \in Keys |-> Get(k, s)]
Invisible == [][BgStep => \A s \in Live : Contents(s)' = Contents(s)]_coreVars

\* C11, leak half: after a deletion pass nothing dead is left
NoLeakAfterPass ==
  [][RemoveObsolete => \A d \in disk' : ~(d[1] = "table" /\ d[2] \notin NeededTables')]_coreVars
=============================================================================
