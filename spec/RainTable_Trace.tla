-------------------------- MODULE RainTable_Trace --------------------------
(***************************************************************************)
(* Trace validation of the real table and filter code of raindb against     *)
(* RainTable (C13) and RainFilter (C14).                                    *)
(*                                                                         *)
(* The harness drivers `tablefmt` and `filterfmt` build real table files    *)
(* (raindb::verif::build_table on a SimFs) and real filter blocks           *)
(* (VFilterBuilder / VFilterReader), and log what was put in and everything *)
(* that came back.  This module replays the lines:                          *)
(*   Table        adopts the sorted run into RainTable's variable `tbl`     *)
(*   IterFwd/Bwd  full iteration            = the run / the reversed run    *)
(*   Seeks, Seek  cursor after seek(k, s)   = RefSeekPos                    *)
(*   Walk         cursor after every move   = RefMove (variable `pos`)      *)
(*   Gets, Get    point lookup              = RefGet (value / deleted /     *)
(*                                            not in this file)             *)
(*   BigCheck     digest of the same checks for tables too big to log       *)
(*   FilterBuilt  adopts the block sequence into RainFilter's `fblocks`,    *)
(*                and - for the exact policy - the REAL filters into `fb`,  *)
(*                judged by RainFilter!NoFalseNegativeIn                    *)
(*   FilterProbes reader answers for (offset, key) pairs                    *)
(*   PolicyProbe  create_filter + key_may_match over a whole key set        *)
(* Failures do not block the replay; they are accumulated in `viol` and     *)
(* printed per run (@@RUN).  A line that no action accepts stops the replay *)
(* (@@REJECT): that is a defect of the machinery, not a property violation. *)
(***************************************************************************)
EXTENDS RainTable, RainFilter, Json, IOUtils, SequencesExt

Rec == ndJsonDeserialize(IOEnv.TRACE)

VARIABLES
  l,        \* next line of the trace
  viol,     \* accumulated violation records of the current run
  runInfo,  \* [run, seed, tag, driver] of the current run
  lastEv,   \* name of the last Table / FilterBuilt event (context of a violation)
  tok,      \* the current table could be built and opened
  frange,   \* range of the current filter block
  fexact    \* the current filter block was built with the exact policy (fb holds the real filters)

traceVars == <<l, viol, runInfo, lastEv, tok, frange, fexact>>
allVars == <<tvars, fvars, traceVars>>

Ev == Rec[l]
IsEv(name) == l <= Len(Rec) /\ Rec[l].e = name

---------------------------------------------------------------------------
(* conversions from the logged JSON *)

ToEnt(j) == <<j[1], j[2], j[3], j[4]>>
ToEnts(js) == [i \in 1..Len(js) |-> ToEnt(js[i])]

\* the coarsest legal layout of a run: one block, index key = last entry
OneBlock(ents) ==
  IF Len(ents) = 0 THEN [ents |-> ents, ends |-> <<>>, idx |-> <<>>]
  ELSE [ents |-> ents, ends |-> <<Len(ents)>>,
        idx |-> <<<<ents[Len(ents)][1], ents[Len(ents)][2]>>>>]

ToBlocks(js) == [i \in 1..Len(js) |-> [off |-> js[i].off, keys |-> ToSet(js[i].keys)]]
ToFilters(js) == [i \in 1..Len(js) |-> ToSet(js[i])]

KindCode(kind) ==
  CASE kind = "value" -> 1 [] kind = "deleted" -> 2 [] kind = "notinfile" -> 3 [] OTHER -> 4

---------------------------------------------------------------------------
(* violation records *)

Viol(props, check, detail) ==
  <<[props |-> props, check |-> check, line |-> l, after |-> lastEv, detail |-> detail]>>

NoDetail == [keys |-> <<>>, at |-> 0]

Step == l' = l + 1

Report(final) ==
  PrintT(<<"@@RUN", ToJson([run |-> runInfo.run, seed |-> runInfo.seed, tag |-> runInfo.tag,
                            lines |-> l, viol |-> final])>>)

---------------------------------------------------------------------------
(* run boundaries *)

FreshDesign ==
  /\ stage' = "go" /\ tbl' = OneBlock(<<>>) /\ cur' = NewCursor /\ pos' = 0 /\ lastOp' = NoOp
  /\ fb' = NewBuilder /\ fblocks' = <<>> /\ fdone' = FALSE

TraceInit ==
  /\ stage = "go" /\ tbl = OneBlock(<<>>) /\ cur = NewCursor /\ pos = 0 /\ lastOp = NoOp
  /\ fb = NewBuilder /\ fblocks = <<>> /\ fdone = FALSE
  /\ l = 1 /\ viol = <<>> /\ lastEv = "none" /\ tok = FALSE /\ frange = 1 /\ fexact = FALSE
  /\ runInfo = [run |-> 0, seed |-> 0, tag |-> "", driver |-> "none"]

TReset ==
  /\ IsEv("Reset")
  /\ IF runInfo.run = 0 THEN TRUE ELSE Report(viol)
  /\ FreshDesign
  /\ Step /\ viol' = <<>> /\ lastEv' = "none" /\ tok' = FALSE /\ frange' = 1 /\ fexact' = FALSE
  /\ runInfo' = [run |-> Ev.run, seed |-> Ev.seed, tag |-> Ev.tag, driver |-> Ev.driver]

TEnd ==
  /\ IsEv("End")
  /\ Report(viol)
  /\ PrintT(<<"@@END", l>>)
  /\ Step
  /\ UNCHANGED <<tvars, fvars, viol, runInfo, lastEv, tok, frange, fexact>>

---------------------------------------------------------------------------
(* C13: tables *)

\* {"e":"Table","block":n,"n":entries,"ok":bool,"big":bool,"ents":[[k,s,o,v]...],"err":".."}
\* For a big table the run is not logged (ents = []); only BigCheck events may follow.
TTable ==
  /\ IsEv("Table")
  /\ LET ents == ToEnts(Ev.ents)
         v1 == IF ~Ev.ok THEN Viol(<<"C13">>, IF Ev.n = 0 THEN "EmptyTableUnreadable" ELSE "TableBuildOrOpenFailed",
                                   [keys |-> <<Ev.block, Ev.n>>, at |-> 0]) ELSE <<>>
         v2 == IF ~SortedRun(ents) \/ (~Ev.big /\ Len(ents) # Ev.n)
               THEN Viol(<<"MODEL">>, "LoggedRunNotSorted", NoDetail) ELSE <<>> IN
     /\ tbl' = OneBlock(ents)
     /\ viol' = (viol \o v1) \o v2
  /\ tok' = Ev.ok
  /\ lastEv' = "Table"
  /\ cur' = NewCursor /\ pos' = 0 /\ lastOp' = NoOp
  /\ Step
  /\ UNCHANGED <<stage, fvars, runInfo, frange, fexact>>

ObsOnly == UNCHANGED <<tvars, fvars, runInfo, lastEv, tok, frange, fexact>>

\* first index at which two sequences differ (0 = equal)
FirstDiff(a, b) ==
  LET n == IF Len(a) < Len(b) THEN Len(a) ELSE Len(b)
      D == {i \in 1..n : a[i] # b[i]} IN
  IF D # {} THEN SetMin(D) ELSE IF Len(a) # Len(b) THEN n + 1 ELSE 0

\* {"e":"IterFwd","ok":bool,"res":[[k,s,o,v]...]}
TIterFwd ==
  /\ IsEv("IterFwd")
  /\ LET got == ToEnts(Ev.res) IN
     viol' = viol \o (IF Ev.ok /\ got = tbl.ents THEN <<>>
                      ELSE Viol(<<"C13">>, "IterFwdWrong",
                                [keys |-> <<Len(got), Len(tbl.ents)>>, at |-> FirstDiff(got, tbl.ents)]))
  /\ Step /\ ObsOnly

TIterBwd ==
  /\ IsEv("IterBwd")
  /\ LET got == ToEnts(Ev.res)
         want == RevSeq(tbl.ents) IN
     viol' = viol \o (IF Ev.ok /\ got = want THEN <<>>
                      ELSE Viol(<<"C13">>, "IterBwdWrong",
                                [keys |-> <<Len(got), Len(want)>>, at |-> FirstDiff(got, want)]))
  /\ Step /\ ObsOnly

\* one seek observation [k, s, rk, rs, ro, rv] (result <<0,0,0,0>> = cursor not valid)
SeekWant(x) == RefEntryAt(tbl.ents, RefSeekPos(tbl.ents, <<x[1], x[2]>>))
SeekBad(x) == <<x[3], x[4], x[5], x[6]>> # SeekWant(x)

SeekViol(list, ok) ==
  LET B == {i \in 1..Len(list) : SeekBad(list[i])} IN
  IF ~ok THEN Viol(<<"C13">>, "SeekWrong", [keys |-> <<>>, at |-> 0, got |-> "error"])
  ELSE IF B = {} THEN <<>>
  ELSE LET i == SetMin(B) x == list[i] w == SeekWant(x) IN
       Viol(<<"C13">>, "SeekWrong",
            [keys |-> <<x[1], x[2]>>, at |-> Cardinality(B),
             got |-> <<x[3], x[4], x[5], x[6]>>, want |-> w])

\* {"e":"Seeks","ok":bool,"list":[[k,s,rk,rs,ro,rv]...]}
TSeeks ==
  /\ IsEv("Seeks")
  /\ viol' = viol \o SeekViol(Ev.list, Ev.ok)
  /\ Step /\ ObsOnly

\* {"e":"Seek","k":..,"s":..,"ok":bool,"res":[k,s,o,v]}
TSeek ==
  /\ IsEv("Seek")
  /\ viol' = viol \o SeekViol(<<<<Ev.k, Ev.s, Ev.res[1], Ev.res[2], Ev.res[3], Ev.res[4]>>>>, Ev.ok)
  /\ Step /\ ObsOnly

\* a walk: steps [move, k, s, rk, rs, ro, rv]; a fresh cursor, the first move is absolute.
\* Returns <<index of the first wrong step or 0, reference position after the last checked step>>
RECURSIVE WalkCheck(_, _, _)
WalkCheck(steps, i, p) ==
  IF i > Len(steps) THEN <<0, p>>
  ELSE LET st == steps[i]
           np == RefMove(tbl.ents, p, st[1], st[2], st[3]) IN
       IF <<st[4], st[5], st[6], st[7]>> # RefEntryAt(tbl.ents, np) THEN <<i, np>>
       ELSE WalkCheck(steps, i + 1, np)

\* {"e":"Walk","ok":bool,"steps":[[m,k,s,rk,rs,ro,rv]...]}
TWalk ==
  /\ IsEv("Walk")
  /\ LET r == WalkCheck(Ev.steps, 1, 0) IN
     /\ viol' = viol \o
          (IF ~Ev.ok THEN Viol(<<"C13">>, "WalkWrong", [keys |-> <<>>, at |-> 0, got |-> "error"])
           ELSE IF r[1] = 0 THEN <<>>
           ELSE LET st == Ev.steps[r[1]] IN
                Viol(<<"C13">>, "WalkWrong",
                     [keys |-> <<st[1], st[2], st[3]>>, at |-> r[1],
                      got |-> <<st[4], st[5], st[6], st[7]>>, want |-> RefEntryAt(tbl.ents, r[2])]))
     /\ pos' = r[2]
  /\ Step
  /\ UNCHANGED <<stage, tbl, cur, lastOp, fvars, runInfo, lastEv, tok, frange, fexact>>

\* one lookup observation {k, s, kind, v}
GetGot(g) == <<g.kind, IF g.kind = "value" THEN g.v ELSE 0>>
GetBad(g) == GetGot(g) # RefGet(tbl.ents, g.k, g.s)

\* a lookup that answers "not in this file" for an entry the file holds may have been cut short by
\* the index (C13) or by the table's filter (C14): both properties are named
GetProps(g) ==
  IF g.kind = "notinfile" /\ RefGet(tbl.ents, g.k, g.s)[1] # "notinfile"
  THEN <<"C13", "C14">> ELSE <<"C13">>

GetViol(list) ==
  LET B == {i \in 1..Len(list) : GetBad(list[i])} IN
  IF B = {} THEN <<>>
  ELSE LET i == SetMin(B) g == list[i] w == RefGet(tbl.ents, g.k, g.s)
           hidden == {j \in B : GetProps(list[j]) # <<"C13">>}
           pr == IF hidden # {} THEN <<"C13", "C14">> ELSE <<"C13">>
           f == IF hidden # {} THEN list[SetMin(hidden)] ELSE g
           fw == RefGet(tbl.ents, f.k, f.s) IN
       Viol(pr, "GetWrong",
            [keys |-> <<f.k, f.s, KindCode(f.kind), KindCode(fw[1])>>, at |-> Cardinality(B),
             got |-> f.kind, gotv |-> f.v, want |-> fw[1], wantv |-> fw[2]])

\* {"e":"Gets","list":[{"k":..,"s":..,"kind":"value|deleted|notinfile|error","v":..}...]}
TGets ==
  /\ IsEv("Gets")
  /\ viol' = viol \o GetViol(Ev.list)
  /\ Step /\ ObsOnly

\* {"e":"Get","k":..,"s":..,"kind":..,"v":..}
TGet ==
  /\ IsEv("Get")
  /\ viol' = viol \o GetViol(<<[k |-> Ev.k, s |-> Ev.s, kind |-> Ev.kind, v |-> Ev.v]>>)
  /\ Step /\ ObsOnly

\* digest for tables too big to log: the harness compared with its own copy of the run
\* {"e":"BigCheck","what":"iterfwd|iterbwd|seek|walk|get|getpresent","n":checked,"bad":count,
\*  "hidden":count of lookups that said "not in this file" for an entry the run holds,"first":index,"ok":bool}
BigName(what) ==
  CASE what = "iterfwd" -> "IterFwdWrong" [] what = "iterbwd" -> "IterBwdWrong"
    [] what = "seek" -> "SeekWrong" [] what = "walk" -> "WalkWrong" [] OTHER -> "GetWrong"

TBigCheck ==
  /\ IsEv("BigCheck")
  /\ viol' = viol \o
       (IF Ev.ok /\ Ev.bad = 0 THEN <<>>
        ELSE Viol(IF Ev.hidden > 0 THEN <<"C13", "C14">> ELSE <<"C13">>,
                  BigName(Ev.what), [keys |-> <<Ev.n, Ev.bad, Ev.hidden>>, at |-> Ev.first, got |-> "digest"]))
  /\ Step /\ ObsOnly

---------------------------------------------------------------------------
(* C14: filter blocks and the policy *)

\* {"e":"FilterBuilt","range":2048,"policy":"exact|bloom","bits":n,"nf":filters,"ok":bool,
\*  "blocks":[{"off":..,"keys":[ids]}...],"hasf":bool,"filters":[[ids]...]}
\* With the exact policy the harness decodes the REAL filter block into key sets (hasf); the
\* design-level reader then judges the real layout.
TFilterBuilt ==
  /\ IsEv("FilterBuilt")
  /\ LET blocks == ToBlocks(Ev.blocks)
         model == FiltersOf(blocks, Ev.range)
         real == IF Ev.hasf THEN ToFilters(Ev.filters) ELSE model
         v0 == IF ~Ev.ok THEN Viol(<<"C14">>, "FilterBlockUnreadable", NoDetail) ELSE <<>>
         badBlocks == {i \in 1..Len(blocks) :
                          \E k \in blocks[i].keys : ~MayMatch(real, blocks[i].off, k, Ev.range)}
         v1 == IF Ev.hasf /\ badBlocks # {}
               THEN LET i == SetMin(badBlocks) IN
                    Viol(<<"C14">>, "FilterLayoutFalseNegative",
                         [keys |-> SetToSeq({k \in blocks[i].keys :
                                               ~MayMatch(real, blocks[i].off, k, Ev.range)}),
                          at |-> blocks[i].off])
               ELSE <<>>
         \* not a property: the real builder lays the filters out differently from the model
         v2 == IF Ev.hasf /\ real # model
               THEN Viol(<<"INFO">>, "FilterLayoutDiffersFromModel",
                         [keys |-> <<Len(real), Len(model)>>, at |-> 0]) ELSE <<>> IN
     /\ fblocks' = blocks
     /\ fb' = [filters |-> real, pending |-> {}]
     /\ viol' = ((viol \o v0) \o v1) \o v2
  /\ fdone' = TRUE
  /\ frange' = Ev.range
  /\ fexact' = Ev.hasf
  /\ lastEv' = "FilterBuilt"
  /\ Step
  /\ UNCHANGED <<tvars, runInfo, tok>>

\* {"e":"FilterProbes","list":[[off, key, res(0/1)]...]}: answers of the REAL reader
ProbeBad(x) == x[2] \in MustMatchKeys(fblocks, x[1]) /\ x[3] = 0

TFilterProbes ==
  /\ IsEv("FilterProbes")
  /\ LET B == {i \in 1..Len(Ev.list) : ProbeBad(Ev.list[i])} IN
     viol' = viol \o
       (IF B = {} THEN <<>>
        ELSE LET x == Ev.list[SetMin(B)] IN
             Viol(<<"C14">>, "FilterFalseNegative",
                  [keys |-> <<x[1], x[2]>>, at |-> Cardinality(B)]))
  /\ Step /\ ObsOnly

\* {"e":"FilterProbe","off":..,"k":..,"res":bool}
TFilterProbe ==
  /\ IsEv("FilterProbe")
  /\ viol' = viol \o
       (IF Ev.k \in MustMatchKeys(fblocks, Ev.off) /\ ~Ev.res
        THEN Viol(<<"C14">>, "FilterFalseNegative", [keys |-> <<Ev.off, Ev.k>>, at |-> 1])
        ELSE <<>>)
  /\ Step /\ ObsOnly

\* {"e":"PolicyProbe","bits":b,"n":keys,"distinct":d,"missing":count,"errs":count,"shape":".."}
\* the axiom of RainFilter (k \in F => PolicyMatch(F, k)) for the real BloomFilterPolicy: every
\* member of the key set the filter was created from must match
TPolicyProbe ==
  /\ IsEv("PolicyProbe")
  /\ viol' = viol \o
       (IF Ev.missing = 0 THEN <<>>
        ELSE Viol(<<"C14">>, "PolicyFalseNegative",
                  [keys |-> <<Ev.bits, Ev.n, Ev.missing>>, at |-> Ev.first]))
  /\ lastEv' = "PolicyProbe"
  /\ Step
  /\ UNCHANGED <<tvars, fvars, runInfo, tok, frange, fexact>>

---------------------------------------------------------------------------

TraceNext ==
  \/ TReset \/ TEnd
  \/ TTable \/ TIterFwd \/ TIterBwd \/ TSeeks \/ TSeek \/ TWalk \/ TGets \/ TGet \/ TBigCheck
  \/ TFilterBuilt \/ TFilterProbes \/ TFilterProbe \/ TPolicyProbe

TraceSpec == TraceInit /\ [][TraceNext]_allVars

\* the whole file was consumed
TraceAccepted ==
  LET d == TLCGet("stats").diameter IN
  IF d = Len(Rec) + 1 THEN TRUE
  ELSE Print(<<"@@REJECT", ToJson([matched |-> d - 1, total |-> Len(Rec),
                                   next |-> IF d <= Len(Rec) THEN Rec[d] ELSE Rec[Len(Rec)]])>>, FALSE)
=============================================================================
