SPECIFICATION Spec
CONSTANTS
  NK = 2
  MaxSeq = 3
  NL = 3
  MemCap = 2
  FileCap = 2
  MaxSnaps = 1
  MaxPins = 0
  MaxFiles = 6
  KeepExtra = FALSE
  Ops = {0, 1}
  Bug_RangeMin = FALSE
  Bug_NoBoundary = FALSE
  Bug_DropTombNoBase = FALSE
  Bug_DropAboveSnapshot = FALSE
  Bug_FlushLevelUnsafe = FALSE
  Bug_DeletePending = FALSE
  Bug_DeletePinned = FALSE
  Bug_ImmDropEarly = FALSE
  Bug_FlushDeepDuringCompaction = FALSE
  Bug_ExpandKeepsParents = FALSE
  Bug_ExpandNoBoundary = FALSE
INVARIANTS ReadCorrect WellFormed NothingLiveDeleted SeqSane
PROPERTIES Invisible NoLeakAfterPass
CONSTRAINT MCBound
VIEW MCView
CHECK_DEADLOCK FALSE
