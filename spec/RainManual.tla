----------------------------- MODULE RainManual -----------------------------
(***************************************************************************)
(* Manual compaction (DB::compact_range -> DB::force_level_compaction) and  *)
(* the background worker (CompactionWorker::compaction_task /              *)
(* coordinate_compaction / compact_tables): two mutexes, one condition      *)
(* variable, one task channel.                                             *)
(*                                                                         *)
(*   dbLock     the database mutex (guarded_fields)                         *)
(*   reqLock[m] the mutex around caller m's ManualCompactionConfiguration   *)
(*   slot       GuardedDbFields::maybe_manual_compaction (none or a caller) *)
(*   cv         background_work_finished_signal                             *)
(*                                                                         *)
(* The caller loops WITH dbLock held: `while !request.lock().done` - i.e.   *)
(* it takes reqLock while holding dbLock - registers its request in the     *)
(* slot if it is free (scheduling the worker), otherwise waits on cv (which *)
(* releases dbLock).  The worker, holding dbLock, takes reqLock only for    *)
(* short sections (read level and range; set `done`; advance `begin`), and  *)
(* never across compact_tables, where dbLock is released for the merge and  *)
(* re-taken to flush a rotated memtable (notify_all) and to install.        *)
(* Lock order is therefore always dbLock -> reqLock.                        *)
(*                                                                         *)
(* C09: every compact_range call returns; the worker always comes back to   *)
(* its channel; no state without a successor other than "all done".         *)
(*                                                                         *)
(* Named deviations:                                                       *)
(*   Bug_HoldRequestAcrossMerge  the worker keeps reqLock from the first    *)
(*                               short section to the end of the task       *)
(*   Bug_NotifyOne               the worker wakes one waiter only           *)
(*   Bug_NoRescheduleAtEnd       the worker does not look for further work  *)
(*                               (a request registered while it was busy    *)
(*                               is never served)                           *)
(* (A fifth candidate - the worker leaves the served request in the slot -   *)
(* was dropped after the self-test: the corresponding code change is benign  *)
(* (the caller clears the slot itself when it leaves, the worker merely      *)
(* serves the finished request again), and the model's counterexample was    *)
(* an artifact of weak fairness on an intermittently free mutex.)            *)
(***************************************************************************)
EXTENDS Naturals, FiniteSets, TLC

CONSTANTS Callers, Work, Rotations,
          Bug_HoldRequestAcrossMerge, Bug_NotifyOne, Bug_NoRescheduleAtEnd

BG == "bg"
WR == "wr"
None == "none"
Procs == Callers \cup {BG, WR}

VARIABLES
  dbLock, reqLock, slot, done, work, bgSched, chan, waiting, imm, rot, pc, cur, keepReq

vars == <<dbLock, reqLock, slot, done, work, bgSched, chan, waiting, imm, rot, pc, cur, keepReq>>

Init ==
  /\ dbLock = None /\ reqLock = [m \in Callers |-> None] /\ slot = None
  /\ done = [m \in Callers |-> FALSE] /\ work = [m \in Callers |-> Work]
  /\ bgSched = FALSE /\ chan = 0 /\ waiting = {} /\ imm = FALSE /\ rot = 0
  /\ pc = [p \in Procs |-> IF p = BG THEN "recv" ELSE "start"]
  /\ cur = None /\ keepReq = FALSE

Goto(p, l) == pc' = [pc EXCEPT ![p] = l]
Lock(p) == dbLock = None /\ dbLock' = p
Unlock(p) == dbLock = p /\ dbLock' = None

\* should_schedule_compaction + schedule_task, with dbLock held
NeedsWork == imm \/ slot # None
Schedule(sl, im) ==
  IF ~bgSched /\ (im \/ sl # None) THEN bgSched' = TRUE /\ chan' = chan + 1
  ELSE UNCHANGED <<bgSched, chan>>

NotifyAll == waiting' = {}
NotifyOne == IF waiting = {} THEN waiting' = {} ELSE \E p \in waiting : waiting' = waiting \ {p}
Notify == IF Bug_NotifyOne THEN NotifyOne ELSE NotifyAll

---------------------------------------------------------------------------
(* caller m: DB::force_level_compaction *)

CStart(m) ==
  /\ pc[m] = "start" /\ Lock(m) /\ Goto(m, "loop")
  /\ UNCHANGED <<reqLock, slot, done, work, bgSched, chan, waiting, imm, rot, cur, keepReq>>

\* one evaluation of the loop condition and body; `request.lock()` blocks while the worker has it
CLoop(m) ==
  /\ pc[m] = "loop" /\ dbLock = m /\ reqLock[m] = None
  /\ IF done[m]
     THEN /\ Goto(m, "exit") /\ UNCHANGED <<slot, bgSched, chan, waiting, dbLock>>
     ELSE IF slot = None
     THEN /\ slot' = m /\ Schedule(m, imm) /\ Goto(m, "loop") /\ UNCHANGED <<waiting, dbLock>>
     ELSE \* wait on the condition variable: releases the mutex
          /\ waiting' = waiting \cup {m} /\ dbLock' = None /\ Goto(m, "parked")
          /\ UNCHANGED <<slot, bgSched, chan>>
  /\ UNCHANGED <<reqLock, done, work, imm, rot, cur, keepReq>>

CWake(m) ==
  /\ pc[m] = "parked" /\ m \notin waiting /\ Lock(m) /\ Goto(m, "loop")
  /\ UNCHANGED <<reqLock, slot, done, work, bgSched, chan, waiting, imm, rot, cur, keepReq>>

CExit(m) ==
  /\ pc[m] = "exit" /\ dbLock = m
  /\ slot' = IF slot = m THEN None ELSE slot
  /\ dbLock' = None /\ Goto(m, "ret")
  /\ UNCHANGED <<reqLock, done, work, bgSched, chan, waiting, imm, rot, cur, keepReq>>

---------------------------------------------------------------------------
(* a writer that fills the memtable: make_room_for_write rotates when no immutable memtable is *)
(* pending, otherwise waits for the flush *)

WRotate ==
  /\ pc[WR] = "start" /\ rot < Rotations /\ Lock(WR) /\ Goto(WR, "room")
  /\ UNCHANGED <<reqLock, slot, done, work, bgSched, chan, waiting, imm, rot, cur, keepReq>>

WRoom ==
  /\ pc[WR] = "room" /\ dbLock = WR
  /\ IF imm
     THEN /\ waiting' = waiting \cup {WR} /\ dbLock' = None /\ Goto(WR, "parked")
          /\ UNCHANGED <<imm, rot, bgSched, chan>>
     ELSE /\ imm' = TRUE /\ rot' = rot + 1 /\ Schedule(slot, TRUE)
          /\ dbLock' = None /\ Goto(WR, "start") /\ UNCHANGED waiting
  /\ UNCHANGED <<reqLock, slot, done, work, cur, keepReq>>

WWake ==
  /\ pc[WR] = "parked" /\ WR \notin waiting /\ Lock(WR) /\ Goto(WR, "room")
  /\ UNCHANGED <<reqLock, slot, done, work, bgSched, chan, waiting, imm, rot, cur, keepReq>>

---------------------------------------------------------------------------
(* the worker *)

BRecv ==
  /\ pc[BG] = "recv" /\ chan > 0 /\ chan' = chan - 1 /\ Lock(BG) /\ Goto(BG, "begin")
  /\ UNCHANGED <<reqLock, slot, done, work, bgSched, waiting, imm, rot, cur, keepReq>>

\* coordinate_compaction: a pending immutable memtable first (and nothing else in this task)
BBegin ==
  /\ pc[BG] = "begin" /\ dbLock = BG
  /\ IF imm
     THEN /\ imm' = FALSE /\ Goto(BG, "end") /\ UNCHANGED cur
     ELSE IF slot # None
     THEN /\ cur' = slot /\ Goto(BG, "req1") /\ UNCHANGED imm
     ELSE /\ Goto(BG, "end") /\ UNCHANGED <<imm, cur>>
  /\ UNCHANGED <<dbLock, reqLock, slot, done, work, bgSched, chan, waiting, rot, keepReq>>

\* first short section on the request: read level and range; second: done = nothing to compact
BReq1 ==
  /\ pc[BG] = "req1" /\ dbLock = BG /\ (reqLock[cur] = None \/ reqLock[cur] = BG)
  /\ done' = [done EXCEPT ![cur] = (work[cur] = 0)]
  /\ IF Bug_HoldRequestAcrossMerge
     THEN reqLock' = [reqLock EXCEPT ![cur] = BG] /\ keepReq' = TRUE
     ELSE UNCHANGED <<reqLock, keepReq>>
  /\ IF work[cur] = 0 THEN Goto(BG, "fin") /\ UNCHANGED dbLock
     ELSE Goto(BG, "merge") /\ dbLock' = None
  /\ UNCHANGED <<slot, work, bgSched, chan, waiting, imm, rot, cur>>

\* compact_tables, unlocked: a rotated memtable is flushed from inside the loop
BMergeFlush ==
  /\ pc[BG] = "merge" /\ imm /\ Lock(BG) /\ Goto(BG, "mflush")
  /\ UNCHANGED <<reqLock, slot, done, work, bgSched, chan, waiting, imm, rot, cur, keepReq>>

BMergeFlushDone ==
  /\ pc[BG] = "mflush" /\ dbLock = BG
  /\ imm' = FALSE /\ NotifyAll /\ dbLock' = None /\ Goto(BG, "merge")
  /\ UNCHANGED <<reqLock, slot, done, work, bgSched, chan, rot, cur, keepReq>>

\* the merge is finished: take the mutex again, install the result
BInstall ==
  /\ pc[BG] = "merge" /\ Lock(BG)
  /\ work' = [work EXCEPT ![cur] = work[cur] - 1]
  /\ Goto(BG, "fin")
  /\ UNCHANGED <<reqLock, slot, done, bgSched, chan, waiting, imm, rot, cur, keepReq>>

\* third short section: take the request out of the slot, advance its begin key
BFin ==
  /\ pc[BG] = "fin" /\ dbLock = BG /\ (reqLock[cur] = None \/ reqLock[cur] = BG)
  /\ slot' = None
  /\ reqLock' = [reqLock EXCEPT ![cur] = None] /\ keepReq' = FALSE
  /\ Goto(BG, "end")
  /\ UNCHANGED <<dbLock, done, work, bgSched, chan, waiting, imm, rot, cur>>

\* compaction_task tail: clear the flag, wake everybody, look for more work, release the mutex
BEnd ==
  /\ pc[BG] = "end" /\ dbLock = BG
  /\ Notify
  /\ IF ~Bug_NoRescheduleAtEnd /\ NeedsWork
     THEN bgSched' = TRUE /\ chan' = chan + 1
     ELSE bgSched' = FALSE /\ UNCHANGED chan
  /\ dbLock' = None /\ cur' = None /\ Goto(BG, "recv")
  /\ UNCHANGED <<reqLock, slot, done, work, imm, rot, keepReq>>

AllDone == (\A m \in Callers : pc[m] = "ret") /\ pc[BG] = "recv" /\ chan = 0
           /\ pc[WR] = "start" /\ rot = Rotations
Finished == AllDone /\ UNCHANGED vars

Next ==
  \/ \E m \in Callers : CStart(m) \/ CLoop(m) \/ CWake(m) \/ CExit(m)
  \/ WRotate \/ WRoom \/ WWake
  \/ BRecv \/ BBegin \/ BReq1 \/ BMergeFlush \/ BMergeFlushDone \/ BInstall \/ BFin \/ BEnd
  \/ Finished

Spec == Init /\ [][Next]_vars
FairSpec == Spec /\ WF_vars(\E m \in Callers : CStart(m) \/ CLoop(m) \/ CWake(m) \/ CExit(m))
                 /\ (\A m \in Callers : WF_vars(CStart(m) \/ CLoop(m) \/ CWake(m) \/ CExit(m)))
                 /\ WF_vars(WRotate \/ WRoom \/ WWake)
                 /\ WF_vars(BRecv \/ BBegin \/ BReq1 \/ BMergeFlush \/ BMergeFlushDone
                            \/ BInstall \/ BFin \/ BEnd)

---------------------------------------------------------------------------
LockOrder == \A m \in Callers : reqLock[m] = BG => (dbLock = BG \/ keepReq)
\* the flag says a task is queued or running
SchedSane == bgSched <=> (chan > 0 \/ pc[BG] # "recv")
\* nobody sleeps while nothing will ever wake them: a parked thread implies pending work
NoLostWaiter == (waiting # {}) => (bgSched \/ dbLock # None)
EveryCallReturns == <>(\A m \in Callers : pc[m] = "ret")
WorkerComesBack == []<>(pc[BG] = "recv")
=============================================================================
