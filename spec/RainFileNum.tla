---------------------------- MODULE RainFileNum ----------------------------
(* File-number allocation across rotation, flush, compaction, crash and recovery.

   Anchors: versioning/version_set.rs get_new_file_number / mark_file_number_used /
   reuse_file_number, recover (curr_file_number := the manifest's value, then one number for the
   manifest), log_and_apply (persists curr_file_number and the log number), db.rs make_room_for_write
   (new WAL number; given back when the file cannot be created), db.rs recovery (every WAL found in
   the directory with a number >= the manifest's log number is marked used, replayed, flushed to a
   table unless the last one is reused; then a new WAL unless reused; then log_and_apply), and
   compaction/state.rs (a number per output table).

   The counter lives in memory; what survives a crash is the value in the newest manifest record.
   Files are created between two manifest records (a rotated WAL, a table under construction), so
   after a crash the directory holds numbers ABOVE the persisted counter.  The design is right iff
   no create() ever lands on a file that is still needed (C02: a WAL with acknowledged writes not
   yet in a table of the persisted version; C01/C10: a table of the persisted version; the manifest
   CURRENT names).  create() truncates: landing on such a file loses its contents.

   Deliberately as in the code: orphan TABLES above the persisted counter are NOT marked used; a
   later table may reuse such a number (the orphan is overwritten or swept, never needed). *)
EXTENDS Naturals, FiniteSets

CONSTANTS MaxNum,              \* bound on numbers handed out (model bound only)
          ReuseLogs,           \* DbOptions.reuse_log_files
          Bug_NoMarkWalUsed,   \* recovery forgets mark_file_number_used for the WALs it finds
          Bug_InstallPersistsStale, \* recovery's manifest record carries the counter read at its start
          Bug_GiveBackAlways   \* reuse_file_number without the "is it the last one" test, called late

VARIABLES up, phase, counter, startCounter, pNext, pLog, wals, unflushed, tables, vtables,
          manifests, curMan, newMan, curWal, immWal, pending, pendingIn, rtab, clobbered

vars == <<up, phase, counter, startCounter, pNext, pLog, wals, unflushed, tables, vtables,
          manifests, curMan, newMan, curWal, immWal, pending, pendingIn, rtab, clobbered>>

Max(S) == CHOOSE x \in S : \A y \in S : y <= x

\* is the file (kind, n) needed right now?  (judged on durable state only)
NeededWal(n)   == n \in wals /\ n >= pLog /\ n \in unflushed
NeededTable(n) == n \in vtables
NeededMan(n)   == n = curMan /\ n \in manifests
Hit(kind, n) == IF \/ kind = "wal" /\ NeededWal(n)
                   \/ kind = "table" /\ NeededTable(n)
                   \/ kind = "man" /\ NeededMan(n)
                THEN {<<kind, n>>} ELSE {}

Init == /\ up = TRUE /\ phase = "open"
        /\ counter = 2 /\ startCounter = 0 /\ pNext = 2 /\ pLog = 2
        /\ wals = {2} /\ unflushed = {} /\ tables = {} /\ vtables = {}
        /\ manifests = {1} /\ curMan = 1 /\ newMan = 0
        /\ curWal = 2 /\ immWal = 0 /\ pending = 0 /\ pendingIn = {} /\ rtab = 0
        /\ clobbered = {}

Room == counter < MaxNum

\* an acknowledged write lands in the current WAL
Put == /\ up /\ unflushed' = unflushed \cup {curWal}
       /\ UNCHANGED <<up, phase, counter, startCounter, pNext, pLog, wals, tables, vtables, manifests,
                      curMan, newMan, curWal, immWal, pending, pendingIn, rtab, clobbered>>

\* make_room_for_write: new WAL number, file created, memtable rotated (no manifest record)
Rotate == /\ up /\ immWal = 0 /\ Room
          /\ LET n == counter + 1 IN
               /\ counter' = n
               /\ clobbered' = clobbered \cup Hit("wal", n)
               /\ wals' = wals \cup {n}
               /\ unflushed' = IF Hit("wal", n) # {} THEN unflushed \ {n} ELSE unflushed
               /\ curWal' = n /\ immWal' = curWal
          /\ UNCHANGED <<up, phase, startCounter, pNext, pLog, tables, vtables, manifests, curMan,
                         newMan, pending, pendingIn, rtab>>

\* the WAL file cannot be created: the number is given back (same critical section)
RotateFails == /\ up /\ immWal = 0 /\ Room
               /\ UNCHANGED vars

\* flush of the immutable memtable / compaction of some tables: a number, then the file
StartTable(inputs) ==
    /\ up /\ pending = 0 /\ Room
    /\ \/ inputs = {} /\ immWal # 0
       \/ inputs # {} /\ inputs \subseteq vtables
    /\ LET t == counter + 1 IN
         /\ counter' = t /\ pending' = t /\ pendingIn' = inputs
         /\ clobbered' = clobbered \cup Hit("table", t)
         /\ tables' = tables \cup {t}
    /\ UNCHANGED <<up, phase, startCounter, pNext, pLog, wals, unflushed, vtables, manifests, curMan,
                   newMan, curWal, immWal, rtab>>

\* the output could not be finished; with the deviation the number is given back although other
\* numbers may have been handed out since
TableFails ==
    /\ up /\ pending # 0
    /\ tables' = tables \ {pending}
    /\ counter' = IF Bug_GiveBackAlways THEN counter - 1 ELSE counter
    /\ pending' = 0 /\ pendingIn' = {}
    /\ UNCHANGED <<up, phase, startCounter, pNext, pLog, wals, unflushed, vtables, manifests, curMan,
                   newMan, curWal, immWal, rtab, clobbered>>

\* log_and_apply + deletion pass
Install ==
    /\ up /\ pending # 0
    /\ pNext' = counter
    /\ vtables' = (vtables \ pendingIn) \cup {pending}
    /\ IF pendingIn = {}
         THEN /\ pLog' = curWal /\ immWal' = 0
              /\ unflushed' = {w \in unflushed : w >= curWal}
              /\ wals' = {w \in wals : w >= curWal}
         ELSE /\ UNCHANGED <<pLog, immWal, unflushed>>
              /\ wals' = {w \in wals : w >= pLog}
    /\ tables' = vtables'
    /\ pending' = 0 /\ pendingIn' = {}
    /\ UNCHANGED <<up, phase, counter, startCounter, manifests, curMan, newMan, curWal, rtab, clobbered>>

\* power loss or plain close (close flushes nothing): volatile state is gone
Crash == /\ phase' = "down" /\ up' = FALSE
         /\ counter' = 0 /\ startCounter' = 0 /\ curWal' = 0 /\ immWal' = 0 /\ pending' = 0
         /\ pendingIn' = {} /\ rtab' = 0 /\ newMan' = 0
         /\ UNCHANGED <<pNext, pLog, wals, unflushed, tables, vtables, manifests, curMan, clobbered>>

\* VersionSet::recover: the counter from the manifest, one number for the (possibly unused) new manifest
RecoverManifest ==
    /\ phase = "down" /\ pNext < MaxNum
    /\ counter' = pNext + 1 /\ startCounter' = pNext + 1
    /\ newMan' = IF ReuseLogs THEN curMan ELSE pNext + 1
    /\ phase' = "wals"
    /\ UNCHANGED <<up, pNext, pLog, wals, unflushed, tables, vtables, manifests, curMan, curWal,
                   immWal, pending, pendingIn, rtab, clobbered>>

\* DB::recover: WALs >= log number are marked used and replayed; what they hold goes to a table
\* unless the last WAL is reused
RecoverWals ==
    /\ phase = "wals"
    /\ LET live == {w \in wals : w >= pLog}
           c1 == IF live = {} \/ Bug_NoMarkWalUsed THEN counter
                 ELSE IF Max(live) > counter THEN Max(live) ELSE counter
           reuse == ReuseLogs /\ live # {}
           needTab == ~reuse /\ (live \cap unflushed) # {}
       IN /\ c1 < MaxNum
          /\ IF needTab
               THEN /\ rtab' = c1 + 1 /\ counter' = c1 + 1
                    /\ clobbered' = clobbered \cup Hit("table", c1 + 1)
                    /\ tables' = tables \cup {c1 + 1}
               ELSE /\ rtab' = 0 /\ counter' = c1 /\ UNCHANGED <<clobbered, tables>>
          /\ curWal' = IF reuse THEN Max(live) ELSE 0
    /\ phase' = "newwal"
    /\ UNCHANGED <<up, startCounter, pNext, pLog, wals, unflushed, vtables, manifests, curMan,
                   newMan, immWal, pending, pendingIn>>

RecoverNewWal ==
    /\ phase = "newwal"
    /\ IF curWal # 0
         THEN UNCHANGED <<counter, curWal, wals, unflushed, clobbered>>
         ELSE /\ Room
              /\ LET n == counter + 1 IN
                   /\ counter' = n /\ curWal' = n
                   /\ clobbered' = clobbered \cup Hit("wal", n)
                   /\ unflushed' = IF Hit("wal", n) # {} THEN unflushed \ {n} ELSE unflushed
                   /\ wals' = wals \cup {n}
    /\ phase' = "install"
    /\ UNCHANGED <<up, startCounter, pNext, pLog, tables, vtables, manifests, curMan, newMan,
                   immWal, pending, pendingIn, rtab>>

RecoverInstall ==
    /\ phase = "install"
    /\ pNext' = IF Bug_InstallPersistsStale THEN startCounter ELSE counter
    /\ pLog' = curWal
    /\ vtables' = IF rtab # 0 THEN vtables \cup {rtab} ELSE vtables
    /\ unflushed' = {w \in unflushed : w >= curWal}
    /\ clobbered' = IF newMan # curMan THEN clobbered \cup Hit("man", newMan) ELSE clobbered
    /\ curMan' = newMan /\ manifests' = {newMan}
    /\ wals' = {w \in wals : w >= curWal}
    /\ tables' = vtables'
    /\ up' = TRUE /\ phase' = "open" /\ rtab' = 0 /\ newMan' = 0
    /\ UNCHANGED <<counter, startCounter, curWal, immWal, pending, pendingIn>>

Next == \/ Put \/ Rotate \/ RotateFails \/ TableFails \/ Install \/ Crash
        \/ \E inputs \in SUBSET vtables : StartTable(inputs)
        \/ RecoverManifest \/ RecoverWals \/ RecoverNewWal \/ RecoverInstall

Spec == Init /\ [][Next]_vars

TypeOK == /\ up \in BOOLEAN /\ phase \in {"open", "down", "wals", "newwal", "install"}
          /\ counter \in 0..MaxNum /\ pNext \in 0..MaxNum /\ pLog \in 0..MaxNum
          /\ wals \subseteq 1..MaxNum /\ tables \subseteq 1..MaxNum /\ vtables \subseteq tables \cup vtables
          /\ unflushed \subseteq 1..MaxNum

\* C02 / C01 / C10: no create() ever truncated a file that was still needed
NoClobber == clobbered = {}

\* while open, the in-memory counter dominates every number that matters on disk
CounterCovers == up => /\ \A w \in wals : w >= pLog => w <= counter
                       /\ \A t \in vtables : t <= counter
                       /\ curMan <= counter

\* the persisted counter dominates everything the persisted state refers to
PersistedCovers == /\ \A t \in vtables : t <= pNext
                   /\ pLog <= pNext
                   /\ (phase = "open" => curMan <= pNext)

\* nothing needed is missing from the directory (the deletion passes above are the code's)
NeededPresent == /\ vtables \subseteq tables
                 /\ \A w \in unflushed : w >= pLog => w \in wals
                 /\ curMan \in manifests
=============================================================================
