SPECIFICATION Spec
CONSTANTS
  Threads = {1, 2}
  Files = {1, 2}
  Offsets = {0, 1}
  MaxOpens = 3
  Bug_NewIdNotAtomic = FALSE
  Bug_KeyWithoutId = FALSE
INVARIANTS ReadsRightBlock CacheCoherent UniqueIds
CHECK_DEADLOCK FALSE
