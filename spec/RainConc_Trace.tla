--------------------------- MODULE RainConc_Trace ---------------------------
(***************************************************************************)
(* Trace validation of CONCURRENT executions of the real raindb (drivers    *)
(* `sched` and `live`).  Client threads log Call / Ret events around every  *)
(* API call; hooks inside raindb log Commit (at sequence publication, under *)
(* the database mutex), Snapshot and IterNew (at capture, under the mutex). *)
(* All events pass through one sink whose order is consistent with real     *)
(* time, so:                                                               *)
(*   - the write order is the order of Commit events (= sequence numbers),  *)
(*   - a call that was logged after a Commit started after its publication. *)
(*                                                                         *)
(* C05  every get returns AbstractAt(hist, k, s) for some s between the      *)
(*      published sequence at its Call and at its Ret; per thread and key    *)
(*      the chosen s never decreases; every acknowledged write is in hist    *)
(*      exactly once and its caller got the result of its own commit.        *)
(* C06  every captured sequence (snapshot, iterator, get) is the end of a    *)
(*      group commit and a scan at it equals the abstract store there.       *)
(* C09  Hang / Panic events.                                                *)
(***************************************************************************)
EXTENDS RainTypes, Json, IOUtils, SequencesExt, TLC

Rec == ndJsonDeserialize(IOEnv.TRACE)

VARIABLES
  l, viol, runInfo, nk,
  hist,      \* hist[s] = <<k, o, v>>
  seq,       \* published sequence
  ends,      \* sequence numbers at which a commit (group) ends
  pend,      \* thread -> pending call record
  lastLo,    \* <<thread, key>> -> smallest sequence that explains the thread's previous read
  snapOf,    \* thread -> sequence of its most recent snapshot
  iterOf,    \* thread -> sequence captured by its most recent iterator
  acks,      \* value ids of acknowledged puts (exactly-once accounting)
  ids        \* block-cache partition ids drawn by Table::open so far (RainCache: UniqueIds)

vars == <<l, viol, runInfo, nk, hist, seq, ends, pend, lastLo, snapOf, iterOf, acks, ids>>

Ev == Rec[l]
IsEv(n) == l <= Len(Rec) /\ Rec[l].e = n
Keys == 1..nk

V(props, check, keys, at) ==
  <<[props |-> props, check |-> check, line |-> l, after |-> "", detail |-> [keys |-> keys, at |-> at]]>>

Fresh ==
  /\ hist' = <<>> /\ seq' = 0 /\ ends' = {0} /\ pend' = <<>> /\ lastLo' = <<>>
  /\ snapOf' = <<>> /\ iterOf' = <<>> /\ acks' = {} /\ ids' = {}

TraceInit ==
  /\ l = 1 /\ viol = <<>> /\ runInfo = [run |-> 0, seed |-> 0, tag |-> "", faults |-> FALSE] /\ nk = 0
  /\ hist = <<>> /\ seq = 0 /\ ends = {0} /\ pend = <<>> /\ lastLo = <<>>
  /\ snapOf = <<>> /\ iterOf = <<>> /\ acks = {} /\ ids = {}

Report == PrintT(<<"@@RUN", ToJson([run |-> runInfo.run, seed |-> runInfo.seed, tag |-> runInfo.tag,
                                    lines |-> l, viol |-> viol])>>)

TReset ==
  /\ IsEv("Reset")
  /\ IF runInfo.run = 0 THEN TRUE ELSE Report
  /\ Fresh
  /\ l' = l + 1 /\ viol' = <<>> /\ nk' = Ev.nk
  \* faults: the driver injects a filesystem failure in this run (failing writes are expected;
  \* what is judged is that everybody gets the result of his own commit)
  /\ runInfo' = [run |-> Ev.run, seed |-> Ev.seed, tag |-> Ev.tag,
                 faults |-> IF "faults" \in DOMAIN Ev THEN Ev.faults ELSE FALSE]

TEnd ==
  /\ IsEv("End")
  /\ Report /\ PrintT(<<"@@END", l>>)
  /\ l' = l + 1
  /\ UNCHANGED <<viol, runInfo, nk, hist, seq, ends, pend, lastLo, snapOf, iterOf, acks, ids>>

Has(f, x) == x \in DOMAIN f
Put(f, x, y) == [z \in DOMAIN f \cup {x} |-> IF z = x THEN y ELSE f[z]]
Del(f, x) == [z \in DOMAIN f \ {x} |-> f[z]]

---------------------------------------------------------------------------
TCall ==
  /\ IsEv("Call")
  /\ pend' = Put(pend, Ev.t, [op |-> Ev.op, k |-> Ev.k, ops |-> Ev.ops, callSeq |-> seq,
                              committed |-> FALSE, cok |-> TRUE])
  /\ l' = l + 1
  /\ UNCHANGED <<viol, runInfo, nk, hist, seq, ends, lastLo, snapOf, iterOf, acks, ids>>

\* sequence publication of one group commit
PutVals(ops) == {ops[i][3] : i \in {j \in 1..Len(ops) : ops[j][2] = 1}}

TCommit ==
  /\ IsEv("Commit")
  /\ LET n == Len(Ev.ops)
         newv == {Ev.ops[i].val : i \in {j \in 1..n : Ev.ops[j].op = 1}}
         dup == newv \cap {hist[i][3] : i \in {j \in 1..Len(hist) : hist[j][2] = 1}}
         v1 == IF Ev.first # Len(hist) + 1
               THEN V(<<"C05">>, "SequenceNotConsecutive", <<Ev.first, Len(hist)>>, 0) ELSE <<>>
         v2 == IF dup # {} THEN V(<<"C05">>, "WriteAppliedTwice", SetToSeq(dup), 0) ELSE <<>>
         \* a commit (= what becomes visible at once) holds some but not all operations of a
         \* client's batch
         split == {t \in DOMAIN pend :
                     /\ pend[t].op \in {"put", "del", "batch"} /\ ~pend[t].committed
                     /\ PutVals(pend[t].ops) \cap newv # {}
                     /\ ~(PutVals(pend[t].ops) \subseteq newv)}
         v3 == IF split # {} THEN V(<<"C06", "C05">>, "CommitSplitsBatch", SetToSeq(split), 0)
               ELSE <<>> IN
     /\ hist' = IF Ev.ok
                THEN hist \o [i \in 1..n |-> <<Ev.ops[i].key, Ev.ops[i].op,
                                              IF Ev.ops[i].op = 1 THEN Ev.ops[i].val ELSE 0>>]
                ELSE hist \o [i \in 1..n |-> <<0, 0, 0>>]
     /\ seq' = Len(hist) + n
     /\ ends' = ends \cup {Len(hist) + n}
     \* writers whose batch is part of this commit
     /\ pend' = [t \in DOMAIN pend |->
                   IF pend[t].op \in {"put", "del", "batch"} /\ ~pend[t].committed
                      /\ PutVals(pend[t].ops) # {} /\ PutVals(pend[t].ops) \subseteq newv
                   THEN [pend[t] EXCEPT !.committed = TRUE, !.cok = Ev.ok] ELSE pend[t]]
     /\ viol' = ((viol \o v1) \o v2) \o v3
  /\ l' = l + 1
  /\ UNCHANGED <<runInfo, nk, lastLo, snapOf, iterOf, acks, ids>>

Feasible(k, lo, hi, res) == {s \in lo..hi : AbstractAt(hist, k, s) = res}

LoOf(t, k) == IF Has(lastLo, <<t, k>>) THEN lastLo[<<t, k>>] ELSE 0

TRet ==
  /\ IsEv("Ret")
  /\ Has(pend, Ev.t)
  /\ LET p == pend[Ev.t] IN
     CASE p.op = "get" ->
            LET S == Feasible(p.k, p.callSeq, seq, Ev.res)
                S2 == {s \in S : s >= LoOf(Ev.t, p.k)} IN
            /\ viol' = viol \o
                 (IF Ev.res = -1
                  THEN (IF runInfo.faults THEN <<>> ELSE V(<<"C05", "C09">>, "GetFailed", <<p.k>>, 0))
                  ELSE IF S = {} THEN V(<<"C05">>, "GetNotLinearizable", <<p.k, Ev.res>>, seq)
                  ELSE IF S2 = {} THEN V(<<"C05">>, "ReadWentBackwards", <<p.k, Ev.res>>, seq)
                  ELSE <<>>)
            /\ lastLo' = IF S2 # {} THEN Put(lastLo, <<Ev.t, p.k>>, SetMin(S2)) ELSE lastLo
            /\ UNCHANGED acks
       [] p.op = "snapget" ->
            LET s == IF Has(snapOf, Ev.t) THEN snapOf[Ev.t] ELSE 0 IN
            /\ viol' = viol \o
                 (IF Ev.res # AbstractAt(hist, p.k, s)
                  THEN V(<<"C05", "C03">>, "SnapshotGetWrong", <<p.k, Ev.res>>, s) ELSE <<>>)
            /\ UNCHANGED <<lastLo, acks>>
       [] p.op \in {"scan", "snapscan"} ->
            LET s == IF Has(iterOf, Ev.t) THEN iterOf[Ev.t] ELSE 0 IN
            /\ viol' = viol \o
                 (IF ~Ev.fwdok \/ Ev.fwd # Visible(hist, s, nk)
                  THEN V(<<"C06", "C05">>, "ScanNotAtomic", <<>>, s) ELSE <<>>)
            /\ UNCHANGED <<lastLo, acks>>
       [] p.op \in {"put", "del", "batch"} ->
            /\ viol' = viol \o
                 ((IF Ev.ok /\ ~p.committed
                   THEN V(IF runInfo.faults THEN <<"C05", "C08">> ELSE <<"C05">>, "AckWithoutCommit",
                          SetToSeq(PutVals(p.ops)), 0) ELSE <<>>)
                  \o (IF p.committed /\ p.cok # Ev.ok
                      THEN V(IF runInfo.faults THEN <<"C05", "C08">> ELSE <<"C05">>, "NotOwnResult",
                             SetToSeq(PutVals(p.ops)), 0) ELSE <<>>)
                  \o (IF ~Ev.ok /\ ~runInfo.faults
                      THEN V(<<"C05", "C09">>, "WriteFailed", <<>>, 0) ELSE <<>>))
            /\ acks' = acks \cup (IF Ev.ok THEN PutVals(p.ops) ELSE {})
            /\ UNCHANGED lastLo
       [] OTHER -> UNCHANGED <<viol, lastLo, acks>>
  /\ pend' = Del(pend, Ev.t)
  /\ l' = l + 1
  /\ UNCHANGED <<runInfo, nk, hist, seq, ends, snapOf, iterOf, ids>>

\* captures under the mutex
TSnapshot ==
  /\ IsEv("Snapshot")
  /\ snapOf' = Put(snapOf, Ev.t, Ev.seq)
  /\ viol' = viol \o
       ((IF Ev.seq \notin ends THEN V(<<"C06">>, "SnapshotInsideGroup", <<Ev.seq>>, seq) ELSE <<>>)
        \o (IF Ev.seq # seq THEN V(<<"C05">>, "SnapshotNotAtPublished", <<Ev.seq>>, seq) ELSE <<>>))
  /\ l' = l + 1
  /\ UNCHANGED <<runInfo, nk, hist, seq, ends, pend, lastLo, iterOf, acks, ids>>

TIterNew ==
  /\ IsEv("IterNew")
  /\ iterOf' = Put(iterOf, Ev.t, Ev.seq)
  /\ viol' = viol \o
       (IF Ev.seq \notin ends THEN V(<<"C06">>, "IteratorInsideGroup", <<Ev.seq>>, seq) ELSE <<>>)
  /\ l' = l + 1
  /\ UNCHANGED <<runInfo, nk, hist, seq, ends, pend, lastLo, snapOf, acks, ids>>

TGetCapture ==
  /\ IsEv("GetCapture")
  /\ viol' = viol \o
       (IF Ev.seq \notin ends THEN V(<<"C06">>, "GetInsideGroup", <<Ev.seq>>, seq) ELSE <<>>)
  /\ l' = l + 1
  /\ UNCHANGED <<runInfo, nk, hist, seq, ends, pend, lastLo, snapOf, iterOf, acks, ids>>

\* Table::open drew a partition id for its blocks in the block cache: never one drawn before
\* (two tables with the same id serve each other's blocks)
TTableOpen ==
  /\ IsEv("TableOpen")
  /\ viol' = viol \o
       (IF Ev.id \in ids THEN V(<<"C05">>, "PartitionIdReused", <<Ev.id>>, 0) ELSE <<>>)
  /\ ids' = ids \cup {Ev.id}
  /\ l' = l + 1
  /\ UNCHANGED <<runInfo, nk, hist, seq, ends, pend, lastLo, snapOf, iterOf, acks>>

\* the handle is gone; the drivers open with fresh DbOptions, i.e. a fresh block cache
TClosed ==
  /\ IsEv("Closed")
  /\ ids' = {}
  /\ l' = l + 1
  /\ UNCHANGED <<viol, runInfo, nk, hist, seq, ends, pend, lastLo, snapOf, iterOf, acks>>

THang ==
  /\ IsEv("Hang")
  /\ viol' = viol \o V(<<"C09">>, "Hang", <<>>, 0)
  /\ l' = l + 1
  /\ UNCHANGED <<runInfo, nk, hist, seq, ends, pend, lastLo, snapOf, iterOf, acks, ids>>

TPanic ==
  /\ IsEv("Panic")
  /\ viol' = viol \o V(<<"C09">>, "Panic", <<>>, 0)
  /\ l' = l + 1
  /\ UNCHANGED <<runInfo, nk, hist, seq, ends, pend, lastLo, snapOf, iterOf, acks, ids>>

\* C11 at a point where nobody reads (no call pending, no snapshot or iterator alive, background
\* work done, one more deletion pass made): one version is linked - a read view that was not
\* given back would keep its version, and that version's files, for good - and the tables on disk
\* are those of the current version
TQuiet ==
  /\ IsEv("Quiet")
  /\ LET cur == {Ev.cur[i] : i \in 1..Len(Ev.cur)}
         tabs == {Ev.tables[i] : i \in 1..Len(Ev.tables)} IN
     viol' = viol \o
       ((IF Ev.live # 1 THEN V(<<"C11">>, "VersionLeak", <<Ev.live>>, 0) ELSE <<>>)
        \o (IF ~Ev.bad /\ tabs # cur
            THEN V(<<"C11">>, "TablesNotExact", SetToSeq((tabs \ cur) \cup (cur \ tabs)), 0) ELSE <<>>))
  /\ l' = l + 1
  /\ UNCHANGED <<runInfo, nk, hist, seq, ends, pend, lastLo, snapOf, iterOf, acks, ids>>

\* a call that never returned is reported by the driver as Hang; anything else is informational
Known == {"Reset", "End", "Call", "Commit", "Ret", "Snapshot", "IterNew", "GetCapture", "Hang",
          "Panic", "TableOpen", "Closed", "Quiet"}

TOther ==
  /\ l <= Len(Rec) /\ Rec[l].e \notin Known
  /\ l' = l + 1
  /\ UNCHANGED <<viol, runInfo, nk, hist, seq, ends, pend, lastLo, snapOf, iterOf, acks, ids>>

TraceNext ==
  \/ TReset \/ TEnd \/ TCall \/ TCommit \/ TRet \/ TSnapshot \/ TIterNew \/ TGetCapture
  \/ THang \/ TPanic \/ TTableOpen \/ TClosed \/ TQuiet \/ TOther

TraceSpec == TraceInit /\ [][TraceNext]_vars

TraceAccepted ==
  LET d == TLCGet("stats").diameter IN
  IF d = Len(Rec) + 1 THEN TRUE
  ELSE Print(<<"@@REJECT", ToJson([matched |-> d - 1, total |-> Len(Rec),
                                   next |-> IF d <= Len(Rec) THEN Rec[d] ELSE Rec[Len(Rec)]])>>, FALSE)
=============================================================================
