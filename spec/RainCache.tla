----------------------------- MODULE RainCache -----------------------------
(***************************************************************************)
(* The two caches on the read path and what makes a cached block the right  *)
(* one (src/table_cache.rs TableCache::find_table, src/tables/table.rs      *)
(* Table::open / get_block_reader, src/utils/cache.rs LRUCache::new_id).    *)
(*                                                                         *)
(*  - the table cache maps a file number to an open table; a miss opens the *)
(*    file WITHOUT any lock held across the open, so several threads may    *)
(*    open (the same or different) files at the same time; the last insert  *)
(*    for a file number wins;                                               *)
(*  - every Table::open draws a fresh partition id from the block cache     *)
(*    (new_id, ONE critical section);                                       *)
(*  - the block cache maps <<partition id, block offset>> to block          *)
(*    contents; a table looks a block up under its own partition id and,    *)
(*    on a miss, reads the block from its file and inserts it;              *)
(*  - both caches evict at any time.                                        *)
(*                                                                         *)
(* Property (part of C01 / C05: a read returns the data of the file it      *)
(* looked in): every block a reader obtains for <<file, offset>> is the     *)
(* content of that block of that file.  It rests on partition ids being     *)
(* unique among all tables ever opened (UniqueIds).                         *)
(*                                                                         *)
(* Named deviations:                                                       *)
(*   Bug_NewIdNotAtomic   new_id reads the counter and writes it back in    *)
(*                        two critical sections                             *)
(*   Bug_KeyWithoutId     the block cache key is the offset alone           *)
(***************************************************************************)
EXTENDS Naturals, FiniteSets, TLC

CONSTANTS Threads, Files, Offsets, MaxOpens,
          Bug_NewIdNotAtomic, Bug_KeyWithoutId

VARIABLES
  lastId,     \* LRUCache.last_id_given of the block cache
  tcache,     \* file -> partition id of the cached table, 0 = not cached
  bcache,     \* set of <<key, content>>; key = <<id, offset>>
  pc, tgt, myid, tmp, got, opens

vars == <<lastId, tcache, bcache, pc, tgt, myid, tmp, got, opens>>

Content(f, o) == <<f, o>>
KeyOf(id, o) == IF Bug_KeyWithoutId THEN <<0, o>> ELSE <<id, o>>
Cached(key) == {e \in bcache : e[1] = key}

Init ==
  /\ lastId = 0 /\ tcache = [f \in Files |-> 0] /\ bcache = {}
  /\ pc = [t \in Threads |-> "idle"] /\ tgt = [t \in Threads |-> <<0, 0>>]
  /\ myid = [t \in Threads |-> 0] /\ tmp = [t \in Threads |-> 0]
  /\ got = [t \in Threads |-> <<>>] /\ opens = 0

\* a read of block o of file f begins: table-cache lookup
Start(t, f, o) ==
  /\ pc[t] = "idle"
  /\ tgt' = [tgt EXCEPT ![t] = <<f, o>>]
  /\ IF tcache[f] # 0
     THEN myid' = [myid EXCEPT ![t] = tcache[f]] /\ pc' = [pc EXCEPT ![t] = "block"]
          /\ UNCHANGED opens
     ELSE opens < MaxOpens /\ opens' = opens + 1
          /\ pc' = [pc EXCEPT ![t] = "newid"] /\ UNCHANGED myid
  /\ UNCHANGED <<lastId, tcache, bcache, tmp, got>>

\* Table::open: cache_partition_id = block_cache.new_id()
NewId(t) ==
  /\ pc[t] = "newid"
  /\ IF Bug_NewIdNotAtomic
     THEN /\ tmp' = [tmp EXCEPT ![t] = lastId + 1]
          /\ pc' = [pc EXCEPT ![t] = "newid2"] /\ UNCHANGED <<lastId, myid>>
     ELSE /\ lastId' = lastId + 1
          /\ myid' = [myid EXCEPT ![t] = lastId + 1]
          /\ pc' = [pc EXCEPT ![t] = "insert"] /\ UNCHANGED tmp
  /\ UNCHANGED <<tcache, bcache, tgt, got, opens>>

NewId2(t) ==
  /\ pc[t] = "newid2"
  /\ lastId' = tmp[t] /\ myid' = [myid EXCEPT ![t] = tmp[t]]
  /\ pc' = [pc EXCEPT ![t] = "insert"]
  /\ UNCHANGED <<tcache, bcache, tgt, tmp, got, opens>>

\* table_cache.insert(file_number, table): the last one wins
Insert(t) ==
  /\ pc[t] = "insert"
  /\ tcache' = [tcache EXCEPT ![tgt[t][1]] = myid[t]]
  /\ pc' = [pc EXCEPT ![t] = "block"]
  /\ UNCHANGED <<lastId, bcache, tgt, myid, tmp, got, opens>>

\* get_block_reader: block-cache lookup under the table's partition id, else read + insert
Block(t) ==
  /\ pc[t] = "block"
  /\ LET f == tgt[t][1]  o == tgt[t][2]  key == KeyOf(myid[t], o) IN
     IF Cached(key) # {}
     THEN /\ \E e \in Cached(key) : got' = [got EXCEPT ![t] = e[2]]
          /\ UNCHANGED bcache
     ELSE /\ got' = [got EXCEPT ![t] = Content(f, o)]
          /\ bcache' = bcache \cup {<<key, Content(f, o)>>}
  /\ pc' = [pc EXCEPT ![t] = "done"]
  /\ UNCHANGED <<lastId, tcache, tgt, myid, tmp, opens>>

Finish(t) ==
  /\ pc[t] = "done"
  /\ pc' = [pc EXCEPT ![t] = "idle"]
  /\ UNCHANGED <<lastId, tcache, bcache, tgt, myid, tmp, got, opens>>

EvictTable(f) ==
  /\ tcache[f] # 0 /\ tcache' = [tcache EXCEPT ![f] = 0]
  /\ UNCHANGED <<lastId, bcache, pc, tgt, myid, tmp, got, opens>>

EvictBlock(e) ==
  /\ e \in bcache /\ bcache' = bcache \ {e}
  /\ UNCHANGED <<lastId, tcache, pc, tgt, myid, tmp, got, opens>>

Next ==
  \/ \E t \in Threads : \E f \in Files, o \in Offsets : Start(t, f, o)
  \/ \E t \in Threads : NewId(t) \/ NewId2(t) \/ Insert(t) \/ Block(t) \/ Finish(t)
  \/ \E f \in Files : EvictTable(f)
  \/ \E e \in bcache : EvictBlock(e)

Spec == Init /\ [][Next]_vars

\* ---- properties
ReadsRightBlock ==
  \A t \in Threads : pc[t] = "done" => got[t] = Content(tgt[t][1], tgt[t][2])

\* every cached block sits under a key that identifies its file (generation) and offset
CacheCoherent ==
  \A e1, e2 \in bcache : e1[1] = e2[1] => e1[2] = e2[2]

\* two tables that are in use for different files never share a partition id
UniqueIds ==
  \A t1, t2 \in Threads :
    (pc[t1] \in {"insert", "block"} /\ pc[t2] \in {"insert", "block"} /\ tgt[t1][1] # tgt[t2][1])
      => myid[t1] # myid[t2]
=============================================================================
