SPECIFICATION Spec
CONSTANTS
  NK = 3
  MaxSeq = 6
  NL = 3
  MemCap = 4
  FileCap = 2
  MaxSnaps = 1
  MaxPins = 0
  MaxFiles = 10
  KeepExtra = FALSE
  Ops = {1}
  Bug_RangeMin = FALSE
  Bug_NoBoundary = FALSE
  Bug_DropTombNoBase = FALSE
  Bug_DropAboveSnapshot = FALSE
  Bug_FlushLevelUnsafe = FALSE
  Bug_DeletePending = FALSE
  Bug_DeletePinned = FALSE
  Bug_ImmDropEarly = FALSE
  Bug_FlushDeepDuringCompaction = FALSE
  Bug_ExpandKeepsParents = FALSE
  Bug_ExpandNoBoundary = FALSE
INVARIANTS ReadCorrect WellFormed NothingLiveDeleted SeqSane
CONSTRAINT MCBound MCScripted2
VIEW MCView
CHECK_DEADLOCK FALSE
