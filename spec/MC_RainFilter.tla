---------------------------- MODULE MC_RainFilter ----------------------------
EXTENDS RainFilter
\* the exact policy: no false positives (worst case for NoFalseNegative)
MCNoFalsePos == {}
\* a policy with some false positives (must not matter)
MCSomeFalsePos == {<<{1}, 2>>, <<{2}, 1>>}
=============================================================================
