---------------------------- MODULE RainIter_Gen ----------------------------
(***************************************************************************)
(* Behaviour generator for spec -> implementation replay of the ITERATOR    *)
(* model (C04).  RainIter with a history variable `trail`: the operation    *)
(* taken at every step together with what the model says the user sees      *)
(* afterwards, [op, t, valid, k, v].  TLC prints                            *)
(*    <<"@@ITER", ToJson([children, snap, trail])>>                        *)
(*  - exhaustively (MC_RainIter_gen.cfg): `trail` is not part of the VIEW,  *)
(*    so every DISTINCT state of the iterator stack (layout, snapshot,      *)
(*    positions of all child cursors, both direction flags, cached entry)   *)
(*    within MaxOps operations is printed once with a shortest behaviour    *)
(*    that reaches it - one test per reachable state of the model;          *)
(*  - in simulation mode (MC_RainIter_gensim.cfg): random behaviours over a *)
(*    larger universe of entries.                                           *)
(* The `iterfmt` driver builds every layout out of REAL child iterators     *)
(* (DB::verif_iterator_over: a memtable iterator, a table-file iterator, a  *)
(* concatenating level iterator over the run cut into several files) under  *)
(* the real MergingIterator and DatabaseIterator, applies the operations    *)
(* and compares validity, key and value after every one with the model.     *)
(***************************************************************************)
EXTENDS MC_RainIter, Json

VARIABLES trail, phase

Obs(op, t) ==
  trail' = Append(trail, [op |-> op, t |-> t, valid |-> valid',
                          k |-> IF valid' THEN Vis[apos'][1] ELSE 0,
                          v |-> IF valid' THEN Vis[apos'][2] ELSE 0])

GenInit == Init /\ trail = <<>> /\ phase = "ops"

GenNext ==
  \/ OpFirst /\ Obs("first", 0)
  \/ OpLast /\ Obs("last", 0)
  \/ \E t \in 1..(NK + 1) : OpSeek(t) /\ Obs("seek", t)
  \/ OpNext /\ Obs("next", 0)
  \/ OpPrev /\ Obs("prev", 0)

GenSpec == GenInit /\ [][GenNext /\ UNCHANGED phase]_<<vars, trail, phase>>

\* simulation mode: the number of layouts of the larger universe is far too large to enumerate as
\* initial states, so a behaviour first PLACES entries one by one into children of its choice and
\* then operates the cursor
RunSet(c) == {child[c][i] : i \in 1..Len(child[c])}
SimInit ==
  /\ child = [c \in Children |-> <<>>] /\ snap \in 0..MaxS
  /\ pos = [c \in Children |-> 0] /\ mdir = "F" /\ cur = 0
  /\ ddir = "F" /\ valid = FALSE /\ ckey = 0 /\ cval = 0
  /\ apos = 0 /\ nops = 0 /\ trail = <<>> /\ phase = "place"
Place(e, c) ==
  /\ phase = "place" /\ e \notin AllEntries
  /\ child' = [child EXCEPT ![c] = SortRun(RunSet(c) \cup {e})]
  /\ UNCHANGED <<snap, pos, mdir, cur, ddir, valid, ckey, cval, apos, nops, trail, phase>>
StartOps ==
  /\ phase = "place" /\ phase' = "ops"
  /\ UNCHANGED <<vars, trail>>
SimNext ==
  \/ \E e \in Entries, c \in Children : Place(e, c)
  \/ StartOps
  \/ phase = "ops" /\ GenNext /\ UNCHANGED phase
SimSpec == SimInit /\ [][SimNext]_<<vars, trail, phase>>

GenView == vars

Beh == [children |-> [c \in Children |-> child[c]], snap |-> snap, trail |-> trail]

\* exhaustive mode: once per distinct state (an invariant is evaluated once per distinct state)
EmitAll == (trail # <<>>) => PrintT(<<"@@ITER", ToJson(Beh)>>)
\* simulation mode: the behaviour when it has reached its full length
EmitAtDepth == (nops = MaxOps) => PrintT(<<"@@ITER", ToJson(Beh)>>)
=============================================================================
