SPECIFICATION RSpec
CONSTANTS
  NK = 2
  MaxSeq = 3
  NL = 3
  MemCap = 2
  FileCap = 2
  MaxSnaps = 0
  MaxPins = 0
  KeepExtra = FALSE
  Ops = {0, 1}
  MaxFiles = 7
  MaxReopens = 2
  Bug_RangeMin = FALSE
  Bug_NoBoundary = FALSE
  Bug_DropTombNoBase = FALSE
  Bug_DropAboveSnapshot = FALSE
  Bug_FlushLevelUnsafe = FALSE
  Bug_DeletePending = FALSE
  Bug_DeletePinned = FALSE
  Bug_ImmDropEarly = FALSE
  Bug_FlushDeepDuringCompaction = FALSE
  Bug_ExpandKeepsParents = FALSE
  Bug_ExpandNoBoundary = FALSE
  Bug_SnapshotSwapsBounds = FALSE
  Bug_SeqFromManifestOnly = FALSE
  Bug_ReplaySkipsOlderLogs = FALSE
  Bug_CounterNotRestored = FALSE
  Bug_CloseInstallsPartial = FALSE
  Bug_MoveRecordLosesDelete = FALSE
  Bug_OpenKeepsOldLogNumber = FALSE
INVARIANTS RReadCorrect RWellFormed RSeqSane ManifestMatches NumbersFresh
PROPERTIES NoDeadLogAfterPass RImplementsKV
CONSTRAINT RBound
VIEW RView
CHECK_DEADLOCK FALSE
