SPECIFICATION SimSpec
CONSTANTS
  Entries <- MCEntriesSim
  NK = 4
  NC = 4
  MaxS = 12
  MaxOps = 14
  Bug_NoReseekOnDirectionChange = FALSE
  Bug_TombstoneNotRemembered = FALSE
  Bug_PrevIgnoresSnapshot = FALSE
  Bug_PrevStopsAtOldestVersion = FALSE
INVARIANTS CursorOK EmitAtDepth
CHECK_DEADLOCK FALSE
