SPECIFICATION TSpec
CONSTANTS
  TNK = 2
  TMaxSeq = 3
  TMaxVer = 3
  TMaxLen = 4
  Bug_IndexMissMeansDeleted = FALSE
  Bug_SeekNoBlockAdvance = FALSE
  Bug_PrevStopsAtBlockStart = FALSE
  Bug_GetSkipsKeyCheck = FALSE
  Bug_SeparatorInsideKey = FALSE
INVARIANTS TableShape CursorRefines SeekCorrect IterationCorrect GetCorrect
VIEW TView
CHECK_DEADLOCK FALSE
