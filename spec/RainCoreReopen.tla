--------------------------- MODULE RainCoreReopen ---------------------------
(***************************************************************************)
(* RainCore extended with what is PERSISTED and with close / reopen:        *)
(*   man     the manifest.  On disk it is a sequence of version edits       *)
(*           (files added with level, number and RECORDED bounds; files     *)
(*           deleted; the WAL number from which logs are still needed; the  *)
(*           file-number counter and last sequence at the time of the       *)
(*           edit).  Recovery reads it only through its fold (VersionSet::  *)
(*           recover applies the edits in order), so the variable holds the *)
(*           fold: appending an edit = applying it (FoldEdit).              *)
(*   walEnts what every write-ahead log holds.                              *)
(* Every RainCore action that installs a version appends the corresponding  *)
(* edit; `Open` rebuilds the volatile state the way DB::open does: fold the *)
(* manifest (VersionSet::recover), replay the logs >= the recorded WAL      *)
(* number, then either reuse manifest + last WAL + memtable                 *)
(* (reuse_log_files) or write the replayed entries to a level-0 table and   *)
(* start a new manifest with a SNAPSHOT record of the current version.      *)
(*                                                                         *)
(* C01 / C10 across close and reopen: ReadCorrect, WellFormed and SeqSane   *)
(* of RainCore are checked in every open state, i.e. also after every       *)
(* reopen with either setting.                                              *)
(***************************************************************************)
EXTENDS RainCore, SequencesExt

CONSTANTS
  MaxFiles,
  MaxReopens,
  Bug_SnapshotSwapsBounds,     \* snapshot record written as largest..smallest (defect 2)
  Bug_SeqFromManifestOnly,     \* last sequence restored from the manifest, not from the logs
  Bug_ReplaySkipsOlderLogs,    \* only the newest log is replayed
  Bug_CounterNotRestored,      \* file-number counter taken from the manifest only
  Bug_CloseInstallsPartial,    \* a close during a table compaction installs the outputs written so
                               \* far (and removes ALL inputs) instead of abandoning the compaction
  Bug_MoveRecordLosesDelete,   \* the manifest record of a trivial move lacks the delete
  Bug_OpenKeepsOldLogNumber    \* the manifest snapshot written at open records the OLD log number
                               \* although the last log was re-adopted (dead logs are kept)

VARIABLES man, walEnts, isopen, reopens

rvars == <<coreVars, man, walEnts, isopen, reopens>>

EditOf ==
  [add |-> UNION {{[lvl |-> l, rec |-> r] : r \in {x \in SeqToSet(cur'[l]) : x \notin SeqToSet(cur[l])}}
                    : l \in Levels},
   del |-> UNION {{<<l, r.no>> : r \in {x \in SeqToSet(cur[l]) : x \notin SeqToSet(cur'[l])}}
                    : l \in Levels},
   logWal |-> logWal', next |-> nextFile', last |-> seq']

\* VersionBuilder: apply one edit to a version
ApplyEdit(v, e) ==
  [l \in Levels |->
     LET kept == SelectSeq(v[l], LAMBDA f : <<l, f.no>> \notin e.del)
         added == {a.rec : a \in {x \in e.add : x.lvl = l}} IN
     IF l = 0 THEN kept \o SetToSortSeq(added, LAMBDA a, b : a.no < b.no)
     ELSE InsertAll(kept, added)]

FoldEdit(m, e) == [ver |-> ApplyEdit(m.ver, e), logWal |-> e.logWal, next |-> e.next, last |-> e.last]
EmptyMan == [ver |-> EmptyVersion(NL), logWal |-> 0, next |-> 0, last |-> 0]

Logged == man' = FoldEdit(man, EditOf)

Recovered == man

SeqMax(E) == IF E = {} THEN 0 ELSE SetMax({e[2] : e \in E})

---------------------------------------------------------------------------
RInit ==
  /\ Init
  /\ man = FoldEdit(EmptyMan, [add |-> {}, del |-> {}, logWal |-> 1, next |-> 1, last |-> 0])
  /\ walEnts = (1 :> {}) /\ isopen = TRUE /\ reopens = 0

Same == UNCHANGED <<man, walEnts, isopen, reopens>>

RWrite(k, o) ==
  /\ isopen /\ Write(k, o)
  /\ walEnts' = [walEnts EXCEPT ![curWal] = @ \cup (mem' \ mem)]
  /\ UNCHANGED <<man, isopen, reopens>>

RRotate ==
  /\ isopen /\ Rotate
  /\ walEnts' = (curWal' :> {}) @@ walEnts
  /\ UNCHANGED <<man, isopen, reopens>>

RRemoveObsolete ==
  /\ isopen /\ RemoveObsolete
  /\ walEnts' = [w \in {x \in DOMAIN walEnts : <<"wal", x>> \in disk'} |-> walEnts[w]]
  /\ UNCHANGED <<man, isopen, reopens>>

\* close: the API contract (snapshots and iterators released).  Drop waits for the running
\* background task only: a rotated memtable may still be unflushed (its log is replayed at the next
\* open) and a compaction may have been abandoned (its outputs are orphans for the next deletion
\* pass).
Close ==
  /\ isopen /\ pins = {} /\ snaps = <<>>
  /\ reopens < MaxReopens
  /\ isopen' = FALSE
  /\ IF Bug_CloseInstallsPartial /\ comp.on /\ comp.outs # {} /\ comp.todo # {}
     THEN \* the shutdown flag ends the merge loop early; the outputs so far are installed
          /\ LET l == comp.lvl
                 gone == comp.in0 \cup comp.in1
                 R == {MkRec(no, files[no]) : no \in comp.outs} IN
             cur' = [cur EXCEPT ![l] = RemoveNos(@, gone),
                                ![l + 1] = InsertAll(RemoveNos(@, gone), R)]
          /\ pending' = pending \ comp.outs /\ comp' = NoComp
          /\ UNCHANGED <<nk, seq, hist, mem, imm, immOn, immDone, immWal, files, pins, snaps, disk,
                         nextFile, curWal, logWal, nextPin, gcDue, walEnts, reopens>>
          /\ Logged
     ELSE UNCHANGED <<coreVars, man, walEnts, reopens>>

SnapshotEdit(v, lw, nx, ls) ==
  [add |-> UNION {{[lvl |-> l,
                    rec |-> IF Bug_SnapshotSwapsBounds THEN [r EXCEPT !.lo = r.hi, !.hi = r.lo]
                            ELSE r] : r \in SeqToSet(v[l])} : l \in Levels},
   del |-> {}, logWal |-> lw, next |-> nx, last |-> ls]

\* DB::open.  `reuse` = DbOptions::reuse_log_files; `mreuse` = the manifest is small enough to be
\* appended to (VersionSet::maybe_reuse_manifest; only with `reuse`).
\*  - every log >= the recorded WAL number is replayed into ITS OWN memtable, oldest first;
\*    a non-empty memtable of an older log becomes a level-0 table;
\*  - the last log is appended to again (with its memtable) if `reuse`; otherwise its entries
\*    become a level-0 table too and a new log is started;
\*  - the file-number counter is the manifest's, pushed past every replayed log's number;
\*  - the last sequence is the larger of the manifest's and the logs';
\*  - a manifest that is not reused is replaced by one starting with a SNAPSHOT of the version.
Open(reuse, mreuse) ==
  /\ ~isopen
  /\ LET r == Recovered
         allLogs == {w \in DOMAIN walEnts : w >= r.logWal}
         logs == IF Bug_ReplaySkipsOlderLogs /\ allLogs # {} THEN {SetMax(allLogs)} ELSE allLogs
         lastWal == IF logs = {} THEN 0 ELSE SetMax(logs)
         walReused == reuse /\ lastWal # 0
         toTables == {w \in logs : walEnts[w] # {} /\ (w # lastWal \/ ~walReused)}
         order == SetToSortSeq(toTables, LAMBDA a, b : a < b)
         replayed == UNION {walEnts[w] : w \in logs}
         lastSeq == IF Bug_SeqFromManifestOnly THEN r.last
                    ELSE IF SeqMax(replayed) > r.last THEN SeqMax(replayed) ELSE r.last
         counter == IF Bug_CounterNotRestored THEN r.next ELSE SetMax({r.next} \cup allLogs)
         nt == Len(order)
         newRecs == [i \in 1..nt |-> MkRec(counter + i, walEnts[order[i]])]
         wno == IF walReused THEN lastWal ELSE counter + nt + 1
         nxt == IF walReused THEN counter + nt ELSE counter + nt + 1
         v2 == [r.ver EXCEPT ![0] = @ \o newRecs]
         changed == nt > 0 \/ ~walReused \/ walEnts[lastWal] = {}
         edit == [add |-> {[lvl |-> 0, rec |-> newRecs[i]] : i \in 1..nt}, del |-> {},
                  logWal |-> wno, next |-> nxt, last |-> lastSeq] IN
     /\ seq' = lastSeq
     /\ mem' = IF walReused THEN walEnts[lastWal] ELSE {}
     /\ cur' = v2 /\ curWal' = wno /\ nextFile' = nxt
     /\ files' = [i \in {counter + j : j \in 1..nt} |-> walEnts[order[i - counter]]] @@ files
     /\ disk' = (disk \cup {<<"table", counter + j>> : j \in 1..nt}) \cup {<<"wal", wno>>}
     /\ walEnts' = IF walReused THEN walEnts ELSE (wno :> {}) @@ walEnts
     /\ IF ~(reuse /\ mreuse)
        THEN IF Bug_OpenKeepsOldLogNumber /\ walReused
             THEN man' = FoldEdit(EmptyMan, SnapshotEdit(v2, r.logWal, nxt, lastSeq)) /\ logWal' = r.logWal
             ELSE man' = FoldEdit(EmptyMan, SnapshotEdit(v2, wno, nxt, lastSeq)) /\ logWal' = wno
        ELSE IF changed THEN man' = FoldEdit(man, edit) /\ logWal' = wno
        ELSE man' = man /\ logWal' = r.logWal
  /\ imm' = {} /\ immOn' = FALSE /\ immDone' = FALSE /\ immWal' = 0
  /\ pins' = {} /\ snaps' = <<>> /\ pending' = {} /\ comp' = NoComp /\ nextPin' = 1
  /\ gcDue' = TRUE          \* remove_obsolete_files runs at the end of open
  /\ isopen' = TRUE /\ reopens' = reopens + 1
  /\ UNCHANGED <<nk, hist>>

RNext ==
  \/ \E k \in Keys, o \in Ops : RWrite(k, o)
  \/ RRotate
  \/ isopen /\ (\E l \in 0..2 : FlushInstall(l)) /\ Logged /\ UNCHANGED <<walEnts, isopen, reopens>>
  \/ isopen /\ ImmDrop /\ Same
  \/ RRemoveObsolete
  \/ isopen /\ (\E l \in Levels : \E f \in LvlSet(cur, l) : CompactPick(l, f)) /\ Same
  \/ isopen /\ (\E l \in Levels : \E f \in LvlSet(cur, l) : TrivialMove(l, f))
            /\ (IF Bug_MoveRecordLosesDelete THEN man' = FoldEdit(man, [EditOf EXCEPT !.del = {}])
                ELSE Logged)
            /\ UNCHANGED <<walEnts, isopen, reopens>>
  \/ isopen /\ (\E n \in 1..FileCap : CompactEmit(n)) /\ Same
  \/ isopen /\ CompactInstall /\ Logged /\ UNCHANGED <<walEnts, isopen, reopens>>
  \/ Close
  \/ \E reuse \in BOOLEAN : \E mreuse \in {b \in BOOLEAN : b => reuse} : Open(reuse, mreuse)

RSpec == RInit /\ [][RNext]_rvars

\* the RainCore properties in every open state
RReadCorrect == isopen => ReadCorrect
RWellFormed == isopen => WellFormed
RSeqSane == isopen => SeqSane
\* what is persisted always describes the current version (as sets of file numbers per level)
ManifestMatches ==
  isopen => \A l \in Levels : {f.no : f \in SeqToSet(Recovered.ver[l])} = {f.no : f \in SeqToSet(cur[l])}
\* a number handed out is larger than every number in use
\* (orphans of an abandoned compaction may carry larger numbers: they are overwritten or removed
\* by the deletion pass at the end of open)
NumbersFresh ==
  isopen => /\ \A l \in Levels : \A f \in LvlSet(cur, l) : f.no <= nextFile
            /\ \A n \in pending : n <= nextFile
            /\ \A w \in DOMAIN walEnts : w >= logWal => w <= nextFile
\* C11 for logs: after a deletion pass no log other than the one being written is left whose
\* records are all in table files (largest sequence in the log <= largest sequence in the tables;
\* flushes happen in sequence order, so such a log can never be needed again)
TableSeqMax == SeqMax(UNION {EntsOf(files, f.no) : f \in UNION {LvlSet(cur, l) : l \in Levels}})
DeadLogs == {w \in DOMAIN walEnts : /\ w # curWal /\ walEnts[w] # {} /\ <<"wal", w>> \in disk
                                      /\ SeqMax(walEnts[w]) <= TableSeqMax}
NoDeadLogAfterPass == [][(isopen /\ RemoveObsolete) => DeadLogs' = {}]_rvars
RBound == nextFile <= MaxFiles
=============================================================================
