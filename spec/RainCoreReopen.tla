--------------------------- MODULE RainCoreReopen ---------------------------
(***************************************************************************)
(* RainCore extended with what is PERSISTED and with close / reopen:        *)
(*   man     the manifest: a sequence of version edits (files added with    *)
(*           level, number and RECORDED bounds; files deleted; the WAL      *)
(*           number from which logs are still needed; file-number counter   *)
(*           and last sequence at the time of the edit);                    *)
(*   walEnts what every write-ahead log holds.                              *)
(* Every RainCore action that installs a version appends the corresponding  *)
(* edit; `Open` rebuilds the volatile state the way DB::open does: fold the *)
(* manifest (VersionSet::recover), replay the logs >= the recorded WAL      *)
(* number, then either reuse manifest + last WAL + memtable                 *)
(* (reuse_log_files) or write the replayed entries to a level-0 table and   *)
(* start a new manifest with a SNAPSHOT record of the current version.      *)
(*                                                                         *)
(* C01 / C10 across close and reopen: ReadCorrect, WellFormed and SeqSane   *)
(* of RainCore are checked in every open state, i.e. also after every       *)
(* reopen with either setting.                                              *)
(***************************************************************************)
EXTENDS RainCore, SequencesExt

CONSTANTS
  MaxFiles,
  MaxReopens,
  Bug_SnapshotSwapsBounds,     \* snapshot record written as largest..smallest (defect 2)
  Bug_SeqFromManifestOnly,     \* last sequence restored from the manifest, not from the logs
  Bug_ReplaySkipsOlderLogs,    \* only the newest log is replayed
  Bug_CounterNotRestored       \* file-number counter taken from the manifest only

VARIABLES man, walEnts, isopen, reopens

rvars == <<coreVars, man, walEnts, isopen, reopens>>

EditOf ==
  [add |-> UNION {{[lvl |-> l, rec |-> r] : r \in {x \in SeqToSet(cur'[l]) : x \notin SeqToSet(cur[l])}}
                    : l \in Levels},
   del |-> UNION {{<<l, r.no>> : r \in {x \in SeqToSet(cur[l]) : x \notin SeqToSet(cur'[l])}}
                    : l \in Levels},
   logWal |-> logWal', next |-> nextFile', last |-> seq']

Logged == man' = Append(man, EditOf)

\* VersionBuilder: apply one edit to a version
ApplyEdit(v, e) ==
  [l \in Levels |->
     LET kept == SelectSeq(v[l], LAMBDA f : <<l, f.no>> \notin e.del)
         added == {a.rec : a \in {x \in e.add : x.lvl = l}} IN
     IF l = 0 THEN kept \o SetToSortSeq(added, LAMBDA a, b : a.no < b.no)
     ELSE InsertAll(kept, added)]

RECURSIVE FoldEdits(_, _, _)
FoldEdits(recs, i, acc) ==
  IF i > Len(recs) THEN acc
  ELSE FoldEdits(recs, i + 1, [ver |-> ApplyEdit(acc.ver, recs[i]), logWal |-> recs[i].logWal,
                               next |-> recs[i].next, last |-> recs[i].last])

Recovered == FoldEdits(man, 1, [ver |-> EmptyVersion(NL), logWal |-> 0, next |-> 0, last |-> 0])

SeqMax(E) == IF E = {} THEN 0 ELSE SetMax({e[2] : e \in E})

---------------------------------------------------------------------------
RInit ==
  /\ Init
  /\ man = << [add |-> {}, del |-> {}, logWal |-> 1, next |-> 1, last |-> 0] >>
  /\ walEnts = (1 :> {}) /\ isopen = TRUE /\ reopens = 0

Same == UNCHANGED <<man, walEnts, isopen, reopens>>

RWrite(k, o) ==
  /\ isopen /\ Write(k, o)
  /\ walEnts' = [walEnts EXCEPT ![curWal] = @ \cup (mem' \ mem)]
  /\ UNCHANGED <<man, isopen, reopens>>

RRotate ==
  /\ isopen /\ Rotate
  /\ walEnts' = (curWal' :> {}) @@ walEnts
  /\ UNCHANGED <<man, isopen, reopens>>

RRemoveObsolete ==
  /\ isopen /\ RemoveObsolete
  /\ walEnts' = [w \in {x \in DOMAIN walEnts : <<"wal", x>> \in disk'} |-> walEnts[w]]
  /\ UNCHANGED <<man, isopen, reopens>>

\* close: the API contract (snapshots and iterators released) and no background work pending
Close ==
  /\ isopen /\ ~immOn /\ ~comp.on /\ ~gcDue /\ pins = {} /\ snaps = <<>> /\ pending = {}
  /\ reopens < MaxReopens
  /\ isopen' = FALSE
  /\ UNCHANGED <<coreVars, man, walEnts, reopens>>

SnapshotEdit(v, lw, nx, ls) ==
  [add |-> UNION {{[lvl |-> l,
                    rec |-> IF Bug_SnapshotSwapsBounds THEN [no |-> r.no, lo |-> r.hi, hi |-> r.lo]
                            ELSE r] : r \in SeqToSet(v[l])} : l \in Levels},
   del |-> {}, logWal |-> lw, next |-> nx, last |-> ls]

Open(reuse) ==
  /\ ~isopen
  /\ LET r == Recovered
         logs == {w \in DOMAIN walEnts : w >= r.logWal}
         replayed == IF Bug_ReplaySkipsOlderLogs /\ logs # {} THEN walEnts[SetMax(logs)]
                     ELSE UNION {walEnts[w] : w \in logs}
         lastSeq == IF Bug_SeqFromManifestOnly THEN r.last
                    ELSE IF SeqMax(replayed) > r.last THEN SeqMax(replayed) ELSE r.last
         counter == IF Bug_CounterNotRestored THEN r.next
                    ELSE SetMax({r.next} \cup logs)
         lastWal == IF logs = {} THEN 0 ELSE SetMax(logs) IN
     /\ seq' = lastSeq
     /\ IF reuse /\ lastWal # 0
        THEN \* manifest, last WAL and its memtable are reused
             /\ mem' = replayed /\ cur' = r.ver /\ curWal' = lastWal /\ logWal' = r.logWal
             /\ nextFile' = counter /\ files' = files /\ disk' = disk
             /\ man' = man /\ walEnts' = walEnts
        ELSE \* replayed entries go to a level-0 table, new WAL, new manifest with a snapshot
             LET tno == counter + 1
                 wno == IF replayed = {} THEN counter + 1 ELSE counter + 2
                 v2 == IF replayed = {} THEN r.ver
                       ELSE [r.ver EXCEPT ![0] = Append(@, MkRec(tno, replayed))] IN
             /\ mem' = {} /\ cur' = v2 /\ curWal' = wno /\ logWal' = wno
             /\ nextFile' = wno
             /\ files' = IF replayed = {} THEN files ELSE (tno :> replayed) @@ files
             /\ disk' = (disk \cup {<<"wal", wno>>})
                        \cup (IF replayed = {} THEN {} ELSE {<<"table", tno>>})
             /\ man' = << SnapshotEdit(v2, wno, wno, lastSeq) >>
             /\ walEnts' = (wno :> {}) @@ walEnts
  /\ imm' = {} /\ immOn' = FALSE /\ immDone' = FALSE /\ immWal' = 0
  /\ pins' = {} /\ snaps' = <<>> /\ pending' = {} /\ comp' = NoComp /\ nextPin' = 1
  /\ gcDue' = TRUE          \* remove_obsolete_files runs at the end of open
  /\ isopen' = TRUE /\ reopens' = reopens + 1
  /\ UNCHANGED <<nk, hist>>

RNext ==
  \/ \E k \in Keys, o \in Ops : RWrite(k, o)
  \/ RRotate
  \/ isopen /\ (\E l \in 0..2 : FlushInstall(l)) /\ Logged /\ UNCHANGED <<walEnts, isopen, reopens>>
  \/ isopen /\ ImmDrop /\ Same
  \/ RRemoveObsolete
  \/ isopen /\ (\E l \in Levels : \E f \in LvlSet(cur, l) : CompactPick(l, f)) /\ Same
  \/ isopen /\ (\E l \in Levels : \E f \in LvlSet(cur, l) : TrivialMove(l, f)) /\ Logged
            /\ UNCHANGED <<walEnts, isopen, reopens>>
  \/ isopen /\ (\E n \in 1..FileCap : CompactEmit(n)) /\ Same
  \/ isopen /\ CompactInstall /\ Logged /\ UNCHANGED <<walEnts, isopen, reopens>>
  \/ Close
  \/ \E reuse \in BOOLEAN : Open(reuse)

RSpec == RInit /\ [][RNext]_rvars

\* the RainCore properties in every open state
RReadCorrect == isopen => ReadCorrect
RWellFormed == isopen => WellFormed
RSeqSane == isopen => SeqSane
\* what is persisted always describes the current version (as sets of file numbers per level)
ManifestMatches ==
  isopen => \A l \in Levels : {f.no : f \in SeqToSet(Recovered.ver[l])} = {f.no : f \in SeqToSet(cur[l])}
RBound == nextFile <= MaxFiles
=============================================================================
