----------------------------- MODULE MC_RainLog -----------------------------
(* Model-checking instances of RainLog.  The length family is written in terms of Block and Hdr,
   so the same definitions serve the small constants and the real ones (32768 / 7). *)
EXTENDS RainLog

\* empty, one byte, the lengths that (from offset 0) leave Hdr+1 .. 0 bytes in the block or spill
\* 1 byte into the next one, a whole block of payload, a record spanning three blocks
MCLens == {0, 1} \cup ((Block - 2 * Hdr - 1)..(Block - Hdr + 1)) \cup {Block, 2 * Block + 3}

\* small variant for deeper behaviours: empty, one byte, leaving Hdr / Hdr-1 / 0 bytes, spilling
\* one byte, spanning three blocks
MCLensFew == {0, 1, Block - 2 * Hdr, Block - 2 * Hdr + 1, Block - Hdr, Block - Hdr + 1,
              2 * Block + 3}

MCNoFiller == {-1}

\* filler lengths that put the writer at block offsets Hdr, Hdr+1, Block-Hdr-8 .. Block-1
\* (offsets 1 .. Hdr-1 cannot be reached by any writer: every fragment has a header)
MCFillers == {-1, 0, 1} \cup {o - Hdr : o \in (Block - Hdr - 8)..(Block - 1)}
=============================================================================
