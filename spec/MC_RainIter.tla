---------------------------- MODULE MC_RainIter ----------------------------
EXTENDS RainIter
\* two user keys; key 1 has put@1, delete@3, put@5; key 2 has put@2, delete@4
MCEntries == {<<1, 1, 1>>, <<1, 3, 0>>, <<1, 5, 1>>, <<2, 2, 1>>, <<2, 4, 0>>}
\* three user keys, runs of tombstones and several versions
MCEntries3 == {<<1, 1, 1>>, <<1, 4, 0>>, <<2, 2, 1>>, <<2, 5, 1>>, <<3, 3, 0>>, <<3, 6, 1>>}
\* simulation universe: four user keys, up to four versions each, tombstones first / last / between
MCEntriesSim == {<<1, 1, 1>>, <<1, 5, 0>>, <<1, 9, 1>>, <<2, 2, 0>>, <<2, 6, 1>>, <<2, 10, 1>>,
                 <<3, 3, 1>>, <<3, 7, 1>>, <<3, 11, 0>>, <<4, 4, 1>>, <<4, 8, 0>>, <<4, 12, 0>>}
=============================================================================
