SPECIFICATION Spec
CONSTANTS
  NK = 3
  MaxSeq = 4
  NL = 3
  MemCap = 2
  FileCap = 4
  MaxSnaps = 0
  MaxPins = 0
  MaxFiles = 9
  KeepExtra = FALSE
  Ops = {1}
  Bug_RangeMin = FALSE
  Bug_NoBoundary = FALSE
  Bug_DropTombNoBase = FALSE
  Bug_DropAboveSnapshot = FALSE
  Bug_FlushLevelUnsafe = FALSE
  Bug_DeletePending = FALSE
  Bug_DeletePinned = FALSE
  Bug_ImmDropEarly = FALSE
  Bug_FlushDeepDuringCompaction = FALSE
  Bug_ExpandKeepsParents = FALSE
  Bug_ExpandNoBoundary = FALSE
INVARIANTS ReadCorrect WellFormed NothingLiveDeleted SeqSane
PROPERTIES Invisible NoLeakAfterPass
CONSTRAINT MCBound
VIEW MCView
CHECK_DEADLOCK FALSE
