---------------------------- MODULE RainConc_Gen ----------------------------
(***************************************************************************)
(* Behaviour generator for spec -> implementation replay.  RainConc with a   *)
(* history variable `sch`: the process that took each step.  TLC in          *)
(* simulation mode prints one line per complete behaviour (every client has  *)
(* returned, the background thread is idle); the `sched` driver replays the  *)
(* line against the real raindb: client threads and the worker are parked at *)
(* every point where they do not hold the database mutex (hook               *)
(* `sched_point`), and for every entry of `sch` the named thread - if it is  *)
(* parked - is let run to its next such point.  The recorded execution is    *)
(* then judged by RainConc_Trace like every other concurrent run.            *)
(* The model's steps are finer than the pause points (several critical       *)
(* sections of one thread may run back to back), so the replay follows the   *)
(* ORDER in which the model lets threads make progress, not every step.      *)
(***************************************************************************)
EXTENDS MC_RainConc, Json

VARIABLE sch

GenInit == Init /\ sch = <<>>

GenNext ==
  \/ \E w \in Writers : WriterStep(w) /\ sch' = Append(sch, w)
  \/ \E r \in Readers : ReaderStep(r) /\ sch' = Append(sch, r)
  \/ BgStep /\ sch' = Append(sch, BG)

GenSpec == GenInit /\ [][GenNext]_<<vars, sch>>

Terminal == /\ \A w \in Writers : pc[w] = "ret"
            /\ \A r \in Readers : pc[r] = "ret"
            /\ pc[BG] = "idle" /\ chan = 0

\* compress runs of the same process (one release lets a thread run to its next pause point)
RECURSIVE Squeeze(_)
Squeeze(s) == IF Len(s) <= 1 THEN s
              ELSE IF s[1] = s[2] THEN Squeeze(Tail(s)) ELSE <<s[1]>> \o Squeeze(Tail(s))

Emit == Terminal => PrintT(<<"@@SCHED", ToJson(sch)>>)
=============================================================================
