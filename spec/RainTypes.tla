----------------------------- MODULE RainTypes -----------------------------
(***************************************************************************)
(* Shared vocabulary of the raindb specifications.                         *)
(*                                                                         *)
(* An ENTRY is a tuple <<k, s, o, v>>: user key id, sequence number,       *)
(* operation (1 = put, 0 = delete) and value id (0 for a delete).          *)
(* An INTERNAL KEY is <<k, s, o>>; the order is user key ascending,        *)
(* sequence descending (src/key.rs, Ord for InternalKey).  ILess only      *)
(* looks at the first two components, so it works on entries as well.      *)
(*                                                                         *)
(* A FILE RECORD is [no, lo, hi]: file number and the smallest / largest   *)
(* internal key AS RECORDED IN THE VERSION METADATA.  The contents of the   *)
(* table file live in a separate map  files : no -> set of entries.  A     *)
(* VERSION is a function level -> sequence of file records in the order    *)
(* the implementation keeps them.                                          *)
(***************************************************************************)
EXTENDS Naturals, Integers, Sequences, FiniteSets

NoEntry == <<0, 0, 0, 0>>

EK(e) == e[1]
ES(e) == e[2]
EO(e) == e[3]
EV(e) == e[4]

IKeyOf(e) == <<e[1], e[2], e[3]>>

ILess(a, b) == a[1] < b[1] \/ (a[1] = b[1] /\ a[2] > b[2])
ILeq(a, b)  == (a[1] = b[1] /\ a[2] = b[2]) \/ ILess(a, b)

MinI(S) == CHOOSE x \in S : \A y \in S : ILeq(x, y)
MaxI(S) == CHOOSE x \in S : \A y \in S : ILeq(y, x)

SetMax(S) == CHOOSE x \in S : \A y \in S : y <= x
SetMin(S) == CHOOSE x \in S : \A y \in S : x <= y

(* value a reader gets from an entry: the value id of a put, 0 for a delete / nothing *)
ValOf(e) == IF e[3] = 1 THEN e[4] ELSE 0

(* newest entry of key k with sequence <= s in the entry set E, or NoEntry *)
Newest(E, k, s) ==
  LET C == {e \in E : e[1] = k /\ e[2] <= s} IN
  IF C = {} THEN NoEntry ELSE CHOOSE e \in C : \A d \in C : d[2] <= e[2]

(***************************************************************************)
(* The abstract store.  hist[i] = <<k, o, v>> is the operation that was     *)
(* committed with sequence number i (k = 0 for a sequence number that was  *)
(* consumed without an effect).                                            *)
(***************************************************************************)
AbstractAt(hist, k, s) ==
  LET n == IF s < Len(hist) THEN s ELSE Len(hist)
      C == {i \in 1..n : hist[i][1] = k} IN
  IF C = {} THEN 0
  ELSE LET i == SetMax(C) IN IF hist[i][2] = 1 THEN hist[i][3] ELSE 0

RECURSIVE VisibleFrom(_, _, _, _)
VisibleFrom(hist, s, k, nk) ==
  IF k > nk THEN <<>>
  ELSE LET v == AbstractAt(hist, k, s) IN
       IF v = 0 THEN VisibleFrom(hist, s, k + 1, nk)
       ELSE <<<<k, v>>>> \o VisibleFrom(hist, s, k + 1, nk)

(* what a full forward scan at sequence s must deliver: <<k, v>> pairs in key order *)
Visible(hist, s, nk) == VisibleFrom(hist, s, 1, nk)

RevSeq(sq) == [i \in 1..Len(sq) |-> sq[Len(sq) + 1 - i]]

(***************************************************************************)
(* The implementation's read path (DB::get -> Version::get ->              *)
(* Table::get), defined through the RECORDED bounds and the search order,   *)
(* so that a layout in which the metadata lies about a file, or in which    *)
(* an older version sits above a newer one, changes the result exactly as   *)
(* it does in the code.                                                     *)
(***************************************************************************)
EntsOf(files, no) == IF no \in DOMAIN files THEN files[no] ELSE {}

SeqToSet(sq) == {sq[i] : i \in 1..Len(sq)}

(* level 0: every file whose recorded user-key range contains k, newest file number first *)
RECURSIVE L0Hit(_, _, _, _)
L0Hit(F, files, k, s) ==
  IF F = {} THEN NoEntry
  ELSE LET f == CHOOSE g \in F : \A h \in F : h.no <= g.no
           r == Newest(EntsOf(files, f.no), k, s) IN
       IF r # NoEntry THEN r ELSE L0Hit(F \ {f}, files, k, s)

(* find_file_with_upper_bound_range: binary search for the first file whose recorded largest
   key is >= the target; 0-based left/right over the 1-based sequence fs *)
RECURSIVE BSearch(_, _, _, _)
BSearch(fs, t, left, right) ==
  IF left >= right THEN left
  ELSE LET mid == (left + right) \div 2 IN
       IF ILess(fs[mid + 1].hi, t) THEN BSearch(fs, t, mid + 1, right)
       ELSE BSearch(fs, t, left, mid)

LvlHit(fs, files, k, s) ==
  IF Len(fs) = 0 THEN NoEntry
  ELSE LET i == BSearch(fs, <<k, s, 1>>, 0, Len(fs)) IN
       IF i = Len(fs) THEN NoEntry
       ELSE LET f == fs[i + 1] IN
            IF f.lo[1] <= k THEN Newest(EntsOf(files, f.no), k, s) ELSE NoEntry

RECURSIVE DeepHit(_, _, _, _, _, _)
DeepHit(ver, files, l, nl, k, s) ==
  IF l >= nl THEN NoEntry
  ELSE LET r == LvlHit(ver[l], files, k, s) IN
       IF r # NoEntry THEN r ELSE DeepHit(ver, files, l + 1, nl, k, s)

Lookup(mem, imm, ver, files, nl, k, s) ==
  LET m == Newest(mem, k, s) IN
  IF m # NoEntry THEN ValOf(m) ELSE
  LET i == Newest(imm, k, s) IN
  IF i # NoEntry THEN ValOf(i) ELSE
  LET z == L0Hit({f \in SeqToSet(ver[0]) : f.lo[1] <= k /\ k <= f.hi[1]}, files, k, s) IN
  IF z # NoEntry THEN ValOf(z) ELSE
  ValOf(DeepHit(ver, files, 1, nl, k, s))

(***************************************************************************)
(* C10: the shape of a version.                                            *)
(***************************************************************************)
AllFileRecs(ver, nl) == UNION {SeqToSet(ver[l]) : l \in 0..(nl - 1)}

SortedDisjoint(fs) ==
  \A i \in 1..(Len(fs) - 1) : ILess(fs[i].hi, fs[i + 1].lo)

BoundsOK(f, files) ==
  /\ ILeq(f.lo, f.hi)
  /\ LET E == EntsOf(files, f.no) IN
     E # {} => /\ IKeyOf(MinI(E)) = f.lo
               /\ IKeyOf(MaxI(E)) = f.hi

NoDupNumbers(ver, nl) ==
  \A l1, l2 \in 0..(nl - 1) : \A i \in 1..Len(ver[l1]) : \A j \in 1..Len(ver[l2]) :
     (ver[l1][i].no = ver[l2][j].no) => (l1 = l2 /\ i = j)

WellFormedVer(ver, files, nl) ==
  /\ \A l \in 1..(nl - 1) : SortedDisjoint(ver[l])
  /\ \A f \in AllFileRecs(ver, nl) : BoundsOK(f, files)
  /\ NoDupNumbers(ver, nl)

FileNos(ver, nl) == {f.no : f \in AllFileRecs(ver, nl)}

EmptyVersion(nl) == [l \in 0..(nl - 1) |-> <<>>]
=============================================================================
