------------------------------ MODULE RainLock ------------------------------
(***************************************************************************)
(* C17 "one owner at a time": DB::open, Drop for DB and                     *)
(* DB::destroy_database of raindb on ONE database path, called by several   *)
(* processes (threads / handles), at the granularity at which the races the *)
(* property talks about exist.                                              *)
(*                                                                         *)
(* The lock is an flock() try-lock on the file LOCK (fs2                    *)
(* try_lock_exclusive).  An flock belongs to the open file description and  *)
(* to the INODE, not to the path: `lock_file` is (1) open-or-create the     *)
(* path LOCK -> descriptor on whatever inode the path names now, (2) the    *)
(* atomic try-lock on that inode.  destroy_database removes the file LOCK,  *)
(* so "the path" and "the inode somebody holds a lock on" can come apart;   *)
(* the model therefore keeps inodes:                                        *)
(*   lockIno   inode the path LOCK names (0 = no such file)                 *)
(*   fd[p]     inode p's descriptor is open on (0 = none)                   *)
(*   owner[i]  process holding the flock on inode i, or None                *)
(*                                                                         *)
(* dbState is an abstract marker of the database's files: every step that   *)
(* writes, truncates, creates or deletes database files changes it.  "Does  *)
(* not disturb the running instance" = nobody but the lock holder ever      *)
(* changes it.                                                              *)
(*                                                                         *)
(* Each process runs an arbitrary program: when idle it may start an open   *)
(* or a destroy, when it has the database open it may close it; its         *)
(* instance may have background work (one flush/compaction writing files).  *)
(*                                                                         *)
(*   open    : pre-lock work | open LOCK | try-lock | validate | recover |  *)
(*             finish | return                                              *)
(*   close   : (Drop) wait for background work | release lock | join worker *)
(*   destroy : open LOCK | try-lock | validate | delete | unlink LOCK |     *)
(*             release | remove the empty root directory | return           *)
(*                                                                         *)
(* The design written here: the lock is taken before anything is touched,   *)
(* released only after background work has stopped, destroy deletes only    *)
(* under the lock and unlinks LOCK while it still holds it, and whoever got *)
(* a lock checks that the path LOCK still names the inode it locked.        *)
(* Deviations are named constants; each must give a TLC counterexample.     *)
(***************************************************************************)
EXTENDS Naturals, FiniteSets, TLC

CONSTANTS
  Procs, None,
  Bug_LockAfterRecovery,       \* recovery runs before the lock is taken
  Bug_ReleaseBeforeBgStops,    \* Drop releases the lock without waiting for background work
  Bug_DestroyIgnoresLock,      \* destroy deletes although the try-lock failed
  Bug_OpenTruncatesOnFailure,  \* open truncates/creates database files before it has the lock
  Bug_UnlinkLockAfterRelease,  \* destroy releases the lock and THEN unlinks LOCK, and nobody
                               \* validates the inode (this is what db.rs does at the pinned commit)
  Bug_DestroyWipesAfterRelease \* the last step of destroy - removing the root directory, made
                               \* after the lock is released - removes it WITH whatever is in it

VARIABLES
  pc,       \* [Procs -> label]
  handle,   \* [Procs -> BOOLEAN]  p believes it has the database open
  fd,       \* [Procs -> 0..MaxIno]
  lockIno,  \* 0..MaxIno
  owner,    \* [Inodes -> Procs \cup {None}]  holder of the flock, per inode
  dbState,  \* [exists : BOOLEAN, ver : 0..1]
  bg,       \* [Procs -> 0..1]  background work (a flush / compaction that writes files) of p's
            \* instance is scheduled or running
  \* ---- ghost
  res,      \* [Procs -> "none" | "ok" | "err"] result of p's current call (read in o_ret / d_ret)
  intr,     \* [Procs -> Procs \cup {None}] the process that had the database open when p's call
            \* started and has not begun to close it since (p is an intruder)
  wrote,    \* [Procs -> BOOLEAN] p changed dbState during its current call
  wins,     \* successful opens since the last release by a closing owner (capped at 2)
  foul      \* some change of dbState was made by a process that did not hold the lock

vars == <<pc, handle, fd, lockIno, owner, dbState, bg, res, intr, wrote, wins, foul>>

MaxIno == Cardinality(Procs) + 1
Inodes == 1..MaxIno

Rest == {"idle", "held"}
OpenPcs == {"o_pre", "o_fd", "o_try", "o_chk", "o_rec", "o_fin", "o_ret"}
ClosePcs == {"c_wait", "c_rel", "c_join"}
DestroyPcs == {"d_fd", "d_try", "d_chk", "d_del", "d_unl", "d_rel", "d_rmd", "d_ret"}

TypeOK ==
  /\ pc \in [Procs -> Rest \cup OpenPcs \cup ClosePcs \cup DestroyPcs]
  /\ handle \in [Procs -> BOOLEAN]
  /\ fd \in [Procs -> 0..MaxIno]
  /\ lockIno \in 0..MaxIno
  /\ owner \in [Inodes -> Procs \cup {None}]
  /\ dbState \in [exists : BOOLEAN, ver : 0..1]
  /\ bg \in [Procs -> 0..1]
  /\ res \in [Procs -> {"none", "ok", "err"}]
  /\ intr \in [Procs -> Procs \cup {None}]
  /\ wrote \in [Procs -> BOOLEAN]
  /\ wins \in 0..2
  /\ foul \in BOOLEAN

Init ==
  /\ pc = [p \in Procs |-> "idle"]
  /\ handle = [p \in Procs |-> FALSE]
  /\ fd = [p \in Procs |-> 0]
  /\ lockIno = 0
  /\ owner = [i \in Inodes |-> None]
  /\ dbState = [exists |-> FALSE, ver |-> 0]
  /\ bg = [p \in Procs |-> 0]
  /\ res = [p \in Procs |-> "none"]
  /\ intr = [p \in Procs |-> None]
  /\ wrote = [p \in Procs |-> FALSE]
  /\ wins = 0
  /\ foul = FALSE

---------------------------------------------------------------------------
Holds(p) == fd[p] # 0 /\ owner[fd[p]] = p

\* the inode a newly created LOCK file gets: the smallest one nothing refers to
InUse == {lockIno} \cup {fd[q] : q \in Procs}
FreshIno == CHOOSE i \in Inodes : i \notin InUse /\ \A j \in Inodes : j \notin InUse => i <= j

Goto(p, lbl) == pc' = [pc EXCEPT ![p] = lbl]

\* p changes the database files
Mutate(p, new) ==
  /\ dbState' = new
  /\ wrote' = [wrote EXCEPT ![p] = TRUE]
  /\ foul' = (foul \/ ~Holds(p))

NoMutation == UNCHANGED <<dbState, wrote, foul>>

Bumped == [exists |-> TRUE, ver |-> IF dbState.exists THEN 1 - dbState.ver ELSE 0]
Gone == [exists |-> FALSE, ver |-> 0]

FirmOwners(p) == {q \in Procs \ {p} : handle[q] /\ pc[q] = "held"}

\* bookkeeping at the start of a call of p
BeginCall(p) ==
  /\ res' = [res EXCEPT ![p] = "none"]
  /\ wrote' = [wrote EXCEPT ![p] = FALSE]
  /\ intr' = [intr EXCEPT ![p] = IF FirmOwners(p) = {} THEN None
                                 ELSE CHOOSE q \in FirmOwners(p) : TRUE]

\* ... and when it has returned (the ghosts are only needed while the call runs)
EndCall(p) ==
  /\ res' = [res EXCEPT ![p] = "none"]
  /\ wrote' = [wrote EXCEPT ![p] = FALSE]
  /\ intr' = [intr EXCEPT ![p] = None]

\* open-or-create the path LOCK
LockFd(p) ==
  IF lockIno = 0
  THEN /\ lockIno' = FreshIno
       /\ fd' = [fd EXCEPT ![p] = FreshIno]
  ELSE /\ fd' = [fd EXCEPT ![p] = lockIno]
       /\ UNCHANGED lockIno

---------------------------------------------------------------------------
(* OPEN *)

OpenStart(p) ==
  /\ pc[p] = "idle"
  /\ Goto(p, "o_pre")
  /\ BeginCall(p)
  /\ UNCHANGED <<handle, fd, lockIno, owner, dbState, bg, wins, foul>>

\* what DB::open does before lock_file (directories that already exist, in-memory structures,
\* the worker thread): no change of the database files in the design
OpenPre(p) ==
  /\ pc[p] = "o_pre"
  /\ IF Bug_OpenTruncatesOnFailure THEN Mutate(p, Bumped) ELSE NoMutation
  /\ Goto(p, IF Bug_LockAfterRecovery THEN "o_rec" ELSE "o_fd")
  /\ UNCHANGED <<handle, fd, lockIno, owner, bg, res, intr, wins>>

OpenFd(p) ==
  /\ pc[p] = "o_fd"
  /\ LockFd(p)
  /\ Goto(p, "o_try")
  /\ UNCHANGED <<handle, owner, dbState, bg, res, intr, wrote, wins, foul>>

\* the atomic flock try-lock
OpenTryLock(p) ==
  /\ pc[p] = "o_try"
  /\ IF owner[fd[p]] = None
     THEN /\ owner' = [owner EXCEPT ![fd[p]] = p]
          /\ Goto(p, "o_chk")
          /\ UNCHANGED <<fd, res>>
     ELSE /\ fd' = [fd EXCEPT ![p] = 0]
          /\ res' = [res EXCEPT ![p] = "err"]
          /\ Goto(p, "o_ret")
          /\ UNCHANGED owner
  /\ UNCHANGED <<handle, lockIno, dbState, bg, intr, wrote, wins, foul>>

\* does the path still name the inode that was locked?
OpenValidate(p) ==
  /\ pc[p] = "o_chk"
  /\ IF Bug_UnlinkLockAfterRelease \/ lockIno = fd[p]
     THEN /\ Goto(p, IF Bug_LockAfterRecovery THEN "o_fin" ELSE "o_rec")
          /\ UNCHANGED <<fd, owner, res>>
     ELSE /\ owner' = [owner EXCEPT ![fd[p]] = None]
          /\ fd' = [fd EXCEPT ![p] = 0]
          /\ res' = [res EXCEPT ![p] = "err"]
          /\ Goto(p, "o_ret")
  /\ UNCHANGED <<handle, lockIno, dbState, bg, intr, wrote, wins, foul>>

\* recovery: reads everything, writes a manifest / WAL / CURRENT, removes obsolete files
OpenRecover(p) ==
  /\ pc[p] = "o_rec"
  /\ Mutate(p, Bumped)
  /\ Goto(p, IF Bug_LockAfterRecovery THEN "o_fd" ELSE "o_fin")
  /\ UNCHANGED <<handle, fd, lockIno, owner, bg, res, intr, wins>>

OpenFinish(p) ==
  /\ pc[p] = "o_fin"
  /\ handle' = [handle EXCEPT ![p] = TRUE]
  /\ res' = [res EXCEPT ![p] = "ok"]
  /\ wins' = IF wins < 2 THEN wins + 1 ELSE 2
  /\ Goto(p, "o_ret")
  /\ UNCHANGED <<fd, lockIno, owner, dbState, bg, intr, wrote, foul>>

OpenReturn(p) ==
  /\ pc[p] = "o_ret"
  /\ Goto(p, IF handle[p] THEN "held" ELSE "idle")
  /\ EndCall(p)
  /\ UNCHANGED <<handle, fd, lockIno, owner, dbState, bg, wins, foul>>

---------------------------------------------------------------------------
(* the running instance: background work *)

BgStart(p) ==
  /\ pc[p] = "held" /\ bg[p] = 0
  /\ bg' = [bg EXCEPT ![p] = 1]
  /\ UNCHANGED <<pc, handle, fd, lockIno, owner, dbState, res, intr, wrote, wins, foul>>

\* the worker writes its files and is done
BgWrite(p) ==
  /\ bg[p] = 1
  /\ dbState' = Bumped
  /\ foul' = (foul \/ ~Holds(p))
  /\ bg' = [bg EXCEPT ![p] = 0]
  /\ UNCHANGED <<pc, handle, fd, lockIno, owner, res, intr, wrote, wins>>

---------------------------------------------------------------------------
(* CLOSE = Drop for DB *)

CloseStart(p) ==
  /\ pc[p] = "held"
  /\ Goto(p, "c_wait")
  /\ res' = [res EXCEPT ![p] = "none"]
  /\ wrote' = [wrote EXCEPT ![p] = FALSE]
  \* nobody is an intruder on an instance that is going away
  /\ intr' = [q \in Procs |-> IF q = p \/ intr[q] = p THEN None ELSE intr[q]]
  /\ UNCHANGED <<handle, fd, lockIno, owner, dbState, bg, wins, foul>>

\* while background_compaction_scheduled: wait
CloseWaitBg(p) ==
  /\ pc[p] = "c_wait"
  /\ Bug_ReleaseBeforeBgStops \/ bg[p] = 0
  /\ Goto(p, "c_rel")
  /\ UNCHANGED <<handle, fd, lockIno, owner, dbState, bg, res, intr, wrote, wins, foul>>

\* self.db_lock.take()
CloseRelease(p) ==
  /\ pc[p] = "c_rel"
  /\ owner' = [owner EXCEPT ![fd[p]] = None]
  /\ fd' = [fd EXCEPT ![p] = 0]
  /\ handle' = [handle EXCEPT ![p] = FALSE]
  /\ wins' = 0
  /\ Goto(p, "c_join")
  /\ UNCHANGED <<lockIno, dbState, bg, res, intr, wrote, foul>>

\* stop_worker_thread + join: the worker finishes what it is doing first
CloseJoin(p) ==
  /\ pc[p] = "c_join"
  /\ bg[p] = 0
  /\ Goto(p, "idle")
  /\ UNCHANGED <<handle, fd, lockIno, owner, dbState, bg, res, intr, wrote, wins, foul>>

---------------------------------------------------------------------------
(* DESTROY *)

DestroyStart(p) ==
  /\ pc[p] = "idle"
  /\ Goto(p, "d_fd")
  /\ BeginCall(p)
  /\ UNCHANGED <<handle, fd, lockIno, owner, dbState, bg, wins, foul>>

DestroyFd(p) ==
  /\ pc[p] = "d_fd"
  /\ LockFd(p)
  /\ Goto(p, "d_try")
  /\ UNCHANGED <<handle, owner, dbState, bg, res, intr, wrote, wins, foul>>

DestroyTryLock(p) ==
  /\ pc[p] = "d_try"
  /\ IF owner[fd[p]] = None
     THEN /\ owner' = [owner EXCEPT ![fd[p]] = p]
          /\ Goto(p, "d_chk")
          /\ UNCHANGED <<fd, res>>
     ELSE /\ fd' = [fd EXCEPT ![p] = 0]
          /\ UNCHANGED owner
          /\ IF Bug_DestroyIgnoresLock
             THEN Goto(p, "d_del") /\ UNCHANGED res
             ELSE Goto(p, "d_ret") /\ res' = [res EXCEPT ![p] = "err"]
  /\ UNCHANGED <<handle, lockIno, dbState, bg, intr, wrote, wins, foul>>

DestroyValidate(p) ==
  /\ pc[p] = "d_chk"
  /\ IF Bug_UnlinkLockAfterRelease \/ lockIno = fd[p]
     THEN /\ Goto(p, "d_del")
          /\ UNCHANGED <<fd, owner, res>>
     ELSE /\ owner' = [owner EXCEPT ![fd[p]] = None]
          /\ fd' = [fd EXCEPT ![p] = 0]
          /\ res' = [res EXCEPT ![p] = "err"]
          /\ Goto(p, "d_ret")
  /\ UNCHANGED <<handle, lockIno, dbState, bg, intr, wrote, wins, foul>>

\* remove wal/, data/ and the files of the root directory
DestroyDelete(p) ==
  /\ pc[p] = "d_del"
  /\ Mutate(p, Gone)
  /\ Goto(p, IF Bug_UnlinkLockAfterRelease THEN "d_rel" ELSE "d_unl")
  /\ UNCHANGED <<handle, fd, lockIno, owner, bg, res, intr, wins>>

\* remove the file LOCK (and the then empty directory)
DestroyUnlink(p) ==
  /\ pc[p] = "d_unl"
  /\ lockIno' = 0
  /\ IF Bug_UnlinkLockAfterRelease
     THEN Goto(p, "d_ret") /\ res' = [res EXCEPT ![p] = "ok"]
     ELSE Goto(p, "d_rel") /\ UNCHANGED res
  /\ UNCHANGED <<handle, fd, owner, dbState, bg, intr, wrote, wins, foul>>

DestroyRelease(p) ==
  /\ pc[p] = "d_rel"
  /\ IF fd[p] # 0
     THEN /\ owner' = [owner EXCEPT ![fd[p]] = None]
          /\ fd' = [fd EXCEPT ![p] = 0]
     ELSE UNCHANGED <<owner, fd>>
  /\ IF Bug_UnlinkLockAfterRelease
     THEN Goto(p, "d_unl") /\ UNCHANGED res
     ELSE Goto(p, "d_rmd") /\ UNCHANGED res
  /\ UNCHANGED <<handle, lockIno, dbState, bg, intr, wrote, wins, foul>>

\* the last step, WITHOUT the lock: remove the root directory - only if it is (still) empty; an
\* open that came in after the release has put a new LOCK file and a new database there, and
\* then the removal fails and changes nothing
DestroyRmdir(p) ==
  /\ pc[p] = "d_rmd"
  /\ IF lockIno = 0 /\ ~dbState.exists
     THEN /\ res' = [res EXCEPT ![p] = "ok"]
          /\ UNCHANGED <<lockIno, dbState, wrote, foul>>
     ELSE IF Bug_DestroyWipesAfterRelease
     THEN /\ res' = [res EXCEPT ![p] = "ok"]
          /\ lockIno' = 0
          /\ Mutate(p, Gone)
     ELSE /\ res' = [res EXCEPT ![p] = "err"]
          /\ UNCHANGED <<lockIno, dbState, wrote, foul>>
  /\ Goto(p, "d_ret")
  /\ UNCHANGED <<handle, fd, owner, bg, intr, wins>>

DestroyReturn(p) ==
  /\ pc[p] = "d_ret"
  /\ Goto(p, "idle")
  /\ EndCall(p)
  /\ UNCHANGED <<handle, fd, lockIno, owner, dbState, bg, wins, foul>>

---------------------------------------------------------------------------
\* a process decides to call something
Start(p) == OpenStart(p) \/ CloseStart(p) \/ DestroyStart(p) \/ BgStart(p)

\* a call / the background work in progress goes on
Progress(p) ==
  \/ OpenPre(p) \/ OpenFd(p) \/ OpenTryLock(p) \/ OpenValidate(p) \/ OpenRecover(p)
  \/ OpenFinish(p) \/ OpenReturn(p)
  \/ BgWrite(p)
  \/ CloseWaitBg(p) \/ CloseRelease(p) \/ CloseJoin(p)
  \/ DestroyFd(p) \/ DestroyTryLock(p) \/ DestroyValidate(p) \/ DestroyDelete(p)
  \/ DestroyUnlink(p) \/ DestroyRelease(p) \/ DestroyRmdir(p) \/ DestroyReturn(p)

Next == \E p \in Procs : Start(p) \/ Progress(p)

Spec == Init /\ [][Next]_vars

\* whatever has been started goes on; nobody is obliged to start anything
FairSpec == Spec /\ \A p \in Procs : WF_vars(Progress(p))

---------------------------------------------------------------------------
(* PROPERTIES *)

\* at most one process believes it has the database open
OneOwner == Cardinality({p \in Procs : handle[p]}) <= 1

\* an open / destroy attempted while the database is open (and staying open) returns an error and
\* has not touched the database files
IntruderFailsCleanly ==
  \A p \in Procs :
    (pc[p] \in {"o_ret", "d_ret"} /\ intr[p] # None) => (res[p] = "err" /\ ~wrote[p])

\* ... and more generally nobody who does not hold the lock ever changes the database files: not
\* an intruder, not a destroy, not the background thread of an instance that has let go
OnlyOwnerWrites == ~foul

\* ExactlyOneWinner, safety half: never two successful opens without a close in between
AtMostOneWinner == wins <= 1

LockFree == \A i \in Inodes : owner[i] = None
DestroyRunning == \E q \in Procs : pc[q] \in DestroyPcs

\* ExactlyOneWinner, liveness half: when nobody holds the lock, an open that is about to try the
\* lock on the current LOCK file means that somebody gets the database (unless a destroy comes)
SomeWinner ==
  (\E p \in Procs : pc[p] = "o_try" /\ fd[p] = lockIno /\ LockFree /\ ~DestroyRunning)
     ~> ((\E q \in Procs : handle[q]) \/ DestroyRunning)

\* deadlock freedom, per call: every call returns (in particular Drop does not wait forever)
CallsReturn == \A p \in Procs : (pc[p] \notin Rest) ~> (pc[p] \in Rest)
=============================================================================
